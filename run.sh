#!/bin/bash
# run.sh <Cxx> <quick|thorough> [--replay <path>]
# Rebuilds the harness against /repo's current working tree (hooks on) and runs one check.
set -u
export GOFLAGS=-mod=mod GOPROXY=off GOSUMDB=off GOTOOLCHAIN=local
ID="$1"; TIER="${2:-quick}"; shift; shift || true
export VERIF_TIER="$TIER"
cd /verif/harness || exit 2
mkdir -p /verif/.build /verif/evidence /verif/replays
# build to a private name and rename, so that checks running in parallel never execute a half-written binary
build() { go build ${2:-} -tags verif -ldflags=-checklinkname=0 -o /verif/.build/$1${3:-}.$$ ./cmd/$1 2>/verif/.build/$1${3:-}.build.log && mv -f /verif/.build/$1${3:-}.$$ /verif/.build/$1${3:-}; }
case "$ID" in
  C09) BIN=olc09 ;;
  C16) BIN=olc16 ;;
  *)   BIN=olmon ;;
esac
if ! build "$BIN"; then
  echo "BUILD FAILED for $BIN (see /verif/.build/$BIN.build.log)"; tail -20 /verif/.build/$BIN.build.log; exit 2
fi
if [ "$BIN" = olmon ]; then
  if ! build olbox; then echo "BUILD FAILED for olbox"; tail -20 /verif/.build/olbox.build.log; exit 2; fi
  if [ "$ID" = C07 ]; then
    # the same box built with the Go race detector, used for the concurrent-CheckTx histories
    if build olbox -race -race; then export OLBOX_RACE_BIN=/verif/.build/olbox-race; else echo "note: race-detector build failed; concurrent histories skipped"; fi
  fi
  exec /verif/.build/olmon check "$ID" "$TIER" "$@"
else
  exec /verif/.build/$BIN "$TIER" "$@"
fi
