#!/bin/bash
# run.sh <Cxx> <quick|thorough> [--replay <path>]
# Rebuilds the harness against /repo's current working tree (hooks on) and runs one check.
set -u
export GOFLAGS=-mod=mod GOPROXY=off GOSUMDB=off GOTOOLCHAIN=local
ID="$1"; TIER="${2:-quick}"; shift; shift || true
export VERIF_TIER="$TIER"
# (VERIF_HARNESS: a snapshot copy of the harness sources, so that a long sweep is not disturbed by edits)
cd "${VERIF_HARNESS:-/verif/harness}" || exit 2
# Registered commands always build against /repo into /verif/.build. For trying a seeded change on a scratch
# copy while /repo is busy, VERIF_REPO / VERIF_BUILD point the build at another tree and output directory.
REPO="${VERIF_REPO:-/repo}"; B="${VERIF_BUILD:-/verif/.build}"
mkdir -p "$B" /verif/evidence /verif/replays
MODFLAG=""
if [ "$REPO" != /repo ]; then
  sed "s|=> /repo\$|=> $REPO|" go.mod > "$B/go.mod"; cp go.sum "$B/go.sum"; MODFLAG="-modfile=$B/go.mod"
fi
export OLBOX_BIN="$B/olbox"
# build to a private name and rename, so that checks running in parallel never execute a half-written binary
build() { go build $MODFLAG ${2:-} -tags verif -ldflags=-checklinkname=0 -o $B/$1${3:-}.$$ ./cmd/$1 2>$B/$1${3:-}.build.log && mv -f $B/$1${3:-}.$$ $B/$1${3:-}; }
case "$ID" in
  C09) BIN=olc09 ;;
  C16) BIN=olc16 ;;
  *)   BIN=olmon ;;
esac
if ! build "$BIN"; then
  echo "BUILD FAILED for $BIN (see $B/$BIN.build.log)"; tail -20 $B/$BIN.build.log; exit 2
fi
if [ "$BIN" = olmon ]; then
  if ! build olbox; then echo "BUILD FAILED for olbox"; tail -20 $B/olbox.build.log; exit 2; fi
  if [ "$ID" = C07 ]; then
    # the same box built with the Go race detector, used for the concurrent-CheckTx histories
    if build olbox -race -race; then export OLBOX_RACE_BIN=$B/olbox-race; else echo "note: race-detector build failed; concurrent histories skipped"; fi
  fi
  exec $B/olmon check "$ID" "$TIER" "$@"
else
  exec $B/$BIN "$TIER" "$@"
fi
