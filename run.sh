#!/bin/bash
# run.sh <Cxx> <quick|thorough> [--replay <path>]
# Rebuilds the harness against /repo's current working tree (hooks on) and runs one check.
set -u
export GOFLAGS=-mod=mod GOPROXY=off GOSUMDB=off GOTOOLCHAIN=local
ID="$1"; TIER="${2:-quick}"; shift; shift || true
export VERIF_TIER="$TIER"
cd /verif/harness || exit 2
mkdir -p /verif/.build /verif/evidence /verif/replays
build() { go build -tags verif -ldflags=-checklinkname=0 -o /verif/.build/$1 ./cmd/$1 2>/verif/.build/$1.build.log; }
case "$ID" in
  C09) BIN=olc09 ;;
  C16) BIN=olc16 ;;
  *)   BIN=olmon ;;
esac
if ! build "$BIN"; then
  echo "BUILD FAILED for $BIN (see /verif/.build/$BIN.build.log)"; tail -20 /verif/.build/$BIN.build.log; exit 2
fi
if [ "$BIN" = olmon ]; then
  if ! build olbox; then echo "BUILD FAILED for olbox"; tail -20 /verif/.build/olbox.build.log; exit 2; fi
  exec /verif/.build/olmon check "$ID" "$TIER" "$@"
else
  exec /verif/.build/$BIN "$TIER" "$@"
fi
