#!/bin/bash
# seedall.sh [tier] — runs, for every stored seeded change, the quick (or given tier) check of its own property
# against /repo with the change applied, and records the outcome in the change's meta.json and in
# /verif/seeded/RESULTS.md. Sequential: the change is applied to /repo's working tree and undone each time.
TIER=${1:-quick}
cd /verif
OUT=/verif/seeded/RESULTS.md
echo "# Seeded changes against the checks ($(date -u +%F), tier $TIER, /repo $(git -C /repo rev-parse --short HEAD))" > $OUT
echo >> $OUT
echo "| change | own check | exit | first signature |" >> $OUT
echo "|---|---|---|---|" >> $OUT
for d in /verif/seeded/C??-?; do
  id=$(basename $d); prop=${id%-*}
  if ! git -C /repo apply --check $d/patch.diff 2>/dev/null; then echo "| $id | $prop | - | patch does not apply to HEAD |" >> $OUT; continue; fi
  res=$(SEEDTEST_LINES=0 VERIF_KEEP=1 ./seedtest.sh $d/patch.diff $TIER $prop 2>&1)
  rc=$(echo "$res" | grep -o "exit=[0-9]*" | head -1 | cut -d= -f2)
  sig=$(echo "$res" | grep -o "firstsig=.*" | head -1 | cut -c10- | cut -c1-110)
  echo "| $id | $prop $TIER | $rc | $sig |" >> $OUT
  python3 - "$d/meta.json" "$prop" "$TIER" "$rc" "$sig" <<'PY'
import json,sys
p,prop,tier,rc,sig=sys.argv[1:6]
m=json.load(open(p))
m['checks_run']=f'git -C /repo apply patch.diff; ./run.sh {prop} {tier}; git -C /repo checkout -- .   (seedtest.sh / seedall.sh)'
m['result']=(f'{prop} {tier}: exit {rc}' + (f', first violation signature {sig}' if sig else '') + (' — caught' if rc=='1' else ' — NOT caught' if rc=='0' else ' — inconclusive'))
json.dump(m,open(p,'w'),indent=1)
PY
  echo "$id rc=$rc $sig"
done
echo >> $OUT
