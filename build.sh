#!/bin/bash
# Rebuilds the harness binaries against /repo's current working tree (hooks on).
set -e
export GOFLAGS=-mod=mod GOPROXY=off GOSUMDB=off GOTOOLCHAIN=local
cd /verif/harness
mkdir -p /verif/.build
for c in "$@"; do
  go build -tags verif -ldflags=-checklinkname=0 -o /verif/.build/$c ./cmd/$c
done
