#!/bin/bash
# seedpar.sh <tier> <jobs> [seed-id ...] — like seedall.sh, but every seeded change is applied to its own scratch
# worktree of /repo's HEAD (never to /repo itself) and several run side by side. Each change is judged by the
# check of its own property. Results: /var/tmp/seedpar/<id>.res ("rc|firstsig"), then merged into the
# change's meta.json and /verif/seeded/RESULTS.md (entries of changes not run this time are kept).
TIER=${1:-quick}; JOBS=${2:-3}; shift; shift
cd /verif
export VERIF_HARNESS=/var/tmp/harness_snap.$$; rm -rf $VERIF_HARNESS; cp -r /verif/harness $VERIF_HARNESS; trap "rm -rf $VERIF_HARNESS" EXIT
R=/var/tmp/seedpar; mkdir -p $R
if [ $# -gt 0 ]; then IDS="$*"; else IDS=$(ls -d /verif/seeded/C??-? | xargs -n1 basename); fi
one() {
  id=$1; TIER=$2; prop=${id%-*}; d=/verif/seeded/$id
  W=/var/tmp/sp.$id; OUT=/var/tmp/spo.$id
  rm -rf $W $OUT; git -C /repo worktree prune
  git -C /repo worktree add --detach -q $W HEAD || { echo "2|worktree failed" > /var/tmp/seedpar/$id.res; return; }
  if ! git -C $W apply $d/patch.diff 2>/dev/null; then
    echo "-|patch does not apply to HEAD" > /var/tmp/seedpar/$id.res
  else
    mkdir -p $OUT/evidence $OUT/replays $OUT/build; cp /verif/known_findings.json $OUT/
    VERIF_DIR=$OUT VERIF_REPO=$W VERIF_BUILD=$OUT/build /verif/run.sh $prop $TIER > $OUT/out.txt 2>&1
    rc=$?
    sig=$(grep -m1 -E "^  signature=" $OUT/out.txt | sed 's/^  signature=//' | cut -c1-110)
    echo "$rc|$sig" > /var/tmp/seedpar/$id.res
    if [ "$rc" != 1 ]; then cp $OUT/out.txt /var/tmp/seedpar/$id.out; fi
  fi
  git -C /repo worktree remove --force $W 2>/dev/null; rm -rf $W $OUT
  echo "$id $(cat /var/tmp/seedpar/$id.res)"
}
export -f one
echo $IDS | tr ' ' '\n' | xargs -P $JOBS -I{} bash -c "one {} $TIER"
python3 - $TIER $IDS <<'PY'
import json,sys,os,re,subprocess
tier=sys.argv[1]; ids=sys.argv[2:]
res={}
p='/verif/seeded/RESULTS.md'
if os.path.exists(p):
    for l in open(p):
        m=re.match(r'\| (C\d\d-\w) \| (.*?) \| (.*?) \| (.*?) \|$',l.strip())
        if m: res[m.group(1)]=(m.group(2),m.group(3),m.group(4))
for i in ids:
    f='/var/tmp/seedpar/%s.res'%i
    if not os.path.exists(f): continue
    rc,sig=open(f).read().strip().split('|',1)
    prop=i[:3]
    res[i]=('%s %s'%(prop,tier),rc,sig)
    mp='/verif/seeded/%s/meta.json'%i
    m=json.load(open(mp))
    m['checks_run']=f'patch.diff applied to a scratch worktree of /repo HEAD; VERIF_REPO=<worktree> ./run.sh {prop} {tier}   (seedpar.sh)'
    m['result']=(f'{prop} {tier}: exit {rc}' + (f', first violation signature {sig}' if sig else '') + (' — caught' if rc=='1' else ' — NOT caught' if rc=='0' else ' — inconclusive'))
    json.dump(m,open(mp,'w'),indent=1)
head=subprocess.check_output(['git','-C','/repo','rev-parse','--short','HEAD']).decode().strip()
with open(p,'w') as o:
    o.write(f'# Seeded changes against the checks (last pass touching this file: /repo {head})\n\n| change | own check | exit | first signature |\n|---|---|---|---|\n')
    for i in sorted(res): o.write('| %s | %s | %s | %s |\n'%((i,)+res[i]))
    n=len(res); c=sum(1 for v in res.values() if v[1]=='1')
    o.write(f'\n{c} of {n} caught (exit 1) by the check of their own property.\n')
PY
