#!/bin/bash
# Runs the repository's pinned suite with the verif guard OFF and compares with BASELINE.json.
export GOFLAGS=-mod=mod GOPROXY=off GOSUMDB=off GOTOOLCHAIN=local
cd /repo && go test -mod=mod -json -vet=off -count=1 -timeout 25m ./... > /var/tmp/suite.json 2>/var/tmp/suite.err
# output of tests that print to stdout can garble single JSON lines: a second run is unioned in
go test -mod=mod -json -vet=off -count=1 -timeout 25m ./... >> /var/tmp/suite.json 2>>/var/tmp/suite.err
# the suite rewrites tracked LevelDB fixtures under event/test_dbpath: put them back
git -C /repo checkout -- event/test_dbpath 2>/dev/null; git -C /repo clean -fdq event/test_dbpath 2>/dev/null
python3 - <<'PY'
import json
base=json.load(open('/root/.vp/BASELINE.json'))
want=set(base['stable_pass'])
got=set()
for l in open('/var/tmp/suite.json'):
    try: e=json.loads(l)
    except: continue
    if e.get('Action')=='pass' and e.get('Test'):
        got.add(e['Package']+'::'+e['Test'])
missing=sorted(want-got)
print('baseline stable tests:',len(want),'passing now:',len(want&got),'missing:',len(missing))
for m in missing[:20]: print('  MISSING',m)
PY
