#!/bin/bash
# seedverify_app.sh <Cxx> <A|B> — like seedverify.sh for demonstrations that live in package app, whose TestMain
# exits before running tests: the demo is compiled with the package's non-test files only.
set -u
export GOFLAGS=-mod=mod GOPROXY=off GOSUMDB=off GOTOOLCHAIN=local
ID=$1; V=$2; DIR=${3:-app}; WT=${WT_PREFIX:-/tmp/wt_}$ID; S=$WT/_seed
cd $WT || exit 2
git checkout -q -- . ; git clean -fdq -e _seed
cp $S/demo_${V}_test.go $DIR/zz_seed_${V}_test.go
run() { ( cd $DIR && SEED_DEMO_B=1 go test -ldflags=-checklinkname=0 -vet=off -count=1 -run 'TestSeed' $(ls *.go | grep -v _test.go) zz_seed_${V}_test.go 2>&1 | grep -E "^(ok|FAIL|--- FAIL|PASS|exit status)" | head -5 ); }
echo "--- demo WITHOUT change"; run
git apply $S/$V.diff || { echo "DOES NOT APPLY"; exit 2; }
echo "--- demo WITH change"; run
git checkout -q -- . ; git clean -fdq -e _seed
