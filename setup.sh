#!/bin/bash
# Builds the harness binaries once after a fresh restore (offline).
set -e
export GOFLAGS=-mod=mod GOPROXY=off GOSUMDB=off GOTOOLCHAIN=local
cd /verif/harness
mkdir -p /verif/.build /verif/evidence /verif/replays
for c in olbox olmon; do
  go build -tags verif -ldflags=-checklinkname=0 -o /verif/.build/$c ./cmd/$c
done
for c in olc09 olc16; do
  if [ -d ./cmd/$c ]; then go build -tags verif -ldflags=-checklinkname=0 -o /verif/.build/$c ./cmd/$c; fi
done
echo setup ok
