#!/usr/bin/env python3
# Stores the confirmed seeded changes under /verif/seeded/<Cxx>-<V>/ (patch.diff, demonstration, NOTES, meta.json).
import os, shutil, json, sys
SEEDS = {
 ('C01','A'): ('identity', 'an EndBlock in which three or more validators of the last commit fall out of the active set at once, each purged for the first time: the purge loop ranges a Go map and writes new keys in map order, so only the IAVL root differs between replicas'),
 ('C01','B'): ('event', 'a node that is an ETH witness, a lock tracker receiving its first finality vote, and no broadcast job for it in that node\'s local job store (store lost or replaced): the transition error makes that node skip the tracker state change'),
 ('C02','A'): ('external_apps/bid/bid_action', 'bid conversation with an owner counter offer that ends without a deal (bidder rejects, rebids lower, cancels, or the conversation expires): the counter-offer amount is "refunded" to the bidder although nothing was locked for it'),
 ('C02','B'): ('action/eth', 'at least 4 witnesses and a report of a remaining witness delivered after the threshold-crossing report while the tracker is still in the ongoing store (same block or before the block-end transitions): mint / refund executed a second time'),
 ('C03','A'): ('action/transfer', 'a victim account keyed with secp256k1 and a transaction naming it whose signature entry declares the same key bytes as btcecsecp with junk signature bytes (the btcec verifier always answers true; the change gives btcec keys the secp256k1 address)'),
 ('C03','B'): ('action/staking', 'the same stake address with two or more UNSTAKE transactions in one block; the loss appears MaturityTime blocks later when the matured entries overwrite each other'),
 ('C04','A'): ('action/staking', 'a two-signer kind (STAKE, UNSTAKE, WITHDRAW, PROPOSAL_VOTE) with two different addresses, and a mutant that puts one required signer\'s valid signature into both slots or swaps the two; the account charged the fee (first signature) must be able to pay'),
 ('C04','B'): ('action/transfer', 'as C03-A: secp256k1-keyed account, key algorithm swapped to btcecsecp with the key bytes kept, arbitrary signature bytes'),
 ('C05','A'): ('app', 'an executed and indexed transaction, one of its re-encodings, delivered in a block without passing this node\'s CheckTx (byzantine proposer): the canonical-encoding check was removed from the deliver path only'),
 ('C05','B'): ('action/olvm', 'an EVM account whose transaction leaves it with balance exactly 0 (account deleted together with its nonce), later funded again by somebody else, then the old transaction resubmitted in another spelling of its payload'),
 ('C06','A'): ('storage', 'a handler that deletes a key and then fails (typically at the fee step: gas limit too low or payer cannot pay): the delete goes straight to the block cache and survives the discarded session'),
 ('C07','A'): ('app', 'CheckTx of an OLVM transaction of sender S between two deliveries that touch S (or after Commit, then a block that delivers a transfer touching S before S\'s OLVM transaction): the shared EVM object cache keeps the check-state account'),
 ('C07','B'): ('app', 'a CheckTx as the last ABCI call before an EndBlock that does state-dependent validator work (status records created or flipped, a maturing withdrawal, an allegation vote): the memoised validator context stays aimed at the check state'),
 ('C08','A'): ('data/rewards', 'a restart whose first executed block is not the first block of a reward calculation cycle, with some reward already paid in that cycle'),
 ('C08','B'): ('action/olvm', 'OLVM active, a contract call that emits an event in some block before the crash, a restart at a later boundary and another event-emitting call: only DeliverTx events (log index tags) differ, state and hashes agree'),
 ('C09','A'): ('storage', 'a tombstone for a key that is not in the committed tree (create+delete in one block, double delete, delete of an absent key) followed by another key first-written later in the same block: the commit stops at the first chainstate error'),
 ('C09','B'): ('storage', 'a missed read inside a committed tx session, a later write of that key in the same block, another new key first-written in between, and at least three keys new to the tree: reads influence the root hash'),
 ('C10','A'): ('identity', 'a validator stops being elected while its record stays (partial unstake below the minimum, outbid at the top-count boundary, frozen) and stays out two more blocks: the power-0 update is repeated at H+2 and Tendermint rejects it'),
 ('C10','B'): ('identity', 'more eligible candidates than the top count and a frozen validator whose stake ranks inside the top window: the frozen one burns a slot, the next eligible candidate is never elected'),
 ('C11','A'): ('data/delegation', 'one delegator with two or more unstakes maturing at the same height (two unstakes in one block, one stake address on two validators, or a maturity option change)'),
 ('C11','B'): ('action/staking', 'an UNSTAKE or WITHDRAW for a frozen validator that reaches DeliverTx without a CheckTx that saw the frozen state (proposer that skips CheckTx; admitted before the verdict and proposed after it)'),
 ('C12','A'): ('action/network_delegation', 'a delegator with an active delegation tops it up when the last network-delegation handler run in the process was an undelegation (same block) or when it is the first delegation handler run since a restart'),
 ('C12','B'): ('action/network_delegation', 'the same delegator with two or more successful undelegations delivered in the same block'),
 ('C13','A'): ('data/rewards', 'as C08-A: a node restarted at a height that is not the first of a calculation cycle pulls a smaller amount than its peers'),
 ('C13','B'): ('app', 'an existing validator increases its stake in block H: the store shows the new power at once, the votes keep the old power for H+1..H+3; signers are credited more than was pulled and the distributed totals are over-booked'),
 ('C14','A'): ('action/governance', 'a proposal in voting, then a validator-set change adding a validator with power > 0, then that newcomer\'s PROPOSAL_VOTE before the deadline'),
 ('C14','B'): ('action/governance', 'a proposal funded to its goal whose voting expired, or which reached a vote decision, and a PROPOSAL_WITHDRAW_FUNDS before finalisation'),
 ('C15','A'): ('action/eth', 'a recorded witness whose own slot is still empty sends reports whose VoteIndex is another witness\'s slot (with 4 witnesses one witness mints alone)'),
 ('C15','B'): ('action/eth', 'lock, more than two thirds yes votes (mint), block-end clean-up into the success store, then the same raw Ethereum transaction resubmitted by any account'),
 ('C16','A'): ('vm', 'inside one transaction: a new account created inside a snapshot scope, existing accounts touched for the first time inside that scope, the scope reverts, one of those accounts is used again'),
 ('C16','B'): ('vm', 'an address receives funds and later in the same unfinalised transaction a CREATE/CREATE2 lands on that address'),
 ('C17','A'): ('action/olvm', 'one block with an OLVM transaction touching account X, then a native transaction changing X\'s balance, then another OLVM transaction modifying X'),
 ('C17','B'): ('action/olvm', 'a contract call that earns a gas refund (resets a non-zero storage slot to zero; needs a deploy and a fill transaction first)'),
 ('C18','A'): ('action/transfer', 'a correctly signed transaction of any type whose fee currency is the empty string and whose price is at least the minimum fee'),
 ('C18','B'): ('action/eth', 'a correctly signed ETH_REDEEM whose embedded Ethereum transaction is at least 36 bytes, contains the redeem selector and has fewer than 32 bytes after it (a genuine redeem transaction truncated just past the selector)'),
 ('C19','A'): ('identity', 'at least two open allegations against different validators tallied at the same block end, each with votes, none crossing the share alone but the running sum crossing it'),
 ('C19','B'): ('identity', 'a guilty verdict on a stake where stake x percentage / decimals has a fractional part of one half or more (with 30/100: last digit 2, 3, 5, 6 or 9)'),
 ('C20','A'): ('data/ons', 'a name put on sale by its owner that expires while listed and is then bought as an expired name: the buyer receives a record still listed at the previous owner\'s price'),
 ('C20','B'): ('data/ons', 'a governance change of the ONS price options whose finalisation passes some node\'s CheckTx (submitted as a transaction) and an ONS create/renew/purchase delivered before the finalisation itself'),
}

# Round 2 (written against d87a36a; stored as variants E/F; sources in /tmp/wt2_<Cxx>/_seed)
SEEDS2 = {
 ('C01','A'): ('data/rewards', 'as C08-A/C13-A (the author was not told that site was taken for other properties): restart at a height that is not the first block of a reward cycle'),
 ('C01','B'): ('app', 'delegators.WithState(deliver) dropped in ValidatorCtx: on one node only, a CheckTx between the last DeliverTx and EndBlock of a block in which an unstake matures or a verdict is executed'),
 ('C02','A'): ('action/olvm', 'UsedGas sampled before the gas refund: an OLVM call that earns a refund (clears a non-zero storage slot); the fee pool is credited the pre-refund gas'),
 ('C02','B'): ('action/network_delegation', 'the same delegator with two NETWORK_UNDELEGATE in one block: the second skips the pool debit'),
 ('C03','A'): ('action/transfer', 'signature cache keyed without the message: the victim\'s own earlier transaction validated by this process, then its signature attached to a different transaction'),
 ('C03','B'): ('action/olvm', 'OLVM sender check with && instead of ||: From = victim, signature and declared key of the attacker'),
 ('C04','A'): ('action/transfer', 'ed25519 verification cache that ignores the message: genuine transaction first, then a forgery reusing key and signature on the same process'),
 ('C04','B'): ('action/olvm', 'OLVM Validate no longer checks the fee currency: the one fee field the EVM-style signature does not cover is rewritten; delivery then kills the process in Coin.Plus'),
 ('C05','A'): ('app', 'index lookup bounded by the header height: executed transaction, clean restart, identical bytes checked before the first BeginBlock after the restart'),
 ('C05','B'): ('action/transfer', 'ValidateBasic accepts surplus signature entries: executed transaction resubmitted with one more well-formed signature appended'),
 ('C06','A'): ('action/transfer', 'discarded session reused without clearing its done map: a transaction that fails after writing, then the very next session on that state writes one of the same keys'),
 ('C06','B'): ('action/olvm', 'Finalise returns early when nothing was journaled: OLVM message refused by the pre-check, native change of the same account, then a good OLVM transaction, in one block'),
 ('C07','A'): ('app', 'doEthTransitions no longer re-aims the tracker store: an ongoing tracker due for a transition and a CheckTx between the last DeliverTx and EndBlock'),
 ('C07','B'): ('app', 'DeliverTx skips Validate for transactions this node admitted in CheckTx: a transaction whose verdict flips between admission and delivery (second of two OLVM transactions with the same nonce)'),
 ('C08','A'): ('app', 'proposal options no longer loaded at start-up: a restart, then a funded proposal finalised afterwards (execution-cost share paid to the empty address)'),
 ('C08','B'): ('app', 'an already queued broadcast job stops the lock tracker\'s first transition: witness node, kill after the EndBlock that queued the job and before Commit, restart and replay'),
 ('C09','A'): ('storage', 'session delete of a key written in the same session drops the entry when the block cache does not know the key (forgets the committed tree)'),
 ('C09','B'): ('storage', 'GetVersioned at the newest committed version answers from the live state: pending writes show up in a committed version'),
 ('C10','A'): ('identity', 'IterateSuspiciousValidators stops at the first released record: X frozen and released earlier, then Y whose address sorts after X is frozen'),
 ('C10','B'): ('identity', 'lastActive holds only the validators that signed: the validator to be removed missed the commit before the purge (node off, then full unstake or freeze)'),
 ('C11','A'): ('identity', 'fetchPostponedUnstakes stops after the first validator: two validators found guilty at the end of the same block'),
 ('C11','B'): ('app', 'as C01-B: CheckTx between the last DeliverTx and an EndBlock that executes a verdict'),
 ('C12','A'): ('app', 'matured-undelegation payout loop stops at a zero-amount entry: an undelegation of amount 0 and another delegator (address sorting after) undelegating in the same block'),
 ('C12','B'): ('app', 'matureDelegationRewards only while the delegation pool is non-empty: a reward withdrawal pending while every delegator fully undelegates'),
 ('C13','A'): ('data/rewards', 'year selection also looks at the latest block: restart inside the one cycle per year that starts outside the close window and runs into it'),
 ('C13','B'): ('data/rewards', 'Burnedout() only trusts the cache for the cycle it was calculated in: schedule over, a cycle boundary crossed since, pool below the burnout rate'),
 ('C14','A'): ('action/governance', 'expiry accepted at height equal to the voting deadline: external EXPIRE_VOTES in exactly that block'),
 ('C14','B'): ('action/governance', 'DeductFunds checks the proposal total only: cancelled or goal-missed proposal with two funders, one withdraws more than its own contribution'),
 ('C15','A'): ('action/eth', 'quorum rounds two thirds up: witness count a multiple of 3 (3, 6, ...), exactly two thirds of reports'),
 ('C15','B'): ('action/eth', 'the "already failed" early return removed: redeem tracker, more than two thirds failure reports, one more "no" report in the same block'),
 ('C16','A'): ('data/balance via vm', 'zero balances no longer written: an account that survives Finalise drops from non-zero to exactly zero in one transaction'),
 ('C16','B'): ('vm', 'self-destruct flag journaled after it is set: SELFDESTRUCT inside a call frame that is later reverted'),
 ('C17','A'): ('action/olvm', 'Apply returns before Finalise on a pre-check error: refused OLVM transaction, native change of the same account, good OLVM transaction in one block'),
 ('C17','B'): ('action/olvm', 'reverted run reports the gas limit as gas used: a call ending in REVERT with a gas limit above the gas used'),
 ('C18','A'): ('action/eth', 'AddVote upper bound off by one: finality report with VoteIndex exactly equal to the witness count on an ongoing tracker'),
 ('C18','B'): ('external_apps/bid/bid_action', 'counter offer currency check removed: live bid conversation, counter offer in another registered currency of a different chain'),
 ('C19','A'): ('identity', 'as C10-A'),
 ('C19','B'): ('action/evidence', 'release time counted in hours instead of days: non-zero release time and a release request between N hours and N days after the freeze'),
 ('C20','A'): ('data/ons', 'sub-domain range end without the separator: two names of different owners where one is a textual suffix of the other, and an owner operation on the shorter one (patch rebased onto effee37, original kept as patch.orig.diff)'),
 ('C20','B'): ('action/ons', 'renew callback stops after the first sub-domain: a parent with two sub-domains and a renewal'),
}

# Round 3 (written against e691428; stored as variants G/H; sources in /tmp/wt3_<Cxx>/_seed)
SEEDS3 = {
 ('C01','A'): ('action/governance', 'EXPIRE_VOTES refuses a non-validator sender; the block-internal expiry uses the node\'s own address: a replica that is not a validator (or has power 0) next to a validator replica, and a proposal in Voting that runs past its deadline'),
 ('C01','B'): ('data/evidence', 'CleanTracker ranges the request map directly: two ALLEGATION transactions against the same validator under different request ids delivered in the same block (the existence check cannot see the pending first one); which duplicate survives follows Go map order (about 1 range in 8 flips), so several replicas or repeated runs are needed'),
 ('C02','A'): ('action/staking', 'one stake address with two or more UNSTAKE requests maturing at the same height (two in one block, or two validators sharing the stake address); seen MaturityTime blocks later at the block-end maturity step'),
 ('C02','B'): ('app', 'matureDelegationRewards no longer re-aims the delegation stores: a reward withdrawal matures in a block at whose begin the delegation pool balance is zero (every delegator has undelegated): the payout is minted, the pending claim record stays'),
 ('C03','A'): ('app', 'maturity walk split in a pay-out walk and a clearing walk, the pay-out walk stops at the first zero-amount record: somebody sends NETWORK_UNDELEGATE with amount 0 in the block of another delegator\'s undelegation, whose address sorts after it: that delegator\'s matured amount vanishes'),
 ('C03','B'): ('app', 'NesterAccountKeeper.WithState aims the balance store at the previous call\'s state: a CheckTx that arrives after BeginBlock or a DeliverTx and before Commit debits its sender in the block being executed although the transaction is in no block'),
 ('C04','A'): ('action/transfer', 'parsed-key cache that ignores the declared algorithm: the node has already parsed the signer\'s key under its genuine algorithm (an earlier genuine transaction on the same process), then a mutant with a changed keyType is offered'),
 ('C04','B'): ('app', 'the consensus-path Validate is gated by the fork version: a forged transaction delivered in a block directly (proposer that skips its mempool check) on a chain that has not reached the fork height (or exactly at it)'),
 ('C05','A'): ('app', 'a latch set by the first index lookup that finds no tx indexer installed: the node is killed after Tendermint saved a block that carries a transaction and before the application committed it; the handshake replay of the next start sets the latch and every executed transaction can then be replayed on that node byte for byte'),
 ('C05','B'): ('action/olvm', 'journal dirty counter turned into a mark: an OLVM transaction carrying a value into an execution that fails burning all gas (INVALID, out of gas; not REVERT): the sender\'s nonce bump is never written, the same signed content in another encoding executes again'),
 ('C06','A'): ('action/olvm', 'metered store swapped for an unmetered one while the EVM runs and not restored on the error path: an OLVM transaction that passes Validate and makes Apply fail (nonce ahead, gas limit above the block\'s remaining gas), followed in the same block by a transaction charged through BasicFeeHandling'),
 ('C06','B'): ('action/olvm', 'Finality counts every transaction that reached its handler and AddLog stamps that count into the log: a transaction that fails in ProcessDeliver or ProcessFee followed in the same block by a contract call that emits an event; only the events of the later transaction differ (application hash equal)'),
 ('C07','A'): ('app', 'proposal-store writes of governance handlers: a CheckTx of PROPOSAL_CREATE / FUND / VOTE / CANCEL / WITHDRAW_FUNDS that passes its ProcessCheck, between consensus calls of a block'),
 ('C07','B'): ('identity', 'HandleStake pushes a new validator into the block-scoped election queue: CheckTx of a STAKE whose validator does not exist yet, after BeginBlock and before EndBlock of a block whose EndBlock distributes fees'),
 ('C08','A'): ('identity', 'postponed stake cut kept in memory only: guilty verdict at EndBlock(H), process killed after Commit(H) or inside block H+1 before its Commit, restart: the cut of the validator record never happens'),
 ('C08','B'): ('app', 'expiry of an overdue proposal queued one block late from an in-memory list: proposal in Voting whose deadline D passes undecided, process killed after Commit(D+1) or inside block D+2 and restarted'),
 ('C09','A'): ('storage', 'versioned reads after a reopen: rotation that keeps older versions, at least two commits, reopen of the same database, GetVersioned / GetPrevious of a version older than the head'),
 ('C09','B'): ('storage', 'k = v1 committed in block N; in block N+1 a write k = v2 reaches the block cache and a LATER committed tx session deletes k: k reads v1 again'),
 ('C10','A'): ('identity', 'a validator elected in block H loses the election again in H+1 or H+2, before it has appeared in any LastCommitInfo: it is never sent a power-0 update'),
 ('C10','B'): ('identity', 'staking options cached at the first end block: a later change of the minimum self delegation or the top validator count (governance config update, or the fork block) that matters for the election'),
 ('C11','A'): ('action/staking', 'a second UNSTAKE of a stake address while an earlier unstake of the same address is still maturing is filed under the earlier entry\'s height: the later amount unlocks after fewer than MaturityTime blocks'),
 ('C11','B'): ('data/delegation', 'AddToAddress writes the delegator\'s locked amount as the new validator/delegator amount: one stake address funding two validators; the locked record no longer equals what the delegator has locked and part of it can no longer be unstaked'),
 ('C12','A'): ('action/network_delegation', 'store prefix left off "active" by the previous delegation-store use in the process: a reinvest delivered right after anybody\'s undelegation (same block, or CheckTx interleaving)'),
 ('C12','B'): ('action/network_delegation', 'a delegation transaction that reads an existing non-zero record followed, with no read of a zero-valued record in between, by a delegate / reinvest / undelegate of an address that has no active record yet'),
 ('C13','A'): ('data/rewards', 'after the reward years are over (burn-out) and with the rewards pool below the burn-out rate at the block where a calculator instance computes the amount'),
 ('C13','B'): ('action/rewards', 'one validator: rewards mature, a first withdrawal w1 > 0, then a second withdrawal with remaining balance < w2 <= total ever matured'),
 ('C14','A'): ('action/governance', 'ProposalStore.Exists ignores the finalised stores: a proposal that went all the way to finalised (or finalize-failed), then a PROPOSAL_CREATE carrying the same id'),
 ('C14','B'): ('action/governance', 'DeleteAllFunds stops after the first record: a proposal with at least two distinct contributors that reaches finalisation through the vote'),
 ('C15','A'): ('action/eth', 'the refund of a failed redeem goes to the Locker field of the report that crosses the threshold: more than two thirds of the witnesses report failure and the crossing report names somebody else'),
 ('C15','B'): ('action/eth', 'the same witness reports twice on one ongoing tracker, first failure and then success, both before a threshold is reached'),
 ('C16','A'): ('vm', 'the code record is deleted with a destroyed account: two live contracts with byte-identical runtime code, one of them self-destructs, a later transaction calls the other'),
 ('C16','B'): ('vm', 'refund journal: the first refund operation after a snapshot that is later reverted is a SubRefund (SSTORE with original != 0, current == 0, new != 0 inside a reverting inner call)'),
 ('C17','A'): ('action/olvm', 'Validate reads the sender through the shared EVM object cache: an OLVM transaction of S rejected by DeliverTx (or a CheckTx of S), then a native change of S\'s balance, then an executed OLVM transaction of S'),
 ('C17','B'): ('action/olvm', 'no balance record is written for an account that holds nothing: an OLVM transaction after which the sender (value = balance - gas x price, all gas used) or a contract (pays out its whole balance) ends at exactly zero'),
 ('C18','A'): ('action/ons', 'a correctly signed DOMAIN_PURCHASE for an existing top-level name that is not on sale, executed by DeliverTx in exactly the block of height ExpireHeight+1'),
 ('C18','B'): ('vm', 'a correctly signed contract creation whose init code yields empty runtime code, committed in a block (the failure comes at Commit)'),
 ('C19','A'): ('identity', 'one validator: frozen, released after the release time, then a second guilty verdict (or missed-votes finding): the old released record is reused and the validator is not frozen'),
 ('C19','B'): ('action/evidence', 'a repeated ALLEGATION_VOTE by a voter whose address sorts above the address of an earlier voter on the same request is accepted and counted again'),
 ('C20','A'): ('action/ons', 'a name listed at P1 and listed again at P2 without cancelling the sale in between; a purchase whose offering lies between the two prices, or a look at the sale price of the record'),
 ('C20','B'): ('action/ons', 'a name past its expiry height and a purchase whose offering is strictly below the configured base domain price'),
}

# Round 4 (written against e691428; stored as variants I/J; sources in /tmp/wt4_<Cxx>/_seed)
SEEDS4 = {
 ('C01','A'): ('data/evidence', 'allegation tracker record written with the msgpack serializer, which leaves map[string]bool in Go map order: two or more allegation requests open at the same time'),
 ('C01','B'): ('data/rewards', 'speed window of the reward calculator ends at the current height: a replica restarted at a height that is not the first block of a calculation cycle (chain higher than one cycle, schedule not burnt out) pulls another amount'),
 ('C02','A'): ('action/governance', 'the validators\' share of a finalised proposal is divided by the number of active validators and paid to every registered one: registered but inactive validators when a proposal is finalised; the ledger total rises only when they outnumber the active ones (the same finalisation burns 18 percent)'),
 ('C02','B'): ('vm', 'Finalise keeps accounts a message only read: an EVM message that reads account R without changing it, a native transaction that lowers R\'s balance, an EVM message that changes R\'s balance, in one block'),
 ('C03','A'): ('app', 'reward-withdrawal maturity collects pointers to one reused amount: two delegators whose reward withdrawals mature at the same height with different amounts, the one whose address sorts last having asked for less'),
 ('C03','B'): ('action/olvm', 'OLVM validation reads the sender through the shared EVM object cache: X has an EVM transaction that passed CheckTx since the last EndBlock and is not in the block; X is credited earlier in the block; an EVM message in the block pays X: the earlier credit is lost'),
 ('C04','A'): ('action/transfer', 'pre-hash (hardware wallet) ed25519 signatures are verified on the first 64 bytes after the tag: a transaction signed in that form with bytes appended to the signature'),
 ('C04','B'): ('action/olvm', 'recovered-sender cache keyed by payload and signature, not the fee: once the process has validated the genuine EVM transaction, the same payload and signature with another gas limit or price pass CheckTx and DeliverTx'),
 ('C05','A'): ('action/olvm', 'a message call that fails inside the VM is reverted to a snapshot taken before the nonce bump: the executed (failed, charged) call is resubmitted in another encoding and executes again'),
 ('C05','B'): ('action/transfer', 'as C04-I: a native transaction signed in the pre-hash form and executed is resubmitted with bytes appended to the signature'),
 ('C06','A'): ('action/olvm', 'as C03-J (same site): an EVM transaction of A that fails validation in DeliverTx after the sender was read, a native transfer to or from A, another EVM transaction touching A, in one block'),
 ('C06','B'): ('app', 'block-end transitions list the tracker store under whatever prefix the last handler left: a refused resubmission of a finished lock or redeem as the last tracker transaction of a block while another tracker is due a transition'),
 ('C07','A'): ('external_apps/bid/bid_block_func', 'closing a bid conversation leaves the store\'s prefix on the target store: CheckTx of a closing bid transaction as the last bid handler before the BeginBlock in which another conversation expires'),
 ('C07','B'): ('action/evidence', 'a successful release handler also edits the in-memory malicious set built at block begin: CheckTx of the RELEASE of a frozen, releasable validator after BeginBlock and before EndBlock of a block that does not deliver it'),
 ('C08','A'): ('action/network_delegation', 'delegation amount read without selecting the active prefix: a delegator with an active delegation, a restart, and a further delegation of that delegator in the first blocks of the new process'),
 ('C08','B'): ('app', 'fork gate of the EVM adapter reads the remembered header: a restart whose first executed block carries an EVM transaction'),
 ('C09','A'): ('storage', 'a discarded session object is reused with its done-set: in one block a session writes K and is discarded, the next session writes K and is committed'),
 ('C09','B'): ('storage', 'rotation releases the version exactly Recent back: Recent >= 1, more than Recent commits, a versioned read exactly Recent versions back'),
 ('C10','A'): ('identity', 'the election loop stops once the top count is filled: as many eligible candidates as seats and an active validator that drops below the line'),
 ('C10','B'): ('app', 'CheckMaliciousValidators runs before the validator store is set up: a frozen validator and a restart of the process'),
 ('C11','A'): ('identity', 'the penalty is a share of the staker\'s total locked amount: one stake address behind two validators and a guilty verdict on the smaller one'),
 ('C11','B'): ('identity', 'block end consults an in-memory index of maturity heights: a restart between an unstake and its maturity height'),
 ('C12','A'): ('data/network_delegation', 'pending undelegations are walked only up to an in-memory last pending height: a restart between an undelegation and its maturity'),
 ('C12','B'): ('action/network_delegation', 'a second reward withdrawal is added to the delegator\'s earlier pending record: two withdrawals of one delegator less than the maturity period apart, in different blocks'),
 ('C13','A'): ('data/rewards', 'as C01-J (same site): restart at a height that is not the first block of a calculation cycle'),
 ('C13','B'): ('app', 'the delegators\' share is split over whatever prefix the delegation store was left on: the last delegation transaction before a block was an undelegation whose pending amount exceeds what is left in the pool'),
 ('C14','A'): ('action/governance', 'finalisation no longer re-tallies: an external PROPOSAL_FINALIZE aimed at a cancelled, under-funded or expired proposal'),
 ('C14','B'): ('action/governance', 'validate-only and validate-and-update swapped for one configuration key (propOptions.configUpdate.passPercentage): a configuration proposal for exactly that key, looked at between creation and finalisation'),
 ('C15','A'): ('app', 'the redeem handler no longer looks in the failed store: a redeem that failed and was refunded, then the same redeem submitted again after the block end moved its tracker'),
 ('C15','B'): ('action/eth', 'the minted amount passes through a signed 64-bit integer: a lock of 2^63 wei or more'),
 ('C16','A'): ('vm', 'Finalise does not remove an account that was created and destroyed in one transaction: the address held a balance before the creation'),
 ('C16','B'): ('vm', 'journal dirty counter starts one too low: an address with one surviving journalled change that is also changed inside a frame that reverts'),
 ('C17','A'): ('vm', 'journal dirty counter turned into a flag: a value-carrying transaction that fails in the EVM having used all its gas'),
 ('C17','B'): ('vm', 'an account with no balance and no code counts as empty whatever its nonce: the sender ends a transaction with exactly zero balance'),
 ('C18','A'): ('identity', 'total power summed from the live records, priorities from the committed ones: the block after a guilty verdict, with a fee pool above the minimal fee: the node exits through log.Fatal at EndBlock'),
 ('C18','B'): ('vm', 'swap-remove in createObjectChange.revert leaves a stale index: one EVM message in which a frame creates an account, loads an existing account behind it, reverts, and the existing account is used again'),
 ('C19','A'): ('identity', 'the vote share is taken of the validators of the last commit instead of the currently active ones: an allegation at the threshold while the active set is changing'),
 ('C19','B'): ('identity', 'only the first postponed penalty of a block is applied: two guilty verdicts in the same block'),
 ('C20','A'): ('action/ons', 'names are lower-cased when the record is built but not when existence is checked: a create for another spelling (a capital letter) of somebody else\'s name'),
 ('C20','B'): ('action/ons', 'DeleteAllSubdomains walks committed keys only: a sub-name created in the block in which its parent is bought'),
}

# Round 5 (written against 14da34d; stored as variants K/L; sources in /tmp/wt5_<Cxx>/_seed)
SEEDS5 = {
 ('C01','A'): ('identity', 'CheckMaliciousValidators ranges the cumulative-vote map directly: four or more active validators fall below the required votes in the same block for the first time (the new suspicious-validator records enter the tree in map order); diverges on a fraction of runs'),
 ('C01','B'): ('external_apps/bid/bid_block_func', 'CloseBidConv deletes before it writes and leaves the shared store on the target prefix: on one node only, a CheckTx of a closing bid transaction as the last bid handler before the BeginBlock in which another conversation expires'),
 ('C02','A'): ('external_apps/bid/bid_action', 'the owner decision fetches the active offer of any type: bid, owner\'s counter offer (the bid is unlocked), then BID_OWNER_DECISION accept by the owner: the owner is credited the counter offer nobody paid'),
 ('C02','B'): ('app', 'the burnt-out pull is capped by the delegation pool\'s balance instead of the rewards pool\'s: schedule over, rewards pool below the burn-out rate, delegations exist'),
 ('C03','A'): ('external_apps/bid/bid_action', 'bidder decision accepts either party and debits the conversation\'s bidder: the owner sends BID_BIDDER_DECISION naming itself after its own counter offer: the bidder pays without signing'),
 ('C03','B'): ('app', 'DeliverTx skips Validate while no tx index is installed (handshake replay): a block with a forged-signer transaction, the node killed between Tendermint\'s save and the application\'s commit, restart'),
 ('C04','A'): ('action/olvm', 'the gas put into the signed EVM message is clamped at the simulation block gas limit: a transaction signed with fee.gas at or above that limit, fee.gas then rewritten'),
 ('C04','B'): ('action/transfer', 'secp256k1 verification without the low-S rule: S replaced by N-S on a secp256k1-signed transaction'),
 ('C05','A'): ('app', 'the canonical-encoding check accepts & < > written literally: an executed transaction whose memo holds such characters, resubmitted with the escapes replaced'),
 ('C05','B'): ('app', 'a signer\'s public key may carry trailing bytes: an executed native transaction resubmitted with bytes appended to signatures[i].Signer.data'),
 ('C06','A'): ('external_apps/bid/bid_block_func', 'CloseBidConv order (as C01-L): an accept that fails at its last step after closing the conversation, no bid handler before the next BeginBlock, another conversation expiring there'),
 ('C06','B'): ('action/network_delegation', 'ADD_NETWORK_DELEGATE relies on the store\'s current prefix: a NETWORK_UNDELEGATE that fails in its fee step, then a delegation'),
 ('C07','A'): ('data/governance', 'last-update heights memoised next to the shared state pointer: CheckTx of a PROPOSAL_FINALIZE of a passed configuration proposal before the block end has finalised it'),
 ('C07','B'): ('app', 'external-app block function parameters built once per block: a CheckTx after the last DeliverTx and before EndBlock of a block in which a bid conversation expires'),
 ('C08','A'): ('identity', 'the per-block reset of the malicious list moved behind the early returns: a frozen validator, then a governance change raising evidenceOptions.blockVotesDiff above the current height, then a restart of one node'),
 ('C08','B'): ('external_apps/bid/bid_block_func', 'CloseBidConv order (as C01-L): one conversation open, another closed with no bid handler afterwards, the first one\'s deadline passes, one node restarts in that window'),
 ('C09','A'): ('storage', 'Set skips a write equal to the committed value: key committed with X, a pending different write or delete in the block, then X written again'),
 ('C09','B'): ('storage', 'Commit commits a tx session that is still open: a session neither committed nor discarded at block commit'),
 ('C10','A'): ('identity', 'the election walks the heap\'s backing array instead of popping it: more eligible candidates than seats and a stake arrangement in which the first entries of the array are not the largest'),
 ('C10','B'): ('identity', 'a validator released in this block is cleared from the frozen list at election time: a successful RELEASE delivered in block h, positive update already at the end of h'),
 ('C11','A'): ('action/staking', 'a second report keeps the existing (released) freeze record: freeze, release, second verdict or missed votes, then UNSTAKE / WITHDRAW'),
 ('C11','B'): ('identity', 'HandleUnstake writes the validator record before the purge-window refusal: the guilty verdict falls in the block end that purges the validator (unstake below the minimum and allegation in block H-1, votes in H): the postponed cut is applied twice'),
 ('C12','A'): ('action/network_delegation', 'a reinvestment above the accrued rewards is capped for the debit but not for the active amount: reinvest more than has accrued'),
 ('C12','B'): ('app', 'the pending-rewards walk stops at a zero-valued record: two or more reward withdrawals maturing at one height, a zero-amount one from the lowest-sorting address'),
 ('C13','A'): ('app', 'the proposer\'s cut of the delegation commission is computed after the deduction: small non-zero delegation pool, proposer among the signers, few absent signers'),
 ('C13','B'): ('data/rewards', 'the distributed-till-last-cycle snapshot is taken one block late: two completed cycles and a restart inside a cycle'),
 ('C14','A'): ('action/governance', 'the no share is divided by all power instead of the power that did not give up: a give-up vote plus no votes in the window between the two quotients'),
 ('C14','B'): ('action/governance', 'cancel refused only when both conditions are violated: cancel by the proposer while the proposal is being voted on (before the funding deadline), or after the funding deadline while under-funded'),
 ('C15','A'): ('event', 'the lock engine\'s clean-up writes and deletes under one prefix: lock, mint, block-end clean-up, the same external transaction submitted again'),
 ('C15','B'): ('app', 'doEthTransitions no longer re-aims the tracker store: a CheckTx that reaches a handler after the last DeliverTx and before EndBlock of a block in which a tracker is due a transition'),
 ('C16','A'): ('vm', 'second and later writes of a slot in one transaction are not journaled: the same slot written at two snapshot depths, the later write rolled back'),
 ('C16','B'): ('vm', 'access list: reverting the last slot of an address deletes the address entry: an address warm before the snapshot, its first slot warmed in a reverting frame, accessed again'),
 ('C17','A'): ('action/olvm', 'CreateAccount adds the carried-over balance to an object that already has it: value sent to the address a later deployment of the sender gets, then that deployment'),
 ('C17','B'): ('action/olvm', 'the EIP-155 signer is built from the payload\'s chain id: a transaction made consistently for another network (payload chain id and signature)'),
 ('C18','A'): ('external_apps/bid/bid_action', 'the OLT-only rule is enforced only when a conversation is opened: bid in OLT, owner\'s counter offer, then the bidder\'s follow-up offer in another registered currency: Coin comparison calls logger.Fatal'),
 ('C18','B'): ('vm', 'access list keeps a stale slot index after the last slot of an address is reverted: a deployed contract whose sub-call touches its storage for the first time and reverts, then the storage is accessed again (panic in DeliverTx only)'),
 ('C19','A'): ('action/evidence', 'the frozen check on voters is dropped: two open allegations, one decided guilty at H, the convicted validator (frozen, still flagged active) votes on the other in H+1'),
 ('C19','B'): ('identity', 'as C11-L (same site): purge and guilty verdict in the same block end: the validator record is cut twice'),
 ('C20','A'): ('action/ons', 'purchase treats the block in which version == expiry height as expired: a purchase delivered in exactly that block'),
 ('C20','B'): ('action/ons', 'create is refused only for names that are active: a stranger\'s create on a name that is on sale, deactivated or expired'),
}

def keep(pid, v, newv, pkg, needs, src):
    pass

if __name__ == '__main__':
    for (pid, v), (pkg, needs) in sorted(SEEDS.items()):
        src = f'/tmp/wt_{pid}/_seed'
        dst = f'/verif/seeded/{pid}-{v}'
        if not os.path.exists(f'{src}/{v}.diff'):
            print('missing', pid, v); continue
        os.makedirs(dst, exist_ok=True)
        shutil.copy(f'{src}/{v}.diff', f'{dst}/patch.diff')
        shutil.copy(f'{src}/demo_{v}_test.go', f'{dst}/demo_test.go.txt')
        for extra in os.listdir(src):
            if extra.startswith(f'demo_{v}_') and extra != f'demo_{v}_test.go':
                shutil.copy(f'{src}/{extra}', f'{dst}/{extra}.txt')
        if os.path.exists(f'{src}/NOTES.txt'):
            shutil.copy(f'{src}/NOTES.txt', f'{dst}/NOTES.txt')
        run = f'go test -vet=off -count=1 -ldflags=-checklinkname=0 -run Seed ./{pkg}/'
        if pkg == 'app':
            run = "SEED_DEMO_B=1 go test -ldflags=-checklinkname=0 -vet=off -count=1 -run TestSeed $(ls app/*.go | grep -v -e application_test.go -e controller_test.go)   # package app's TestMain exits before running tests"
        meta = {'property': pid, 'variant': v,
                'demo': {'file': 'demo_test.go.txt', 'copy_to': f'{pkg}/zz_seed_{v}_test.go', 'run': run},
                'needs_to_manifest': needs,
                'confirmed': 'by me in a scratch worktree of /repo: the demonstration passes without the change and fails with it; go test -vet=off -count=1 ./... has the same failing set as on the unchanged worktree (seedverify.sh / seedverify_app.sh; rpc TestServer port collisions and the map-ordered TestTransitions sub-cases ignored)'}
        old = {}
        if os.path.exists(f'{dst}/meta.json'):
            old = json.load(open(f'{dst}/meta.json'))
        for k in ('checks_run', 'result', 'history'):
            if k in old: meta[k] = old[k]
        json.dump(meta, open(f'{dst}/meta.json', 'w'), indent=1)
        print('kept', dst)

    import glob
    for (pid, v), (pkg, needs) in sorted(SEEDS2.items()):
        src = f'/tmp/wt2_{pid}/_seed'
        if not os.path.exists(f'{src}/{v}.diff'):
            print('missing', pid, v); continue
        used = sorted(os.path.basename(d).split('-')[1] for d in glob.glob(f'/verif/seeded/{pid}-?'))
        newv = {'A': 'E', 'B': 'F'}[v]
        dst = f'/verif/seeded/{pid}-{newv}'
        os.makedirs(dst, exist_ok=True)
        diff = f'{src}/{v}.rebased.diff' if os.path.exists(f'{src}/{v}.rebased.diff') else f'{src}/{v}.diff'
        shutil.copy(diff, f'{dst}/patch.diff')
        if os.path.exists(f'{src}/{v}.rebased.diff'):
            shutil.copy(f'{src}/{v}.diff', f'{dst}/patch.orig.diff')
        shutil.copy(f'{src}/demo_{v}_test.go', f'{dst}/demo_test.go.txt')
        if os.path.exists(f'{src}/NOTES.txt'):
            shutil.copy(f'{src}/NOTES.txt', f'{dst}/NOTES.txt')
        meta = {'property': pid, 'variant': f'{newv} (round 2, {v} of its author)',
                'demo': {'file': 'demo_test.go.txt', 'belongs_in': pkg, 'run': 'see NOTES.txt (demonstrations in package app and action/ons are compiled with the non-test files only)'},
                'needs_to_manifest': needs,
                'confirmed': 'by me in the scratch worktree the change was written in (d87a36a): the demonstration passes without the change and fails with it; go test -vet=off -count=1 ./... keeps its failing set (seedverify.sh / seedverify_app.sh with WT_PREFIX=/tmp/wt2_)'}
        old = {}
        if os.path.exists(f'{dst}/meta.json'):
            old = json.load(open(f'{dst}/meta.json'))
        for k in ('checks_run', 'result'):
            if k in old: meta[k] = old[k]
        json.dump(meta, open(f'{dst}/meta.json', 'w'), indent=1)
        print('kept', dst)

    for (pid, v), (pkg, needs) in sorted(SEEDS3.items()):
        src = f'/tmp/wt3_{pid}/_seed'
        if not os.path.exists(f'{src}/{v}.diff'):
            print('missing', pid, v); continue
        newv = {'A': 'G', 'B': 'H'}[v]
        dst = f'/verif/seeded/{pid}-{newv}'
        os.makedirs(dst, exist_ok=True)
        shutil.copy(f'{src}/{v}.diff', f'{dst}/patch.diff')
        shutil.copy(f'{src}/demo_{v}_test.go', f'{dst}/demo_test.go.txt')
        if os.path.exists(f'{src}/NOTES.txt'):
            shutil.copy(f'{src}/NOTES.txt', f'{dst}/NOTES.txt')
        meta = {'property': pid, 'variant': f'{newv} (round 3, {v} of its author)',
                'demo': {'file': 'demo_test.go.txt', 'belongs_in': pkg, 'run': 'see NOTES.txt (demonstrations in package app and action/ons are compiled with the non-test files only)'},
                'needs_to_manifest': needs,
                'confirmed': 'by me in the scratch worktree the change was written in (e691428): the demonstration passes without the change and fails with it; go test -vet=off -count=1 ./... keeps its failing set (seedverify.sh / seedverify_app.sh with WT_PREFIX=/tmp/wt3_)'}
        old = {}
        if os.path.exists(f'{dst}/meta.json'):
            old = json.load(open(f'{dst}/meta.json'))
        for k in ('checks_run', 'result'):
            if k in old: meta[k] = old[k]
        json.dump(meta, open(f'{dst}/meta.json', 'w'), indent=1)
        print('kept', dst)

    for (pid, v), (pkg, needs) in sorted(SEEDS4.items()):
        src = f'/tmp/wt4_{pid}/_seed'
        if not os.path.exists(f'{src}/{v}.diff'):
            print('missing', pid, v); continue
        newv = {'A': 'I', 'B': 'J'}[v]
        dst = f'/verif/seeded/{pid}-{newv}'
        os.makedirs(dst, exist_ok=True)
        diff = f'{src}/{v}.rebased.diff' if os.path.exists(f'{src}/{v}.rebased.diff') else f'{src}/{v}.diff'
        shutil.copy(diff, f'{dst}/patch.diff')
        if os.path.exists(f'{src}/{v}.rebased.diff'):
            shutil.copy(f'{src}/{v}.diff', f'{dst}/patch.orig.diff')
        shutil.copy(f'{src}/demo_{v}_test.go', f'{dst}/demo_test.go.txt')
        if os.path.exists(f'{src}/NOTES.txt'):
            shutil.copy(f'{src}/NOTES.txt', f'{dst}/NOTES.txt')
        meta = {'property': pid, 'variant': f'{newv} (round 4, {v} of its author)',
                'demo': {'file': 'demo_test.go.txt', 'belongs_in': pkg, 'run': 'see NOTES.txt (demonstrations in package app and action/ons are compiled with the non-test files only)'},
                'needs_to_manifest': needs,
                'confirmed': 'by me in the scratch worktree the change was written in (e691428): the demonstration passes without the change and fails with it; go test -vet=off -count=1 ./... keeps its failing set (seedverify.sh / seedverify_app.sh with WT_PREFIX=/tmp/wt4_)'}
        old = {}
        if os.path.exists(f'{dst}/meta.json'):
            old = json.load(open(f'{dst}/meta.json'))
        for k in ('checks_run', 'result'):
            if k in old: meta[k] = old[k]
        json.dump(meta, open(f'{dst}/meta.json', 'w'), indent=1)
        print('kept', dst)

    for (pid, v), (pkg, needs) in sorted(SEEDS5.items()):
        src = f'/tmp/wt5_{pid}/_seed'
        if not os.path.exists(f'{src}/{v}.diff'):
            print('missing', pid, v); continue
        newv = {'A': 'K', 'B': 'L'}[v]
        dst = f'/verif/seeded/{pid}-{newv}'
        os.makedirs(dst, exist_ok=True)
        shutil.copy(f'{src}/{v}.diff', f'{dst}/patch.diff')
        shutil.copy(f'{src}/demo_{v}_test.go', f'{dst}/demo_test.go.txt')
        if os.path.exists(f'{src}/NOTES.txt'):
            shutil.copy(f'{src}/NOTES.txt', f'{dst}/NOTES.txt')
        meta = {'property': pid, 'variant': f'{newv} (round 5, {v} of its author)',
                'demo': {'file': 'demo_test.go.txt', 'belongs_in': pkg, 'run': 'see NOTES.txt (demonstrations in package app and action/ons are compiled with the non-test files only)'},
                'needs_to_manifest': needs,
                'confirmed': 'by me in the scratch worktree the change was written in (14da34d): the demonstration passes without the change and fails with it; go test -vet=off -count=1 ./... keeps its failing set (seedverify.sh / seedverify_app.sh with WT_PREFIX=/tmp/wt5_)'}
        old = {}
        if os.path.exists(f'{dst}/meta.json'):
            old = json.load(open(f'{dst}/meta.json'))
        for k in ('checks_run', 'result'):
            if k in old: meta[k] = old[k]
        json.dump(meta, open(f'{dst}/meta.json', 'w'), indent=1)
        print('kept', dst)
