#!/bin/bash
# seed7proc.sh <Cxx> <pkg of demo A> <pkg of demo B> [round-tag] — confirms the two seeded changes an author left in
# /tmp/wt7_<Cxx>/_seed (demo passes without the change, fails with it; suite keeps its failing set) and stores
# them as /verif/seeded/<Cxx>-M (A) and <Cxx>-N (B). Packages app and action/ons are compiled with their non-test
# files only (their own tests do not build / run).
set -u
export GOFLAGS=-mod=mod GOPROXY=off GOSUMDB=off GOTOOLCHAIN=local
ID=$1; PKGA=$2; PKGB=$3
WT=/tmp/wt7_$ID; S=$WT/_seed; LOG=/var/tmp/seed7_$ID.log; : > $LOG
cd $WT || exit 2
base=$(git rev-parse --short HEAD)
for V in A B; do
  if [ $V = A ]; then PKG=$PKGA; NV=O; else PKG=$PKGB; NV=P; fi
  git checkout -q -- . ; git clean -fdq -e _seed
  [ -f $S/$V.diff ] && [ -f $S/demo_${V}_test.go ] || { echo "$ID-$V: deliverables missing" | tee -a $LOG; continue; }
  cp $S/demo_${V}_test.go $PKG/zz_seed_${V}_test.go
  run() {
    if [ "$PKG" = app ] || [ "$PKG" = action/ons ]; then
      ( cd $PKG && go test -ldflags=-checklinkname=0 -vet=off -count=1 -run 'TestSeed' $(ls *.go | grep -v _test.go) zz_seed_${V}_test.go 2>&1 | grep -E "^(ok|FAIL|--- FAIL|PASS|exit status|panic)" | head -4 )
    else
      go test -vet=off -count=1 -ldflags=-checklinkname=0 -run 'TestSeed'$V ./$PKG/ 2>&1 | grep -E "^(ok|FAIL|--- FAIL|PASS|exit status|panic)" | head -4
    fi
  }
  without=$(run)
  git apply $S/$V.diff || { echo "$ID-$V: DOES NOT APPLY" | tee -a $LOG; continue; }
  with=$(run)
  rm -f $PKG/zz_seed_${V}_test.go
  go test -vet=off -count=1 ./... 2>&1 | grep -E "^(--- FAIL|FAIL|panic)" | grep -v "TestServer\|protocol/rpc" | sed 's/[0-9.]*s)*$//' | sed 's/0x[0-9a-f]*//g' | sort | uniq -c > /var/tmp/seed7_suite_$ID.$V
  grep -v "TestServer\|protocol/rpc" /tmp/seed_baseline.txt | sed 's/0x[0-9a-f]*//g' | sed 's/^ *[0-9]* FAIL$/      N FAIL/' > /var/tmp/seed7_base_$ID.$V
  sed -i 's/^ *[0-9]* FAIL$/      N FAIL/' /var/tmp/seed7_suite_$ID.$V
  if diff /var/tmp/seed7_base_$ID.$V /var/tmp/seed7_suite_$ID.$V > /var/tmp/seed7_diff_$ID.$V; then suite=same; else suite="DIFFERS: $(cat /var/tmp/seed7_diff_$ID.$V | tr '\n' ' ' | cut -c1-300)"; fi
  git checkout -q -- . ; git clean -fdq -e _seed
  okw=no; echo "$without" | grep -q "^ok" && ! echo "$without" | grep -q FAIL && okw=yes
  failw=no; echo "$with" | grep -q "FAIL\|panic" && failw=yes
  echo "$ID-$V ($NV) pkg=$PKG without=[$(echo $without | tr '\n' ' ' | cut -c1-80)] with=[$(echo $with | tr '\n' ' ' | cut -c1-120)] suite=$suite" | tee -a $LOG
  if [ $okw = yes ] && [ $failw = yes ] && [ "$suite" = same ]; then
    D=/verif/seeded/$ID-$NV; mkdir -p $D
    cp $S/$V.diff $D/patch.diff; cp $S/demo_${V}_test.go $D/demo_test.go.txt; cp $S/NOTES.txt $D/NOTES.txt 2>/dev/null
    python3 - "$D" "$ID" "$NV" "$V" "$PKG" "$base" <<'PY'
import json,sys,re
d,pid,nv,v,pkg,base=sys.argv[1:7]
notes=open(d+'/NOTES.txt').read() if True else ''
meta={'property':pid,'variant':f'{nv} (round 7, {v} of its author)','demo':{'file':'demo_test.go.txt','belongs_in':pkg,'run':'see NOTES.txt (demonstrations in package app and action/ons are compiled with the non-test files only)'},
 'needs_to_manifest':'see NOTES.txt, change '+v,
 'confirmed':f'by me in the scratch worktree the change was written in ({base}): the demonstration passes without the change and fails with it; go test -vet=off -count=1 ./... keeps its failing set (seed7proc.sh)'}
json.dump(meta,open(d+'/meta.json','w'),indent=1)
PY
    echo "  stored $D" | tee -a $LOG
  else
    echo "  NOT stored" | tee -a $LOG
  fi
done
rm -f /var/tmp/seed7_suite_$ID.* /var/tmp/seed7_base_$ID.* /var/tmp/seed7_diff_$ID.*
