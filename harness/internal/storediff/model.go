package storediff

// The reference model of C09: three stacked maps (transaction session, block,
// last commit) where a delete makes the key absent, plus the list of committed
// snapshots. A write outside a session goes straight into the block layer, as
// State.Set does when no BeginTxSession preceded it.

const MaxKeys = 8

type cell int8

const (
	cNone cell = -2 // the layer says nothing about the key
	cDel  cell = -1 // the layer deleted the key
	// >= 0: index into the value alphabet
)

type Layer uint8

const (
	LNone Layer = iota // no layer holds the key: absent
	LCommitted
	LBlock
	LSession
)

type Model struct {
	NK     int
	InSess bool
	Sess   [MaxKeys]cell
	Block  [MaxKeys]cell
	Comm   [MaxKeys]cell // cNone = absent
	// Disc remembers the last write a discarded session of the current block
	// made to the key; only used to name the context of a violation.
	Disc        [MaxKeys]cell
	EverDeleted [MaxKeys]bool
	Snaps       [][MaxKeys]cell // Snaps[v-1] is the content of version v
	Version     int64
	Hash        []byte
}

func NewModel(nk int) *Model {
	m := &Model{NK: nk}
	for i := 0; i < MaxKeys; i++ {
		m.Sess[i], m.Block[i], m.Comm[i], m.Disc[i] = cNone, cNone, cNone, cNone
	}
	return m
}

// Lookup returns what a read of k must see and the layer that decides it.
func (m *Model) Lookup(k int) (cell, Layer) {
	if m.InSess && m.Sess[k] != cNone {
		return m.Sess[k], LSession
	}
	if m.Block[k] != cNone {
		return m.Block[k], LBlock
	}
	if m.Comm[k] >= 0 {
		return m.Comm[k], LCommitted
	}
	return cDel, LNone
}

func (m *Model) write(k int, c cell) {
	if m.InSess {
		m.Sess[k] = c
	} else {
		m.Block[k] = c
	}
}

func (m *Model) Set(k, v int) { m.write(k, cell(v)) }
func (m *Model) Del(k int)    { m.write(k, cDel) }

func (m *Model) dropSession() {
	if !m.InSess {
		return
	}
	for k := 0; k < m.NK; k++ {
		if m.Sess[k] != cNone {
			m.Disc[k] = m.Sess[k]
			m.Sess[k] = cNone
		}
	}
	m.InSess = false
}

// Begin opens a session; a session that was still open is abandoned, exactly
// like State.BeginTxSession overwrites its txSession field.
func (m *Model) Begin() {
	m.dropSession()
	m.InSess = true
}

func (m *Model) CommitTx() {
	if !m.InSess {
		return
	}
	for k := 0; k < m.NK; k++ {
		if m.Sess[k] != cNone {
			m.Block[k] = m.Sess[k]
			m.Sess[k] = cNone
		}
	}
	m.InSess = false
}

func (m *Model) DiscardTx() { m.dropSession() }

// BlockCommit persists the block layer as the next version.
func (m *Model) BlockCommit() int64 {
	m.dropSession()
	for k := 0; k < m.NK; k++ {
		switch c := m.Block[k]; {
		case c == cDel:
			if m.Comm[k] >= 0 {
				m.EverDeleted[k] = true
			}
			m.Comm[k] = cNone
		case c >= 0:
			m.Comm[k] = c
		}
		m.Block[k] = cNone
		m.Disc[k] = cNone
	}
	m.Snaps = append(m.Snaps, m.Comm)
	m.Version++
	return m.Version
}

// Reopen forgets everything that was not committed.
func (m *Model) Reopen() {
	m.dropSession()
	for k := 0; k < m.NK; k++ {
		m.Block[k] = cNone
		m.Disc[k] = cNone
	}
}

// At returns the content of key k at committed version v (1-based).
func (m *Model) At(v int64, k int) cell {
	if v < 1 || v > int64(len(m.Snaps)) {
		return cNone
	}
	return m.Snaps[v-1][k]
}

// StateKey packs the visible model state into 64 bits (for counting distinct
// states; 3 bits per key and layer, up to 6 values and 7 keys).
func (m *Model) StateKey() uint64 {
	var x uint64
	for k := 0; k < m.NK; k++ {
		x = x<<3 | uint64(m.Sess[k]+2)
		x = x<<3 | uint64(m.Block[k]+2)
		x = x<<3 | uint64(m.Comm[k]+2)
	}
	x <<= 1
	if m.InSess {
		x |= 1
	}
	return x
}

// Kept says whether the documented rotation policy (comments on
// ChainStateRotationSetting) promises that version v still exists once version
// cur is the latest commit:
//
//	recent: the latest recent+1 versions are kept ("recent = 0: keep last
//	        version only", "recent = 3: keep last 4 version");
//	every:  versions that are multiples of every are epoch versions
//	        ("every = 0: keep no other epoch version", "every = 1: keep every
//	        version");
//	cycles: only the latest `cycles` epoch versions are kept ("cycles = 1: only
//	        keep one of latest every", "cycles = 0: keep every every").
//
// Everything else the policy is allowed to delete and nothing is asserted
// about it. (The code keeps a superset: it counts the cycles from the version
// leaving the recent window, not from the latest commit.)
func Kept(rot [3]int64, cur, v int64) bool {
	recent, every, cycles := rot[0], rot[1], rot[2]
	if v < 1 || v > cur {
		return false
	}
	if v >= cur-recent {
		return true
	}
	if every >= 1 && v%every == 0 {
		if cycles == 0 {
			return true
		}
		latestEpoch := cur - cur%every
		return v > latestEpoch-cycles*every
	}
	return false
}
