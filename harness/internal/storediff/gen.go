package storediff

import (
	"math/rand"
)

// Enumerate calls fn for every sequence of exactly length L over alpha that
// starts with prefix. Sequences that call commit-tx without an open session
// are not generated (State.CommitTxSession panics by design there and the app
// never does it); every shorter sequence is a prefix of a generated one, and
// every op of a sequence is compared, so the shorter sequences are covered.
// fn must not keep seq. Returns the number of pruned branches.
func Enumerate(alpha []Op, prefix []Op, L int, fn func(seq []Op)) (pruned int64) {
	seq := make([]Op, 0, L)
	open := false
	for _, op := range prefix {
		if op.Kind == KCommitTx && !open {
			return 1
		}
		open = sessionAfter(open, op)
		seq = append(seq, op)
	}
	if len(seq) >= L {
		fn(seq[:L])
		return 0
	}
	var rec func(open bool)
	rec = func(open bool) {
		if len(seq) == L {
			fn(seq)
			return
		}
		for _, op := range alpha {
			if op.Kind == KCommitTx && !open {
				pruned++
				continue
			}
			seq = append(seq, op)
			rec(sessionAfter(open, op))
			seq = seq[:len(seq)-1]
		}
	}
	rec(open)
	return pruned
}

func sessionAfter(open bool, op Op) bool {
	switch op.Kind {
	case KBegin:
		return true
	case KCommitTx, KDiscardTx, KBlockCommit, KReopen:
		return false
	}
	return open
}

// NonTrivial: the sequence contains at least one write and at least one
// compared read or commit after... anywhere (the rule of the evidence file).
func NonTrivial(ops []Op) bool {
	w, c := false, false
	for _, o := range ops {
		switch o.Kind {
		case KSet, KDel:
			w = true
		case KGet, KHas, KGetV, KBlockCommit, KReopen:
			c = true
		}
	}
	return w && c
}

// Random generates one random sequence of n ops. In steered mode the
// generator never reads a key whose most recent write in scope is a delete
// made in the current block or session: such a read is the already recorded
// tombstone defect and ends the sequence at once, which would keep long
// sequences from ever reaching rotation, reopen and deep version histories.
// Steering shapes the workload only; the oracle is the same.
func Random(rng *rand.Rand, cfg Config, n int, steered bool) []Op {
	m := NewModel(cfg.NK)
	ops := make([]Op, 0, n)
	// weights: set del get has begin commit-tx discard-tx block-commit reopen getv
	w := [nKinds]int{24, 10, 16, 8, 7, 0, 0, 12, 2, 11}
	for len(ops) < n {
		ww := w
		if m.InSess {
			ww[KBegin] = 1
			ww[KCommitTx] = 10
			ww[KDiscardTx] = 5
			ww[KBlockCommit] = 2
			ww[KReopen] = 1
		} else {
			ww[KDiscardTx] = 1
		}
		tot := 0
		for _, x := range ww {
			tot += x
		}
		x := rng.Intn(tot)
		kind := Kind(0)
		for i, y := range ww {
			if x < y {
				kind = Kind(i)
				break
			}
			x -= y
		}
		op := Op{Kind: kind}
		switch kind {
		case KSet:
			op.Key, op.Val = int8(rng.Intn(cfg.NK)), int8(rng.Intn(cfg.NV))
			m.Set(int(op.Key), int(op.Val))
		case KDel:
			op.Key = int8(rng.Intn(cfg.NK))
			m.Del(int(op.Key))
		case KGet, KHas:
			op.Key = int8(rng.Intn(cfg.NK))
			if steered {
				ok := false
				for try := 0; try < 8; try++ {
					c, layer := m.Lookup(int(op.Key))
					if !(c == cDel && (layer == LSession || layer == LBlock)) {
						ok = true
						break
					}
					op.Key = int8(rng.Intn(cfg.NK))
				}
				if !ok {
					continue
				}
			}
		case KBegin:
			m.Begin()
		case KCommitTx:
			m.CommitTx()
		case KDiscardTx:
			m.DiscardTx()
		case KBlockCommit:
			m.BlockCommit()
		case KReopen:
			m.Reopen()
		case KGetV:
			op.Key = int8(rng.Intn(cfg.NK))
			cur := int(m.Version)
			switch p := rng.Intn(100); {
			case p < 25:
				op.VMode = VAll
			case p < 85:
				back := cur
				if back > 30 {
					back = 30
				}
				op.VMode, op.V = VBack, int32(rng.Intn(back+1))
			case p < 95:
				op.VMode, op.V = VAbs, int32(1+rng.Intn(cur+1))
			default:
				op.VMode, op.V = VBack, int32(cur+rng.Intn(3))
			}
		}
		ops = append(ops, op)
	}
	return ops
}
