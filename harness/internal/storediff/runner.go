package storediff

import (
	"bytes"
	"fmt"
	"math"
	"os"
	"regexp"
	"strings"

	"github.com/Oneledger/protocol/config"
	"github.com/Oneledger/protocol/storage"
	tmdb "github.com/tendermint/tm-db"
)

// Config says which flavour of the real store a sequence runs against.
type Config struct {
	Gas      bool     `json:"gas"`       // State.WithGas(NewGasCalculator(Limit)) per block, as the app does
	Limit    int64    `json:"gas_limit"` // only with Gas
	Backend  string   `json:"backend"`   // "memdb" | "goleveldb"
	Rot      [3]int64 `json:"rotation"`  // Recent, Every, Cycles
	NK       int      `json:"keys"`
	NV       int      `json:"values"`
	FlatTwin bool     `json:"flat_twin"` // also run the twin that gets the surviving writes without session brackets
}

func (c Config) Name() string {
	s := "plain"
	if c.Gas {
		if c.Limit == math.MaxInt64 {
			s = "gas=max"
		} else {
			s = fmt.Sprintf("gas=%d", c.Limit)
		}
	}
	return fmt.Sprintf("%s/%s/rot=%d,%d,%d", s, c.Backend, c.Rot[0], c.Rot[1], c.Rot[2])
}

var tombstone = []byte(storage.TOMBSTONE)

// valueAlphabet: non-empty, different from the tombstone, varying length so
// that gas consumption varies. The first two have the same length.
var valueAlphabet = []string{"va", "vb", "vcc", "vdddd", "veeeeeeee", "vffffffffffffffff"}

func KeyName(k int) string   { return fmt.Sprintf("k%d", k) }
func ValueName(v int) string { return valueAlphabet[v] }

// Viol is the first violation of a sequence.
type Viol struct {
	Harness  bool // not a finding: the harness itself failed (I/O error, op outside the alphabet)
	Sig      string
	What     string
	At       int
	Expected string
	Got      string
}

// Stats are merged into the evidence counters.
type Stats struct {
	Ops                   [nKinds]int64
	Comparisons           int64
	TwinCommits           int64
	FlatTwinCommits       int64
	Reopens               int64
	VersionedCompared     int64
	VersionedLatest       int64
	VersionedRecent       int64
	VersionedEpoch        int64
	VersionedNonexistent  int64
	VersionedDeletable    int64 // reads of versions the policy may delete: nothing asserted
	DeletableStillPresent int64
	DeletableStillCorrect int64
	DeletedVersionsSeen   int64 // ... of which the store answered absent
	SetFailedGas          int64
	DelFailedGas          int64
	GetRefusedGas         int64
	GasExhaustedOps       int64
	Inapplicable          int64
	CommitContentChecks   int64
	MaxVersion            int64
	States                map[uint64]struct{}
}

func NewStats() *Stats { return &Stats{States: map[uint64]struct{}{}} }

func (s *Stats) Merge(o *Stats) {
	for i := range s.Ops {
		s.Ops[i] += o.Ops[i]
	}
	s.Comparisons += o.Comparisons
	s.TwinCommits += o.TwinCommits
	s.FlatTwinCommits += o.FlatTwinCommits
	s.Reopens += o.Reopens
	s.VersionedCompared += o.VersionedCompared
	s.VersionedLatest += o.VersionedLatest
	s.VersionedRecent += o.VersionedRecent
	s.VersionedEpoch += o.VersionedEpoch
	s.VersionedNonexistent += o.VersionedNonexistent
	s.VersionedDeletable += o.VersionedDeletable
	s.DeletableStillPresent += o.DeletableStillPresent
	s.DeletableStillCorrect += o.DeletableStillCorrect
	s.DeletedVersionsSeen += o.DeletedVersionsSeen
	s.SetFailedGas += o.SetFailedGas
	s.DelFailedGas += o.DelFailedGas
	s.GetRefusedGas += o.GetRefusedGas
	s.GasExhaustedOps += o.GasExhaustedOps
	s.Inapplicable += o.Inapplicable
	s.CommitContentChecks += o.CommitContentChecks
	if o.MaxVersion > s.MaxVersion {
		s.MaxVersion = o.MaxVersion
	}
	for k := range o.States {
		if len(s.States) >= 4000000 {
			break
		}
		s.States[k] = struct{}{}
	}
}

type twin struct {
	cs   *storage.ChainState
	flat bool
}

type runner struct {
	cfg   Config
	dir   string
	db    tmdb.DB
	cs    *storage.ChainState
	st    *storage.State
	gc    storage.GasCalculator
	tw    *twin
	flat  *twin
	pend  []Op   // write projection of the current block (with begin/commit-tx brackets)
	hist  [][]Op // write projections of the committed blocks
	sess  []Op   // writes of the open session
	m     *Model
	gasHi bool // the gas limit was reached at some op of the current block
	stats *Stats
	trace func(string)
	keys  [][]byte
	vals  [][]byte
	cur   Op
	curI  int
}

// Run executes ops against a fresh store and returns the first violation (nil
// if none) and the number of ops executed. dir is only used by the goleveldb
// backend and must be a fresh directory; it is removed afterwards.
func Run(cfg Config, dir string, ops []Op, stats *Stats, trace func(string)) (v *Viol, executed int) {
	if stats == nil {
		stats = NewStats()
	}
	r := &runner{cfg: cfg, dir: dir, stats: stats, trace: trace, m: NewModel(cfg.NK)}
	for k := 0; k < cfg.NK; k++ {
		r.keys = append(r.keys, []byte(KeyName(k)))
	}
	for i := 0; i < cfg.NV; i++ {
		r.vals = append(r.vals, []byte(valueAlphabet[i]))
	}
	defer func() {
		if p := recover(); p != nil {
			msg := fmt.Sprint(p)
			v = &Viol{
				Harness: strings.HasPrefix(msg, "harness:"),
				Sig:     "C09/panic/" + r.cur.Kind.String() + "/" + panicClass(msg),
				What:    fmt.Sprintf("[%s] op #%d %q panicked: %s", cfg.Name(), r.curI, r.cur.String(), msg),
				At:      r.curI, Expected: "no panic", Got: "panic: " + msg,
			}
			executed = r.curI + 1
		}
		r.close()
	}()
	if err := r.open(); err != nil {
		panic("harness: cannot open store: " + err.Error())
	}
	for i, op := range ops {
		r.cur, r.curI = op, i
		if int(op.Key) >= cfg.NK || int(op.Val) >= cfg.NV {
			panic("harness: op outside the alphabet: " + op.String())
		}
		if viol := r.step(i, op); viol != nil {
			viol.At = i
			r.tr("#%d %-14s MISMATCH %s: expected %s, got %s", i, op.String(), viol.Sig, viol.Expected, viol.Got)
			return viol, i + 1
		}
		if len(stats.States) < 2000000 {
			stats.States[r.m.StateKey()] = struct{}{}
		}
	}
	return nil, len(ops)
}

var nonWord = regexp.MustCompile(`[^a-zA-Z]+`)

func panicClass(msg string) string {
	w := strings.Fields(nonWord.ReplaceAllString(msg, " "))
	var keep []string
	for _, x := range w {
		if len(x) > 24 { // hex blobs made of letters only
			continue
		}
		keep = append(keep, strings.ToLower(x))
		if len(keep) == 6 {
			break
		}
	}
	if len(keep) == 0 {
		return "panic"
	}
	return "panic-" + strings.Join(keep, "-")
}

func (r *runner) tr(format string, a ...interface{}) {
	if r.trace != nil {
		r.trace(fmt.Sprintf(format, a...))
	}
}

func (r *runner) open() error {
	switch r.cfg.Backend {
	case "goleveldb":
		db, err := tmdb.NewGoLevelDB("c09", r.dir)
		if err != nil {
			return err
		}
		r.db = db
	default:
		if r.db == nil {
			r.db = tmdb.NewMemDB()
		}
	}
	r.cs = storage.NewChainState("c09", r.db)
	if err := r.cs.SetupRotation(config.ChainStateRotationCfg{Recent: r.cfg.Rot[0], Every: r.cfg.Rot[1], Cycles: r.cfg.Rot[2]}); err != nil {
		return err
	}
	r.newBlockState()
	return nil
}

func (r *runner) close() {
	if r.cfg.Backend == "goleveldb" {
		if r.db != nil {
			func() {
				defer func() { _ = recover() }()
				r.db.Close()
			}()
		}
		if r.dir != "" {
			_ = os.RemoveAll(r.dir)
		}
	}
}

// newBlockState mirrors app/controller.go blockBeginner: a new State over the
// same ChainState, gas-wrapped with a new calculator.
func (r *runner) newBlockState() {
	if r.cfg.Gas {
		r.gc = storage.NewGasCalculator(storage.Gas(r.cfg.Limit))
		r.st = storage.NewState(r.cs).WithGas(r.gc)
	} else {
		r.gc = nil
		r.st = storage.NewState(r.cs)
	}
	r.gasHi = false
}

// gasReached reports whether the block's calculator says the limit is reached
// (GasCalculator.IsEnough is true when consumed >= limit).
func (r *runner) gasReached() bool {
	if r.gc != nil && r.gc.IsEnough() {
		r.gasHi = true
		r.stats.GasExhaustedOps++
		return true
	}
	return false
}

func (r *runner) record(op Op, hit bool) {
	if r.m.InSess {
		r.sess = append(r.sess, op)
	} else {
		op.hit = hit
		r.pend = append(r.pend, op)
	}
}

// droppedDeletesExplain is called when the twin hash differs in a block whose
// gas limit was reached. It rebuilds a diagnostic twin from the recorded
// history and plays the block without the session-less deletes that were
// issued after the limit was reached; if that reproduces the store's hash the
// cause is named precisely: State.Delete reported (true, nil) for deletes
// that were never applied.
func (r *runner) droppedDeletesExplain(hash []byte) (bool, []string) {
	var filtered []Op
	var dropped []string
	for _, op := range r.pend {
		if op.Kind == KDel && op.hit {
			dropped = append(dropped, op.String())
			continue
		}
		filtered = append(filtered, op)
	}
	if len(dropped) == 0 {
		return false, nil
	}
	d := r.newTwin(false)
	for _, b := range r.hist {
		d.commit(r, b)
	}
	h, _ := d.commit(r, filtered)
	return hashEq(h, hash), dropped
}

func (r *runner) showCell(c cell) string {
	if c >= 0 {
		return fmt.Sprintf("%q", valueAlphabet[c])
	}
	return "absent"
}

func showBytes(b []byte) string {
	switch {
	case len(b) == 0:
		return "absent"
	case bytes.Equal(b, tombstone):
		return fmt.Sprintf("TOMBSTONE %q", string(b))
	}
	return fmt.Sprintf("%q", string(b))
}

func (r *runner) same(c cell, got []byte) bool {
	if c >= 0 {
		return bytes.Equal(got, r.vals[c])
	}
	return len(got) == 0
}

func (r *runner) provenance(k int, exp cell, layer Layer) string {
	switch layer {
	case LSession:
		if exp == cDel {
			return "deleted-in-same-session"
		}
		return "set-in-session"
	case LBlock:
		if exp == cDel {
			return "deleted-in-block"
		}
		return "set-in-block"
	case LCommitted:
		return "committed"
	}
	if r.m.EverDeleted[k] {
		return "deleted-committed"
	}
	return "never-written"
}

func valueTrait(exp cell, got []byte) string {
	switch {
	case bytes.Equal(got, tombstone):
		return "tombstone-bytes-returned"
	case exp < 0 && len(got) > 0:
		return "value-returned-for-absent"
	case exp >= 0 && len(got) == 0:
		return "absent-returned"
	}
	return "wrong-value"
}

func (r *runner) classifyGet(k int, exp cell, layer Layer, got []byte, hit bool) (string, string) {
	m := r.m
	prov := r.provenance(k, exp, layer)
	isTomb := bytes.Equal(got, tombstone)
	switch {
	case isTomb && exp == cDel && (layer == LSession || layer == LBlock):
		return prov, "tombstone-bytes-returned"
	case hit && layer == LBlock && r.same(m.Comm[k], got):
		return "gas-limit-reached", "stale-committed-value"
	case m.Disc[k] >= 0 && bytes.Equal(got, r.vals[m.Disc[k]]),
		m.Disc[k] == cDel && (isTomb || (len(got) == 0 && exp >= 0)):
		return "after-discard", "discarded-write-visible"
	case isTomb:
		return prov, "tombstone-bytes-returned"
	case layer == LSession && m.Block[k] != cNone && r.same(m.Block[k], got):
		return prov, "stale-block-value"
	case (layer == LSession || layer == LBlock) && r.same(m.Comm[k], got):
		return prov, "stale-committed-value"
	}
	return prov, valueTrait(exp, got)
}

func (r *runner) classifyHas(k int, exp cell, layer Layer, got bool, hit bool) (string, string) {
	m := r.m
	trait := "exists-false"
	if got {
		trait = "exists-true"
	}
	prov := r.provenance(k, exp, layer)
	switch {
	case hit && layer == LBlock && got == (m.Comm[k] >= 0):
		return "gas-limit-reached", trait
	case layer == LSession || layer == LBlock:
		return prov, trait
	case m.Disc[k] != cNone:
		return "after-discard", trait
	}
	return prov, trait
}

func (r *runner) viol(rule, ctx, trait, exp, got, what string) *Viol {
	return &Viol{
		Sig:      "C09/" + rule + "/" + ctx + "/" + trait,
		What:     fmt.Sprintf("[%s] op #%d %q: %s: expected %s, got %s", r.cfg.Name(), r.curI, r.cur.String(), what, exp, got),
		Expected: exp, Got: got,
	}
}

func (r *runner) step(i int, op Op) *Viol {
	r.stats.Ops[op.Kind]++
	k := int(op.Key)
	m := r.m
	switch op.Kind {
	case KSet:
		hit := r.gasReached()
		err := r.st.Set(r.keys[k], r.vals[op.Val])
		if err != nil {
			if !hit {
				_, layer := m.Lookup(k)
				return r.viol("write", r.provenance(k, cDel, layer), "set-error-without-gas-exhaustion", "nil error", err.Error(), "Set failed although the gas limit was not reached")
			}
			// a Set that returned an error is not a write
			r.stats.SetFailedGas++
			r.tr("#%d %-14s -> error %v (gas limit reached): not a write", i, op.String(), err)
			return nil
		}
		m.Set(k, int(op.Val))
		r.record(op, hit)
		r.tr("#%d %-14s -> ok%s", i, op.String(), r.gasNote(hit))
	case KDel:
		hit := r.gasReached()
		ok, err := r.st.Delete(r.keys[k])
		if err != nil || !ok {
			if !hit {
				_, layer := m.Lookup(k)
				return r.viol("write", r.provenance(k, cDel, layer), "delete-error-without-gas-exhaustion", "(true, nil)", fmt.Sprintf("(%v, %v)", ok, err), "Delete failed although the gas limit was not reached")
			}
			r.stats.DelFailedGas++
			r.tr("#%d %-14s -> (%v, %v) (gas limit reached): not a write", i, op.String(), ok, err)
			return nil
		}
		m.Del(k)
		r.record(op, hit)
		r.tr("#%d %-14s -> (true, nil)%s", i, op.String(), r.gasNote(hit))
	case KGet:
		hit := r.gasReached()
		exp, layer := m.Lookup(k)
		got, err := r.st.Get(r.keys[k])
		r.stats.Comparisons++
		if err == storage.ErrExceedGasLimit && hit {
			// the read was refused, loudly: no value was returned, so no
			// wrong value was returned (the unchanged tree never does this)
			r.stats.Comparisons--
			r.stats.GetRefusedGas++
			r.tr("#%d %-14s -> error %v (gas limit reached): read refused, nothing to compare", i, op.String(), err)
			return nil
		}
		if err != nil {
			return r.viol("get", r.provenance(k, exp, layer), "error-returned", r.showCell(exp), "error "+err.Error(), "Get returned an error")
		}
		if !r.same(exp, got) {
			ctx, trait := r.classifyGet(k, exp, layer, got, hit)
			return r.viol("get", ctx, trait, r.showCell(exp), showBytes(got),
				fmt.Sprintf("Get(%s) must return the most recent write in scope (model: %s)%s", KeyName(k), r.provenance(k, exp, layer), r.gasNote(hit)))
		}
		r.tr("#%d %-14s -> %s (expected %s)%s", i, op.String(), showBytes(got), r.showCell(exp), r.gasNote(hit))
	case KHas:
		hit := r.gasReached()
		exp, layer := m.Lookup(k)
		got := r.st.Exists(r.keys[k])
		r.stats.Comparisons++
		if got != (exp >= 0) {
			ctx, trait := r.classifyHas(k, exp, layer, got, hit)
			return r.viol("exists", ctx, trait, fmt.Sprint(exp >= 0), fmt.Sprint(got),
				fmt.Sprintf("Exists(%s) must follow the most recent write in scope (model: %s)%s", KeyName(k), r.provenance(k, exp, layer), r.gasNote(hit)))
		}
		r.tr("#%d %-14s -> %v (expected %v)%s", i, op.String(), got, exp >= 0, r.gasNote(hit))
	case KBegin:
		r.st.BeginTxSession()
		m.Begin()
		r.sess = r.sess[:0]
		r.tr("#%d %-14s", i, op.String())
	case KCommitTx:
		if !m.InSess {
			// State.CommitTxSession panics by design without a session
			r.stats.Inapplicable++
			r.tr("#%d %-14s skipped: no open session", i, op.String())
			return nil
		}
		r.st.CommitTxSession()
		m.CommitTx()
		r.pend = append(r.pend, Op{Kind: KBegin})
		r.pend = append(r.pend, r.sess...)
		r.pend = append(r.pend, Op{Kind: KCommitTx})
		r.sess = r.sess[:0]
		r.tr("#%d %-14s", i, op.String())
	case KDiscardTx:
		r.st.DiscardTxSession()
		m.DiscardTx()
		r.sess = r.sess[:0]
		r.tr("#%d %-14s", i, op.String())
	case KBlockCommit:
		return r.blockCommit(i, op)
	case KReopen:
		return r.reopen(i, op)
	case KGetV:
		cur := m.Version
		switch op.VMode {
		case VAll:
			for v := int64(1); v <= cur+1; v++ {
				if viol := r.getVersioned(i, op, v, k); viol != nil {
					return viol
				}
			}
		case VAbs:
			return r.getVersioned(i, op, int64(op.V), k)
		default:
			return r.getVersioned(i, op, cur-int64(op.V), k)
		}
	}
	return nil
}

func (r *runner) gasNote(hit bool) string {
	if hit {
		return " [gas limit reached]"
	}
	return ""
}

func (r *runner) getVersioned(i int, op Op, v int64, k int) *Viol {
	m := r.m
	cur := m.Version
	got := r.st.GetVersioned(v, r.keys[k])
	var exp cell
	var ctx string
	switch {
	case v < 1 || v > cur:
		exp, ctx = cNone, "nonexistent-version"
		r.stats.VersionedNonexistent++
	case Kept(r.cfg.Rot, cur, v):
		exp = m.At(v, k)
		switch {
		case v == cur:
			ctx = "latest-version"
			r.stats.VersionedLatest++
		case v >= cur-r.cfg.Rot[0]:
			ctx = "recent-window"
			r.stats.VersionedRecent++
		default:
			ctx = "epoch-version"
			r.stats.VersionedEpoch++
		}
	default:
		// the policy may have deleted this version: nothing is asserted
		r.stats.VersionedDeletable++
		if len(got) > 0 {
			r.stats.DeletableStillPresent++
			if r.same(m.At(v, k), got) {
				r.stats.DeletableStillCorrect++
			}
		} else {
			r.stats.DeletedVersionsSeen++
		}
		r.tr("#%d %-14s v%d -> %s (version outside the kept set of the rotation policy: not asserted)", i, op.String(), v, showBytes(got))
		return nil
	}
	r.stats.VersionedCompared++
	r.stats.Comparisons++
	if !r.same(exp, got) {
		return r.viol("versioned", ctx, valueTrait(exp, got), r.showCell(exp), showBytes(got),
			fmt.Sprintf("GetVersioned(%d, %s) with latest version %d", v, KeyName(k), cur))
	}
	r.tr("#%d %-14s v%d -> %s (expected %s, %s)", i, op.String(), v, showBytes(got), r.showCell(exp), ctx)
	return nil
}

func (r *runner) newTwin(flat bool) *twin {
	return &twin{cs: storage.NewChainState("twin", tmdb.NewMemDB()), flat: flat}
}

// commit plays the write projection of the block on the twin and commits it.
func (t *twin) commit(r *runner, pend []Op) ([]byte, int64) {
	st := storage.NewState(t.cs)
	if r.cfg.Gas {
		st = st.WithGas(storage.NewGasCalculator(storage.Gas(math.MaxInt64)))
	}
	for _, op := range pend {
		switch op.Kind {
		case KBegin:
			if !t.flat {
				st.BeginTxSession()
			}
		case KCommitTx:
			if !t.flat {
				st.CommitTxSession()
			}
		case KSet:
			if err := st.Set(r.keys[op.Key], r.vals[op.Val]); err != nil {
				panic("harness: twin Set failed: " + err.Error())
			}
		case KDel:
			if ok, err := st.Delete(r.keys[op.Key]); err != nil || !ok {
				panic(fmt.Sprintf("harness: twin Delete failed: %v %v", ok, err))
			}
		}
	}
	return st.Commit()
}

func hx(h []byte) string {
	if len(h) == 0 {
		return "(empty tree)"
	}
	return fmt.Sprintf("%X", h)
}

func hashEq(a, b []byte) bool { return (len(a) == 0 && len(b) == 0) || bytes.Equal(a, b) }

// persisted compares what the chain state holds after a commit or a reopen
// with the model's committed layer, through a fresh plain State (so the
// block's own gas calculator is not disturbed). Returns key, what, exp, got.
func (r *runner) persisted() (bad bool, k int, how string, exp cell, got []byte) {
	obs := storage.NewState(r.cs)
	for k := 0; k < r.cfg.NK; k++ {
		exp := r.m.Comm[k]
		got, err := obs.Get(r.keys[k])
		r.stats.Comparisons++
		if err != nil || !r.same(exp, got) {
			return true, k, "get", exp, got
		}
		has := obs.Exists(r.keys[k])
		r.stats.Comparisons++
		if has != (exp >= 0) {
			if has {
				return true, k, "exists", exp, []byte("exists=true")
			}
			return true, k, "exists", exp, nil
		}
		if r.m.Version >= 1 {
			got = obs.GetVersioned(r.m.Version, r.keys[k])
			r.stats.Comparisons++
			if !r.same(exp, got) {
				return true, k, "versioned", exp, got
			}
		}
	}
	return false, 0, "", 0, nil
}

func persistTrait(exp cell, got []byte) string {
	switch {
	case bytes.Equal(got, tombstone):
		return "tombstone-bytes-persisted"
	case exp < 0 && len(got) > 0:
		return "deleted-key-still-present"
	case exp >= 0 && len(got) == 0:
		return "written-key-absent"
	}
	return "wrong-value-persisted"
}

func (r *runner) blockCommit(i int, op Op) *Viol {
	m := r.m
	prev := m.Version
	gasHi := r.gasHi || (r.gc != nil && r.gc.IsEnough())
	hash, ver := r.st.Commit()
	m.BlockCommit()
	m.Hash = hash
	r.sess = r.sess[:0]
	if ver > r.stats.MaxVersion {
		r.stats.MaxVersion = ver
	}
	r.stats.Comparisons++
	if ver != prev+1 {
		return r.viol("version-number", "block-commit", "not-previous-plus-one", fmt.Sprint(prev+1), fmt.Sprint(ver), "Commit() must return the previous version plus one")
	}
	if r.st.Version() != ver || r.cs.Version != ver || !hashEq(r.st.RootHash(), hash) {
		return r.viol("version-number", "block-commit", "state-fields-differ-from-commit-result", fmt.Sprintf("version %d hash %X", ver, hash),
			fmt.Sprintf("version %d hash %X", r.st.Version(), r.st.RootHash()), "State.Version()/RootHash() after Commit()")
	}
	ctx := "gas-not-exhausted"
	if !r.cfg.Gas {
		ctx = "plain-state"
	} else if gasHi {
		ctx = "gas-limit-reached"
	}
	if r.tw == nil {
		r.tw = r.newTwin(false)
		if r.cfg.FlatTwin {
			r.flat = r.newTwin(true)
		}
	}
	th, tv := r.tw.commit(r, r.pend)
	r.stats.TwinCommits++
	r.stats.Comparisons++
	if !hashEq(th, hash) || tv != ver {
		trait := "hash-differs-same-content"
		detail := ""
		if ok, dropped := r.droppedDeletesExplain(hash); gasHi && ok {
			trait = "delete-reported-ok-not-applied"
			detail = fmt.Sprintf("; State.Delete returned (true, nil) for %v after the gas limit was reached but did not apply them: the hash equals that of a twin that never received these deletes", dropped)
		} else if bad, k, how, exp, got := r.persisted(); bad {
			trait = "persisted-content-differs"
			detail = fmt.Sprintf("; the committed content differs from the block's surviving writes: %s(%s) expected %s, got %s", how, KeyName(k), r.showCell(exp), showBytes(got))
		}
		return r.viol("commit-hash-twin", ctx, trait, fmt.Sprintf("version %d hash %s", tv, hx(th)), fmt.Sprintf("version %d hash %s", ver, hx(hash)),
			"root hash after block-commit differs from the twin store that received only the write projection "+fmt.Sprint(OpStrings(r.pend))+detail)
	}
	if r.flat != nil {
		fh, fv := r.flat.commit(r, r.pend)
		r.stats.FlatTwinCommits++
		r.stats.Comparisons++
		if !hashEq(fh, hash) || fv != ver {
			return r.viol("commit-hash-twin", "flattened-writes", "hash-differs", fmt.Sprintf("version %d hash %s", fv, hx(fh)), fmt.Sprintf("version %d hash %s", ver, hx(hash)),
				"root hash differs from the twin that received the surviving writes in first-write order without session brackets")
		}
	}
	r.stats.CommitContentChecks++
	if bad, k, how, exp, got := r.persisted(); bad {
		rule := "get"
		if how == "exists" {
			rule = "exists"
		} else if how == "versioned" {
			rule = "versioned"
		}
		return r.viol(rule, "after-block-commit", persistTrait(exp, got), r.showCell(exp), showBytes(got),
			fmt.Sprintf("a commit must persist exactly the block's surviving writes; %s(%s) through a fresh State", how, KeyName(k)))
	}
	r.hist = append(r.hist, append([]Op(nil), r.pend...))
	r.pend = r.pend[:0]
	r.newBlockState()
	r.tr("#%d %-14s -> version %d hash %X (twin equal%s)", i, op.String(), ver, hash, r.gasNote(gasHi))
	return nil
}

func (r *runner) reopen(i int, op Op) *Viol {
	m := r.m
	r.stats.Reopens++
	if r.cfg.Backend == "goleveldb" {
		r.db.Close()
		r.db = nil
	}
	if err := r.open(); err != nil {
		panic("harness: reopen failed: " + err.Error())
	}
	m.Reopen()
	r.pend = r.pend[:0]
	r.sess = r.sess[:0]
	r.stats.Comparisons += 2
	if r.cs.Version != m.Version || r.st.Version() != m.Version {
		return r.viol("reopen", "version", "differs-from-last-commit", fmt.Sprint(m.Version), fmt.Sprint(r.cs.Version), "version after reopening the database")
	}
	if !hashEq(r.cs.Hash, m.Hash) || !hashEq(r.st.RootHash(), m.Hash) {
		return r.viol("reopen", "hash", "differs-from-last-commit", fmt.Sprintf("%X", m.Hash), fmt.Sprintf("%X", r.cs.Hash), "root hash after reopening the database")
	}
	if bad, k, how, exp, got := r.persisted(); bad {
		return r.viol("reopen", "read-"+how, persistTrait(exp, got), r.showCell(exp), showBytes(got),
			fmt.Sprintf("after reopen every key must read as in the last commit; %s(%s)", how, KeyName(k)))
	}
	r.tr("#%d %-14s -> version %d hash %X", i, op.String(), r.cs.Version, r.cs.Hash)
	return nil
}
