package storediff

import (
	_ "unsafe" // go:linkname

	ollog "github.com/Oneledger/protocol/log"
	_ "github.com/Oneledger/protocol/storage"
)

// package storage logs "Reinitialized From Database" on every NewChainState and
// an error on every delete of a missing key, to os.Stdout. With millions of
// stores per run that output is useless and slow; the package-level logger is
// reached by name and switched off. Nothing in the code under test is changed.
//
//go:linkname storageLog github.com/Oneledger/protocol/storage.log
var storageLog *ollog.Logger

// Quiet silences package storage's logger.
func Quiet() {
	if storageLog != nil {
		storageLog.WithLevel(ollog.Level(-1))
	}
}
