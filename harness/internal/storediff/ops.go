// Package storediff decides C09: it drives the real storage.State +
// storage.ChainState one operation at a time next to a small reference model
// (three stacked maps and a list of version snapshots) and next to twin real
// stores that only receive the write projection of the same sequence.
package storediff

import (
	"fmt"
	"strconv"
	"strings"
)

// Kind is an operation kind of the C09 alphabet.
type Kind uint8

const (
	KSet Kind = iota
	KDel
	KGet
	KHas
	KBegin
	KCommitTx
	KDiscardTx
	KBlockCommit
	KReopen
	KGetV
	nKinds
)

var kindName = [...]string{"set", "del", "get", "has", "begin-tx", "commit-tx", "discard-tx", "block-commit", "reopen", "getv"}

func (k Kind) String() string { return kindName[k] }

// Version selectors of a versioned get.
const (
	VAll  uint8 = iota // every version 1..current
	VAbs               // absolute version V
	VBack              // current version minus V
)

// Op is one operation. Key and Val index the key / value alphabet of the
// Config the sequence runs under.
type Op struct {
	Kind  Kind
	Key   int8
	Val   int8
	VMode uint8
	V     int32
	// hit is set on the write projection only: the block's gas limit was
	// already reached when the write was issued outside a session.
	hit bool
}

func (o Op) String() string {
	switch o.Kind {
	case KSet:
		return fmt.Sprintf("set k%d=v%d", o.Key, o.Val)
	case KDel, KGet, KHas:
		return fmt.Sprintf("%s k%d", o.Kind, o.Key)
	case KGetV:
		switch o.VMode {
		case VAll:
			return fmt.Sprintf("getv k%d@all", o.Key)
		case VAbs:
			return fmt.Sprintf("getv k%d@%d", o.Key, o.V)
		default:
			return fmt.Sprintf("getv k%d@-%d", o.Key, o.V)
		}
	}
	return o.Kind.String()
}

// ParseOp is the inverse of Op.String.
func ParseOp(s string) (Op, error) {
	f := strings.Fields(s)
	if len(f) == 0 {
		return Op{}, fmt.Errorf("empty op")
	}
	kind := Kind(255)
	for i, n := range kindName {
		if n == f[0] {
			kind = Kind(i)
		}
	}
	if kind == 255 {
		return Op{}, fmt.Errorf("unknown op %q", s)
	}
	op := Op{Kind: kind}
	key := func(t string) error {
		if !strings.HasPrefix(t, "k") {
			return fmt.Errorf("bad key in %q", s)
		}
		n, err := strconv.Atoi(t[1:])
		if err != nil || n < 0 || n > 100 {
			return fmt.Errorf("bad key in %q", s)
		}
		op.Key = int8(n)
		return nil
	}
	switch kind {
	case KSet:
		if len(f) != 2 {
			return op, fmt.Errorf("bad op %q", s)
		}
		kv := strings.SplitN(f[1], "=", 2)
		if len(kv) != 2 || !strings.HasPrefix(kv[1], "v") {
			return op, fmt.Errorf("bad op %q", s)
		}
		if err := key(kv[0]); err != nil {
			return op, err
		}
		n, err := strconv.Atoi(kv[1][1:])
		if err != nil || n < 0 || n > 100 {
			return op, fmt.Errorf("bad value in %q", s)
		}
		op.Val = int8(n)
	case KDel, KGet, KHas:
		if len(f) != 2 {
			return op, fmt.Errorf("bad op %q", s)
		}
		if err := key(f[1]); err != nil {
			return op, err
		}
	case KGetV:
		if len(f) != 2 {
			return op, fmt.Errorf("bad op %q", s)
		}
		kv := strings.SplitN(f[1], "@", 2)
		if len(kv) != 2 {
			return op, fmt.Errorf("bad op %q", s)
		}
		if err := key(kv[0]); err != nil {
			return op, err
		}
		switch {
		case kv[1] == "all":
			op.VMode = VAll
		case strings.HasPrefix(kv[1], "-"):
			n, err := strconv.Atoi(kv[1][1:])
			if err != nil {
				return op, fmt.Errorf("bad version in %q", s)
			}
			op.VMode, op.V = VBack, int32(n)
		default:
			n, err := strconv.Atoi(kv[1])
			if err != nil {
				return op, fmt.Errorf("bad version in %q", s)
			}
			op.VMode, op.V = VAbs, int32(n)
		}
	default:
		if len(f) != 1 {
			return op, fmt.Errorf("bad op %q", s)
		}
	}
	return op, nil
}

func OpStrings(ops []Op) []string {
	out := make([]string, len(ops))
	for i, o := range ops {
		out[i] = o.String()
	}
	return out
}

func ParseOps(ss []string) ([]Op, error) {
	out := make([]Op, 0, len(ss))
	for _, s := range ss {
		o, err := ParseOp(s)
		if err != nil {
			return nil, err
		}
		out = append(out, o)
	}
	return out, nil
}

// IsWrite says whether the kind belongs to the write projection.
func (k Kind) IsWrite() bool { return k == KSet || k == KDel }

// Alphabet returns the systematic alphabet over nk keys and nv values:
// set k v, del k, get k, has k, begin, commit-tx, discard-tx, block-commit,
// reopen, getv k@all. With nk = nv = 2 these are the 17 operations of C09.
func Alphabet(nk, nv int) []Op {
	var a []Op
	for k := 0; k < nk; k++ {
		for v := 0; v < nv; v++ {
			a = append(a, Op{Kind: KSet, Key: int8(k), Val: int8(v)})
		}
	}
	for _, kd := range []Kind{KDel, KGet, KHas} {
		for k := 0; k < nk; k++ {
			a = append(a, Op{Kind: kd, Key: int8(k)})
		}
	}
	for _, kd := range []Kind{KBegin, KCommitTx, KDiscardTx, KBlockCommit, KReopen} {
		a = append(a, Op{Kind: kd})
	}
	for k := 0; k < nk; k++ {
		a = append(a, Op{Kind: KGetV, Key: int8(k), VMode: VAll})
	}
	return a
}
