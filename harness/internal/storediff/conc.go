package storediff

import (
	"fmt"
	"math/rand"
	"sync"
	"sync/atomic"
	"time"

	"github.com/Oneledger/protocol/config"
	"github.com/Oneledger/protocol/storage"
	"github.com/anishathalye/porcupine"
	tmdb "github.com/tendermint/tm-db"
)

// ConcResult is the outcome of the supplementary concurrent pass. It is a
// diagnostic: C09 quantifies over sequential histories.
type ConcResult struct {
	Blocks            int    `json:"blocks"`
	Reads             int    `json:"reads"`
	VersionedReads    int    `json:"versioned_reads"`
	VersionedMismatch int    `json:"versioned_mismatch"`
	ReaderPanics      int    `json:"reader_panics"`
	FirstPanic        string `json:"first_panic,omitempty"`
	Porcupine         string `json:"porcupine"` // Ok | Illegal | Unknown
	Note              string `json:"note,omitempty"`
}

type regIn struct {
	write bool
	key   int
	val   string
}

// ConcurrentDiag runs one committing writer against readers that each own a
// storage.State over the shared ChainState (as the RPC services do), records
// the history with a logical clock and checks it with porcupine against a
// per-key register whose writes take effect somewhere inside Commit().
// It must run in a child process: unsynchronised map access inside the store
// is a fatal error that cannot be recovered. With versioned = false the
// readers only use Get; with versioned = true half of the reads are
// GetVersioned of an already committed version (ChainState.GetVersioned takes
// no lock and reads the IAVL version map that SaveVersion writes).
func ConcurrentDiag(seed int64, versioned bool) ConcResult {
	const nKeys, nReaders, nBlocks = 3, 4, 2000
	res := ConcResult{}
	cs := storage.NewChainState("conc", tmdb.NewMemDB())
	_ = cs.SetupRotation(config.ChainStateRotationCfg{Recent: 1 << 40, Every: 0, Cycles: 0})
	keys := [][]byte{[]byte("k0"), []byte("k1"), []byte("k2")}
	var clock, committed int64
	var mu sync.Mutex
	var hist []porcupine.Operation
	// log[v][k] = value of k at version v ("" = absent); log[0] = empty
	log := [][nKeys]string{{}}
	var logMu sync.RWMutex
	var done int32
	var wg sync.WaitGroup
	var vreads, vbad, reads, panics int64
	var firstPanic atomic.Value

	for c := 0; c < nReaders; c++ {
		wg.Add(1)
		go func(c int) {
			defer wg.Done()
			rng := rand.New(rand.NewSource(seed*1000 + int64(c)))
			st := storage.NewState(cs)
			for atomic.LoadInt32(&done) == 0 {
				func() {
					defer func() {
						if p := recover(); p != nil {
							atomic.AddInt64(&panics, 1)
							firstPanic.CompareAndSwap(nil, fmt.Sprint(p))
						}
					}()
					k := rng.Intn(nKeys)
					if versioned && rng.Intn(2) == 0 {
						v := atomic.LoadInt64(&committed)
						if v < 1 {
							return
						}
						v = 1 + rng.Int63n(v)
						got := st.GetVersioned(v, keys[k])
						atomic.AddInt64(&vreads, 1)
						logMu.RLock()
						want := log[v][k]
						logMu.RUnlock()
						if string(got) != want {
							atomic.AddInt64(&vbad, 1)
						}
						return
					}
					call := atomic.AddInt64(&clock, 1)
					got, _ := st.Get(keys[k])
					ret := atomic.AddInt64(&clock, 1)
					atomic.AddInt64(&reads, 1)
					mu.Lock()
					if len(hist) < 60000 {
						hist = append(hist, porcupine.Operation{ClientId: c + 1, Input: regIn{key: k}, Call: call, Output: string(got), Return: ret})
					}
					mu.Unlock()
				}()
			}
		}(c)
	}

	rng := rand.New(rand.NewSource(seed))
	cur := [nKeys]string{}
	for b := 1; b <= nBlocks; b++ {
		st := storage.NewState(cs).WithGas(storage.NewGasCalculator(storage.Gas(1 << 60)))
		var ins []regIn
		for n := 1 + rng.Intn(2); n > 0; n-- {
			k := rng.Intn(nKeys)
			if rng.Intn(5) == 0 && cur[k] != "" {
				_, _ = st.Delete(keys[k])
				cur[k] = ""
			} else {
				cur[k] = fmt.Sprintf("b%d", b)
				_ = st.Set(keys[k], []byte(cur[k]))
			}
			ins = append(ins, regIn{write: true, key: k, val: cur[k]})
		}
		logMu.Lock()
		log = append(log, cur)
		logMu.Unlock()
		call := atomic.AddInt64(&clock, 1)
		st.Commit()
		ret := atomic.AddInt64(&clock, 1)
		atomic.StoreInt64(&committed, int64(b))
		mu.Lock()
		seen := map[int]bool{}
		for i := len(ins) - 1; i >= 0; i-- { // last write per key wins
			if seen[ins[i].key] {
				continue
			}
			seen[ins[i].key] = true
			hist = append(hist, porcupine.Operation{ClientId: 0, Input: ins[i], Call: call, Output: "", Return: ret})
		}
		mu.Unlock()
	}
	atomic.StoreInt32(&done, 1)
	wg.Wait()

	model := porcupine.Model{
		Partition: func(history []porcupine.Operation) [][]porcupine.Operation {
			parts := make([][]porcupine.Operation, nKeys)
			for _, op := range history {
				k := op.Input.(regIn).key
				parts[k] = append(parts[k], op)
			}
			return parts
		},
		Init: func() interface{} { return "" },
		Step: func(state, input, output interface{}) (bool, interface{}) {
			in := input.(regIn)
			if in.write {
				return true, in.val
			}
			return output.(string) == state.(string), state
		},
		Equal: func(a, b interface{}) bool { return a.(string) == b.(string) },
	}
	switch porcupine.CheckOperationsTimeout(model, hist, 60*time.Second) {
	case porcupine.Ok:
		res.Porcupine = "Ok"
	case porcupine.Illegal:
		res.Porcupine = "Illegal"
	default:
		res.Porcupine = "Unknown"
	}
	res.Blocks = nBlocks
	res.Reads = int(reads)
	res.VersionedReads = int(vreads)
	res.VersionedMismatch = int(vbad)
	res.ReaderPanics = int(panics)
	if p := firstPanic.Load(); p != nil {
		res.FirstPanic = p.(string)
	}
	return res
}
