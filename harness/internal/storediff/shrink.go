package storediff

import (
	"math"
	"sort"
	"strings"
	"sync"
)

// Finding is one violating sequence, cut after the violating op.
type Finding struct {
	Sig      string
	Cfg      Config
	Ops      []Op
	What     string
	Expected string
	Got      string
	Source   string
	OrigLen  int
}

// Witness is what goes into the evidence / replay file.
type Witness struct {
	Config      Config   `json:"config"`
	ConfigName  string   `json:"config_name"`
	Keys        []string `json:"keys"`
	Values      []string `json:"values"`
	Ops         []string `json:"ops"`
	FailedAt    int      `json:"failed_at"`
	Expected    string   `json:"expected"`
	Got         string   `json:"got"`
	Source      string   `json:"source"`
	OriginalLen int      `json:"original_len"`
}

func (f Finding) Witness() Witness {
	w := Witness{Config: f.Cfg, ConfigName: f.Cfg.Name(), Ops: OpStrings(f.Ops), FailedAt: len(f.Ops) - 1,
		Expected: f.Expected, Got: f.Got, Source: f.Source, OriginalLen: f.OrigLen}
	for k := 0; k < f.Cfg.NK; k++ {
		w.Keys = append(w.Keys, KeyName(k))
	}
	for v := 0; v < f.Cfg.NV; v++ {
		w.Values = append(w.Values, ValueName(v))
	}
	return w
}

func (f Finding) less(g Finding) bool {
	if len(f.Ops) != len(g.Ops) {
		return len(f.Ops) < len(g.Ops)
	}
	if a, b := f.Cfg.rank(), g.Cfg.rank(); a != b {
		return a < b
	}
	if a, b := f.Cfg.Name(), g.Cfg.Name(); a != b {
		return a < b
	}
	return strings.Join(OpStrings(f.Ops), ";") < strings.Join(OpStrings(g.Ops), ";")
}

// rank orders configurations from simple to involved (witness preference).
func (c Config) rank() int64 {
	r := int64(0)
	if c.Backend != "memdb" {
		r += 1 << 40
	}
	switch {
	case !c.Gas:
	case c.Limit == math.MaxInt64:
		r += 1 << 32
	default:
		r += 2<<32 + c.Limit%(1<<31)
	}
	return r
}

// Collector keeps, per signature, the few smallest findings (deterministic
// whatever the goroutine interleaving) and counts the rest.
type Collector struct {
	mu     sync.Mutex
	Keep   int
	best   map[string][]Finding
	counts map[string]int
}

func NewCollector(keep int) *Collector {
	return &Collector{Keep: keep, best: map[string][]Finding{}, counts: map[string]int{}}
}

func (c *Collector) Add(f Finding) {
	c.mu.Lock()
	defer c.mu.Unlock()
	c.counts[f.Sig]++
	l := c.best[f.Sig]
	if len(l) == c.Keep && !f.less(l[len(l)-1]) {
		return
	}
	f.Ops = append([]Op(nil), f.Ops...)
	l = append(l, f)
	sort.SliceStable(l, func(i, j int) bool { return l[i].less(l[j]) })
	if len(l) > c.Keep {
		l = l[:c.Keep]
	}
	c.best[f.Sig] = l
}

func (c *Collector) Signatures() []string {
	c.mu.Lock()
	defer c.mu.Unlock()
	var s []string
	for k := range c.counts {
		s = append(s, k)
	}
	sort.Strings(s)
	return s
}

func (c *Collector) Count(sig string) int {
	c.mu.Lock()
	defer c.mu.Unlock()
	return c.counts[sig]
}

func (c *Collector) Best(sig string) []Finding {
	c.mu.Lock()
	defer c.mu.Unlock()
	return append([]Finding(nil), c.best[sig]...)
}

// Shrink greedily deletes one op at a time, re-running the sequence on a
// fresh store, as long as the same signature still fires.
func Shrink(f Finding, newDir func() string) Finding {
	ops := append([]Op(nil), f.Ops...)
	run := func(cand []Op) *Viol {
		dir := ""
		if f.Cfg.Backend == "goleveldb" {
			dir = newDir()
		}
		v, _ := Run(f.Cfg, dir, cand, nil, nil)
		return v
	}
	for changed := true; changed; {
		changed = false
		for i := len(ops) - 1; i >= 0; i-- {
			if i >= len(ops) {
				continue
			}
			cand := make([]Op, 0, len(ops)-1)
			cand = append(cand, ops[:i]...)
			cand = append(cand, ops[i+1:]...)
			if len(cand) == 0 {
				continue
			}
			if v := run(cand); v != nil && v.Sig == f.Sig {
				ops = cand[:v.At+1]
				f.What, f.Expected, f.Got = v.What, v.Expected, v.Got
				changed = true
			}
		}
	}
	f.Ops = ops
	return f
}
