// Package boxcli starts and talks to olbox child processes.
package boxcli

import (
	"bufio"
	"bytes"
	"encoding/json"
	"errors"
	"fmt"
	"io"
	"io/ioutil"
	"os"
	"os/exec"
	"path/filepath"
	"strings"
	"syscall"
	"time"

	"olverif/internal/proto"
)

// ErrDied is returned when the box process ended instead of answering.
var ErrDied = errors.New("box process died")

// ErrTimeout is returned when the watchdog fired (inconclusive, never a verdict).
var ErrTimeout = errors.New("box watchdog timeout")

type Box struct {
	Name    string
	Root    string
	Bin     string
	Keyring string
	Env     []string
	Wrap    []string // optional wrapper command (e.g. strace ...)

	cmd   *exec.Cmd
	in    io.WriteCloser
	lines chan []byte
	done  chan struct{}

	Dead       bool
	ExitCode   int
	Signal     string
	Boot       *proto.Resp
	Timeout    time.Duration
	LastCmdLog string
}

func BinPath() string {
	if p := os.Getenv("OLBOX_BIN"); p != "" {
		return p
	}
	return "/verif/.build/olbox"
}

// Start boots a box on root. The returned boot response carries the ABCI
// calls made during the handshake (InitChain or replay).
func Start(name, root, keyring string, env []string, wrap []string) (*Box, error) {
	b := &Box{Name: name, Root: root, Bin: BinPath(), Keyring: keyring, Env: env, Wrap: wrap, Timeout: 180 * time.Second}
	for _, e := range env {
		if strings.HasPrefix(e, "OLBOX_BIN=") {
			b.Bin = strings.TrimPrefix(e, "OLBOX_BIN=")
			b.Timeout = 600 * time.Second
		}
	}
	return b, b.start()
}

func (b *Box) start() error {
	args := []string{"-root", b.Root, "-keys", b.Keyring}
	var cmd *exec.Cmd
	if len(b.Wrap) > 0 {
		all := append(append([]string{}, b.Wrap[1:]...), b.Bin)
		all = append(all, args...)
		cmd = exec.Command(b.Wrap[0], all...)
	} else {
		cmd = exec.Command(b.Bin, args...)
	}
	cmd.Env = append(os.Environ(), b.Env...)
	cmd.Dir = b.Root
	stdin, err := cmd.StdinPipe()
	if err != nil {
		return err
	}
	stdout, err := cmd.StdoutPipe()
	if err != nil {
		return err
	}
	errf, err := os.OpenFile(filepath.Join(b.Root, "box.stderr"), os.O_CREATE|os.O_WRONLY|os.O_APPEND, 0644)
	if err != nil {
		return err
	}
	cmd.Stderr = errf
	if err := cmd.Start(); err != nil {
		errf.Close()
		return err
	}
	errf.Close()
	b.cmd, b.in = cmd, stdin
	b.lines = make(chan []byte, 4)
	b.done = make(chan struct{})
	b.Dead = false
	go func() {
		br := bufio.NewReaderSize(stdout, 1<<20)
		for {
			line, err := br.ReadBytes('\n')
			if len(line) > 0 {
				b.lines <- line
			}
			if err != nil {
				break
			}
		}
		_ = cmd.Wait()
		close(b.done)
	}()
	resp, err := b.read()
	if err != nil {
		return err
	}
	if resp.Op == "fatal" {
		b.Kill()
		return fmt.Errorf("box %s fatal at boot: %s", b.Name, resp.Err)
	}
	b.Boot = resp
	return nil
}

func (b *Box) read() (*proto.Resp, error) {
	timer := time.NewTimer(b.Timeout)
	defer timer.Stop()
	select {
	case line := <-b.lines:
		var r proto.Resp
		if err := json.Unmarshal(line, &r); err != nil {
			return nil, fmt.Errorf("box %s: bad response %q: %v", b.Name, trunc(line), err)
		}
		return &r, nil
	case <-b.done:
		// drain a possibly buffered last line
		select {
		case line := <-b.lines:
			var r proto.Resp
			if err := json.Unmarshal(line, &r); err == nil {
				b.noteExit()
				return &r, nil
			}
		default:
		}
		b.noteExit()
		return nil, ErrDied
	case <-timer.C:
		b.Kill()
		return nil, ErrTimeout
	}
}

func trunc(b []byte) string {
	if len(b) > 200 {
		return string(b[:200]) + "..."
	}
	return string(b)
}

func (b *Box) noteExit() {
	b.Dead = true
	if b.cmd != nil && b.cmd.ProcessState != nil {
		ws, ok := b.cmd.ProcessState.Sys().(syscall.WaitStatus)
		if ok {
			if ws.Signaled() {
				b.Signal = ws.Signal().String()
				b.ExitCode = -1
			} else {
				b.ExitCode = ws.ExitStatus()
			}
		}
	}
}

// Do sends one command and waits for its answer.
func (b *Box) Do(c proto.Cmd) (*proto.Resp, error) {
	if b.Dead {
		return nil, ErrDied
	}
	bz, err := json.Marshal(c)
	if err != nil {
		return nil, err
	}
	bz = append(bz, '\n')
	if _, err := b.in.Write(bz); err != nil {
		// the process may have died; wait for the reader to notice
		select {
		case <-b.done:
			b.noteExit()
			return nil, ErrDied
		case <-time.After(5 * time.Second):
			return nil, err
		}
	}
	return b.read()
}

func (b *Box) Block(rc *proto.Recipe) (*proto.Resp, error) {
	return b.Do(proto.Cmd{Op: "block", Block: rc})
}

func (b *Box) Check(tx []byte) (*proto.Resp, error) {
	return b.Do(proto.Cmd{Op: "check", Tx: tx})
}

// Quit ends the process at a quiescent point (the data directory stays).
func (b *Box) Quit() {
	if b.Dead || b.cmd == nil {
		return
	}
	bz, _ := json.Marshal(proto.Cmd{Op: "quit"})
	_, _ = b.in.Write(append(bz, '\n'))
	select {
	case <-b.done:
	case <-time.After(10 * time.Second):
		_ = b.cmd.Process.Kill()
		<-b.done
	}
	b.noteExit()
}

func (b *Box) Kill() {
	if b.cmd == nil || b.cmd.Process == nil {
		return
	}
	_ = b.cmd.Process.Kill()
	select {
	case <-b.done:
	case <-time.After(10 * time.Second):
	}
	b.noteExit()
}

// Restart boots a new process on the same root directory (after a quit, a
// kill or a crash) through the production start-up path.
func (b *Box) Restart() error {
	if !b.Dead {
		b.Quit()
	}
	return b.start()
}

// PanicMarker scans the box log for the marker handlePanic prints.
func (b *Box) PanicMarker() bool {
	for _, f := range []string{"box.log", "box.stderr"} {
		bz, err := ioutil.ReadFile(filepath.Join(b.Root, f))
		if err == nil && (bytes.Contains(bz, []byte("panic in controller")) || bytes.Contains(bz, []byte("goroutine 1 ["))) {
			return true
		}
	}
	return false
}

// LogTail returns the last n bytes of the box's logs (diagnostics only).
func (b *Box) LogTail(n int) string {
	var sb strings.Builder
	for _, f := range []string{"box.log", "box.stderr"} {
		bz, err := ioutil.ReadFile(filepath.Join(b.Root, f))
		if err != nil {
			continue
		}
		if len(bz) > n {
			bz = bz[len(bz)-n:]
		}
		sb.WriteString("== " + f + "\n")
		sb.Write(bz)
	}
	return sb.String()
}

// CopyDir copies a node directory (fork by directory copy). The source box
// must be stopped.
func CopyDir(src, dst string) error {
	return filepath.Walk(src, func(path string, info os.FileInfo, err error) error {
		if err != nil {
			return err
		}
		rel, _ := filepath.Rel(src, path)
		target := filepath.Join(dst, rel)
		if info.IsDir() {
			return os.MkdirAll(target, 0755)
		}
		if !info.Mode().IsRegular() {
			return nil
		}
		if info.Name() == "LOCK" {
			return ioutil.WriteFile(target, nil, 0644)
		}
		in, err := os.Open(path)
		if err != nil {
			return err
		}
		defer in.Close()
		out, err := os.OpenFile(target, os.O_CREATE|os.O_WRONLY|os.O_TRUNC, info.Mode())
		if err != nil {
			return err
		}
		if _, err := io.Copy(out, in); err != nil {
			out.Close()
			return err
		}
		return out.Close()
	})
}

// RaceReports counts the data-race reports the race detector logged for this
// box (GORACE log_path=<root>/race.log) and returns the first report.
func (b *Box) RaceReports() (int, string) {
	matches, _ := filepath.Glob(filepath.Join(b.Root, "race.log*"))
	n := 0
	first := ""
	for _, m := range matches {
		bz, err := ioutil.ReadFile(m)
		if err != nil {
			continue
		}
		c := bytes.Count(bz, []byte("WARNING: DATA RACE"))
		if c > 0 && first == "" {
			i := bytes.Index(bz, []byte("WARNING: DATA RACE"))
			end := i + 3500
			if end > len(bz) {
				end = len(bz)
			}
			first = string(bz[i:end])
		}
		n += c
	}
	return n, first
}
