package evmdiff

import (
	"bytes"
	"encoding/hex"
	"fmt"
	"math/big"
	"strings"

	ethcmn "github.com/ethereum/go-ethereum/common"
	ethtypes "github.com/ethereum/go-ethereum/core/types"
	ethvm "github.com/ethereum/go-ethereum/core/vm"
	ethcrypto "github.com/ethereum/go-ethereum/crypto"
)

// IOp is one StateDB interface call (or a transaction / block boundary).
type IOp struct {
	Op   string   `json:"op"`
	A    int      `json:"a,omitempty"`    // address index
	K    int      `json:"k,omitempty"`    // slot index
	V    string   `json:"v,omitempty"`    // decimal amount / hex word / hex code
	N    uint64   `json:"n,omitempty"`    // nonce, refund, snapshot selector, topic count
	B    int      `json:"b,omitempty"`    // second address index (PrepareAccessList dst; -1 none)
	List []IALEnt `json:"list,omitempty"` // PrepareAccessList
}

type IALEnt struct {
	A     int   `json:"a"`
	Slots []int `json:"slots,omitempty"`
}

type IfaceCase struct {
	Layer      string `json:"layer"`                  // "iface"
	BlockPerTx bool   `json:"block_per_tx,omitempty"` // every EndTx also commits the block
	Ops        []IOp  `json:"ops"`
}

var ifaceAddrs = []ethcmn.Address{
	eoas[0], eoas[1], nativeOnly, nonexistent1, nonexistent2,
	ethcmn.BytesToAddress([]byte{3}), // ripemd: the special-cased precompile
	ethcmn.HexToAddress("0xc0de000000000000000000000000000000000001"),
}

func ifaceSlot(i int) ethcmn.Hash {
	return ethcmn.BigToHash(big.NewInt(int64(i % 4)))
}

func hexWord(s string) ethcmn.Hash {
	return ethcmn.HexToHash(s)
}

var stateChanging = map[string]bool{
	"CreateAccount": true, "AddBalance": true, "SubBalance": true, "SetNonce": true, "SetCode": true,
	"SetState": true, "Suicide": true, "AddRefund": true, "SubRefund": true, "AddLog": true,
	"AddAddressToAccessList": true, "AddSlotToAccessList": true, "PrepareAccessList": true, "RevertToSnapshot": true,
}

type IfaceOutcome struct {
	Div        *Divergence
	Diag       *Divergence
	HarnessErr string
	Counts     map[string]int
	Nontrivial bool
	Trace      []string
}

// RunIface executes an interface-level case on both sides, comparing the
// return value of every call, and the full state after every Finalise / block
// commit.
func RunIface(ic *IfaceCase, verbose bool) (out *IfaceOutcome) {
	out = &IfaceOutcome{Counts: map[string]int{}}
	defer func() {
		if p := recover(); p != nil {
			out.HarnessErr = fmt.Sprintf("harness/reference panic: %v", p)
		}
	}()
	g := DefaultGenesis()
	aw := NewAdapterWorld(g)
	rw := NewRefWorld(g)
	u := NewUniverse()
	for _, a := range ifaceAddrs {
		u.Addr(a)
	}
	for _, f := range g.Funded {
		u.Addr(f.address())
	}
	h := NewHistory()
	var ad ethvm.StateDB = aw.DB
	txNo := 0
	inTx := false
	var thash ethcmn.Hash
	var snapsA, snapsR []int
	touched := map[ethcmn.Address]bool{}
	existedAtBegin := map[ethcmn.Address]bool{}
	changed := 0
	_ = changed

	begin := func() {
		if inTx {
			return
		}
		thash = ethcrypto.Keccak256Hash([]byte(fmt.Sprintf("iface-tx-%d", txNo)))
		txNo++
		aw.BeginTx(thash)
		rw.BeginTx(thash)
		inTx = true
		existedAtBegin = map[ethcmn.Address]bool{}
		for _, a := range u.Addrs() {
			if rw.DB.Exist(a) {
				existedAtBegin[a] = true
			}
		}
		snapsA, snapsR = nil, nil
		touched = map[ethcmn.Address]bool{}
	}
	touchedList := func() []ethcmn.Address {
		var l []ethcmn.Address
		for _, a := range u.Addrs() {
			if touched[a] {
				l = append(l, a)
			}
		}
		return l
	}
	setDiv := func(step int, d *Divergence) {
		d.Step = step
		if d.Diag {
			if out.Diag == nil {
				out.Diag = d
			}
			return
		}
		if out.Div == nil {
			out.Div = d
		}
	}

	endTx := func(step int, commitFollows bool) bool {
		if !inTx {
			return true
		}
		var errA error
		if d := safely("Finalise", func() { errA = aw.DB.Finalise(true) }); d != nil {
			setDiv(step, d)
			return false
		}
		rw.DB.Finalise(true)
		out.Counts["iface/Finalise"]++
		if errA != nil {
			cls := errClass(errA)
			ctx := contextForHint(h, aw, u, touchedList(), "Finalise", strings.Contains(cls, "tombstone"))
			setDiv(step, &Divergence{Rule: "error", Context: ctx, Trait: errorTrait(ctx, cls, "none"), What: fmt.Sprintf("Finalise(true): adapter error %v, reference has no error path", errA)})
			return false
		}
		logsA := aw.DB.GetTxLogs()
		logsR := rw.DB.GetLogs(thash, blockHashFor(aw.Header.Height))
		if d := compareLogs(logsA, logsR); d != "" {
			setDiv(step, &Divergence{Rule: "logs", Context: contextFor(h, aw, u, touchedList(), "AddLog"), Trait: logsTrait(d), What: "transaction logs: " + d})
			return false
		}
		if d := safely("end-tx", func() { aw.EndTx(true, 0) }); d != nil {
			setDiv(step, d)
			return false
		}
		rw.EndTx(true)
		inTx = false
		if ra, rr := aw.DB.GetRefund(), rw.DB.GetRefund(); ra != 0 || rr != 0 {
			setDiv(step, &Divergence{Rule: "final-state", Context: "Finalise", Trait: "refund-counter-not-reset", What: fmt.Sprintf("refund after Finalise: adapter=%d ref=%d", ra, rr)})
			return false
		}
		// naming history: what the reference destroyed in this tx
		for a := range h.DestroyedThisTx {
			if rw.DB.Exist(a) {
				delete(h.DestroyedThisTx, a) // the Suicide was reverted
			}
		}
		for a := range existedAtBegin {
			if !rw.DB.Exist(a) && !h.DestroyedThisTx[a] {
				h.EmptiedThisTx[a] = true
			}
		}
		if !commitFollows {
			if d := compareState(aw, rw, u, h, fmt.Sprintf("Finalise of tx %d", txNo-1), out.Counts); d != nil {
				if d.Context == "plain" {
					d.Context = "Finalise"
				}
				setDiv(step, d)
				return false
			}
		}
		h.endTx()
		return true
	}
	endBlock := func(step int) bool {
		if !endTx(step, true) {
			return false
		}
		if d := safely("block-commit", func() { aw.EndBlock() }); d != nil {
			setDiv(step, d)
			return false
		}
		rw.EndBlock()
		h.endBlock()
		out.Counts["block/commits"]++
		if d := compareState(aw, rw, u, h, "block commit", out.Counts); d != nil {
			if d.Context == "plain" {
				d.Context = "block-commit"
			}
			setDiv(step, d)
			return false
		}
		return true
	}

	for i, op := range ic.Ops {
		a := ifaceAddrs[((op.A%len(ifaceAddrs))+len(ifaceAddrs))%len(ifaceAddrs)]
		k := ifaceSlot(op.K)
		var retA, retR string
		skip := false
		if op.Op == "EndTx" && ic.BlockPerTx {
			op.Op = "EndBlock"
		}
		if verbose && (op.Op == "EndTx" || op.Op == "EndBlock") {
			out.Trace = append(out.Trace, fmt.Sprintf("%3d %-24s (Finalise(true) on both sides; adapter tx session commit%s)", i, op.Op, map[bool]string{true: "; Reset + State.Commit + new block", false: ""}[op.Op == "EndBlock"]))
		}
		if op.Op == "EndTx" {
			if !endTx(i, false) {
				return out
			}
			continue
		}
		if op.Op == "EndBlock" {
			if !endBlock(i) {
				return out
			}
			continue
		}
		begin()
		touched[a] = true
		rf := rw.DB
		amount := func() *big.Int {
			n, ok := new(big.Int).SetString(op.V, 10)
			if !ok {
				return new(big.Int)
			}
			return n
		}
		crash := safely(op.Op, func() {
			switch op.Op {
			case "CreateAccount":
				// as evm.create uses it: CreateAccount then SetNonce(1). (A bare
				// CreateAccount over an existing account is never journalled as
				// dirty by go-ethereum and silently vanishes at its Commit.)
				if rf.Exist(a) {
					h.ResetThisTx[a] = true
				}
				ad.CreateAccount(a)
				rf.CreateAccount(a)
				ad.SetNonce(a, 1)
				rf.SetNonce(a, 1)
			case "AddBalance":
				ad.AddBalance(a, amount())
				rf.AddBalance(a, amount())
			case "SubBalance":
				// the EVM only subtracts what CanTransfer allowed
				ba, br := ad.GetBalance(a), rf.GetBalance(a)
				retA, retR = "balance="+ba.String(), "balance="+br.String()
				if ba.Cmp(br) != 0 {
					return
				}
				v := amount()
				if v.Cmp(br) > 0 {
					v = new(big.Int).Set(br)
				}
				ad.SubBalance(a, v)
				rf.SubBalance(a, v)
			case "SetNonce":
				ad.SetNonce(a, op.N)
				rf.SetNonce(a, op.N)
			case "SetCode":
				code, _ := hex.DecodeString(op.V)
				ad.SetCode(a, code)
				rf.SetCode(a, code)
			case "SetState":
				u.Slot(a, k)
				ad.SetState(a, k, hexWord(op.V))
				rf.SetState(a, k, hexWord(op.V))
			case "GetState":
				u.Slot(a, k)
				retA, retR = shortHash(ad.GetState(a, k)), shortHash(rf.GetState(a, k))
			case "GetCommittedState":
				u.Slot(a, k)
				retA, retR = shortHash(ad.GetCommittedState(a, k)), shortHash(rf.GetCommittedState(a, k))
			case "GetBalance":
				retA, retR = ad.GetBalance(a).String(), rf.GetBalance(a).String()
			case "GetNonce":
				retA, retR = fmt.Sprint(ad.GetNonce(a)), fmt.Sprint(rf.GetNonce(a))
			case "GetCode":
				retA, retR = hex.EncodeToString(ad.GetCode(a)), hex.EncodeToString(rf.GetCode(a))
			case "GetCodeHash":
				retA, retR = ad.GetCodeHash(a).Hex(), rf.GetCodeHash(a).Hex()
			case "GetCodeSize":
				retA, retR = fmt.Sprint(ad.GetCodeSize(a)), fmt.Sprint(rf.GetCodeSize(a))
			case "Exist":
				retA, retR = fmt.Sprint(ad.Exist(a)), fmt.Sprint(rf.Exist(a))
			case "Empty":
				retA, retR = fmt.Sprint(ad.Empty(a)), fmt.Sprint(rf.Empty(a))
			case "Suicide":
				retA, retR = fmt.Sprint(ad.Suicide(a)), fmt.Sprint(rf.Suicide(a))
				if retR == "true" {
					h.DestroyedThisTx[a] = true
				}
			case "HasSuicided":
				retA, retR = fmt.Sprint(ad.HasSuicided(a)), fmt.Sprint(rf.HasSuicided(a))
			case "AddRefund":
				ad.AddRefund(op.N)
				rf.AddRefund(op.N)
			case "SubRefund":
				ra, rr := ad.GetRefund(), rf.GetRefund()
				retA, retR = fmt.Sprint("refund=", ra), fmt.Sprint("refund=", rr)
				if ra != rr {
					return
				}
				n := op.N
				if n > rr {
					n = rr
				}
				ad.SubRefund(n)
				rf.SubRefund(n)
			case "GetRefund":
				retA, retR = fmt.Sprint(ad.GetRefund()), fmt.Sprint(rf.GetRefund())
			case "AddLog":
				mk := func() *ethtypes.Log {
					l := &ethtypes.Log{Address: a, Data: []byte(op.V)}
					for t := 0; t < int(op.N%5); t++ {
						l.Topics = append(l.Topics, ethcmn.BigToHash(big.NewInt(int64(0xa0+t))))
					}
					return l
				}
				ad.AddLog(mk())
				rf.AddLog(mk())
			case "AddressInAccessList":
				retA, retR = fmt.Sprint(ad.AddressInAccessList(a)), fmt.Sprint(rf.AddressInAccessList(a))
			case "SlotInAccessList":
				a1, a2 := ad.SlotInAccessList(a, k)
				r1, r2 := rf.SlotInAccessList(a, k)
				retA, retR = fmt.Sprint(a1, a2), fmt.Sprint(r1, r2)
			case "AddAddressToAccessList":
				ad.AddAddressToAccessList(a)
				rf.AddAddressToAccessList(a)
			case "AddSlotToAccessList":
				ad.AddSlotToAccessList(a, k)
				rf.AddSlotToAccessList(a, k)
			case "PrepareAccessList":
				var dst *ethcmn.Address
				if op.B >= 0 {
					d := ifaceAddrs[op.B%len(ifaceAddrs)]
					dst = &d
				}
				var list ethtypes.AccessList
				for _, e := range op.List {
					t := ethtypes.AccessTuple{Address: ifaceAddrs[e.A%len(ifaceAddrs)]}
					for _, s := range e.Slots {
						t.StorageKeys = append(t.StorageKeys, ifaceSlot(s))
					}
					list = append(list, t)
				}
				ad.PrepareAccessList(a, dst, precompiles, list)
				rf.PrepareAccessList(a, dst, precompiles, list)
			case "Snapshot":
				snapsA = append(snapsA, ad.Snapshot())
				snapsR = append(snapsR, rf.Snapshot())
			case "RevertToSnapshot":
				if len(snapsR) == 0 {
					skip = true
					return
				}
				idx := int(op.N % uint64(len(snapsR)))
				ad.RevertToSnapshot(snapsA[idx])
				rf.RevertToSnapshot(snapsR[idx])
				snapsA, snapsR = snapsA[:idx], snapsR[:idx]
				h.RevertedThisTx = true
			default:
				panic("harness: unknown op " + op.Op)
			}
		})
		if verbose {
			out.Trace = append(out.Trace, fmt.Sprintf("%3d %-24s addr=%s slot=%d v=%q n=%d  adapter=%q reference=%q", i, op.Op, a.Hex(), op.K%4, op.V, op.N, retA, retR))
		}
		if crash != nil {
			setDiv(i, crash)
			return out
		}
		if skip {
			continue
		}
		out.Counts["iface/"+op.Op]++
		out.Counts["cmp/return-values"]++
		if stateChanging[op.Op] {
			changed++
			out.Nontrivial = true
		}
		if retA != retR {
			switch op.Op {
			case "Exist", "GetCodeHash", "Suicide", "HasSuicided":
				// existent-but-empty vs. non-existent: go-ethereum itself keeps
				// an empty object alive when it is re-created after a deletion
				// without any journalled change; not observable through the
				// EVM after EIP-161 and not arbitrated by the property text
				if emptyBoth := func() (b bool) {
					defer func() { recover() }()
					return ad.Empty(a) && rf.Empty(a)
				}(); emptyBoth {
					setDiv(i, &Divergence{Diag: true, Rule: "return-value", Context: op.Op, Trait: "existence-of-empty-account",
						What: fmt.Sprintf("op %d %s(%s) returned adapter=%q reference=%q while the account is empty on both sides", i, op.Op, a.Hex(), retA, retR)})
					return out
				}
			}
			fb := op.Op
			if h.RevertedThisTx {
				fb = op.Op + "-after-revert"
			}
			ctx := contextFor(h, aw, u, []ethcmn.Address{a}, fb)
			trait := "values-differ"
			switch op.Op {
			case "GetState", "GetCommittedState":
				trait = storageTrait(hexWord(retA), hexWord(retR))
				if strings.Contains(trait, "tombstone-bytes") {
					ctx = "slot-cleared-same-block"
				}
			case "Exist", "Empty", "HasSuicided", "Suicide", "AddressInAccessList":
				trait = "adapter-" + retA + "-ref-" + retR
			case "GetBalance", "SubBalance":
				trait = "balance-differs"
			case "GetCode", "GetCodeSize", "GetCodeHash":
				if retA == "" || retA == "0" || bytes.Equal(ethcmn.FromHex(retA), make([]byte, 32)) {
					trait = "adapter-lacks-code"
				} else {
					trait = "code-differs"
				}
			}
			setDiv(i, &Divergence{Rule: "return-value", Context: ctx, Trait: trait,
				What: fmt.Sprintf("op %d %s(%s, slot %d) returned adapter=%q reference=%q", i, op.Op, a.Hex(), op.K%4, retA, retR)})
			return out
		}
	}
	if !endBlock(len(ic.Ops)) {
		return out
	}
	return out
}
