// Package evmdiff decides property C16: the chain's EVM state adapter
// (vm.CommitStateDB over the native balance / keeper / contract stores) is
// observationally equivalent to go-ethereum's own in-memory state.
//
// The two sides are driven by the same go-ethereum interpreter, the same chain
// config and an identical block context; the message-application rules used on
// the reference side are a line-for-line port of /repo/vm/state_transition.go.
// The only thing that differs between the two sides is the state implementation.
package evmdiff

import (
	"fmt"
	"io/ioutil"
	"math"
	"math/big"
	"time"

	"github.com/Oneledger/protocol/data/balance"
	"github.com/Oneledger/protocol/data/chain"
	"github.com/Oneledger/protocol/data/evm"
	"github.com/Oneledger/protocol/data/keys"
	ollog "github.com/Oneledger/protocol/log"
	"github.com/Oneledger/protocol/storage"
	olvm "github.com/Oneledger/protocol/vm"
	ethcmn "github.com/ethereum/go-ethereum/common"
	"github.com/ethereum/go-ethereum/core/rawdb"
	ethstate "github.com/ethereum/go-ethereum/core/state"
	abci "github.com/tendermint/tendermint/abci/types"
	tmdb "github.com/tendermint/tm-db"
)

const ChainID = "c16-chain"

// Genesis is the identical starting account set of both sides.
type Genesis struct {
	Funded []FundedAccount `json:"funded"`
}

type FundedAccount struct {
	Addr   string `json:"addr"`
	Amount string `json:"amount"` // decimal, smallest unit
}

func (f FundedAccount) address() ethcmn.Address { return ethcmn.HexToAddress(f.Addr) }
func (f FundedAccount) amount() *big.Int {
	n, ok := new(big.Int).SetString(f.Amount, 10)
	if !ok {
		panic("bad genesis amount " + f.Amount)
	}
	return n
}

// ---------------------------------------------------------------------------
// Adapter side: built and driven the way app.App does it.
// ---------------------------------------------------------------------------

type AdapterWorld struct {
	cs         *storage.ChainState
	deliver    *storage.State
	balances   *balance.Store
	currencies *balance.CurrencySet
	olt        balance.Currency
	contracts  *evm.ContractStore
	keeper     balance.AccountKeeper
	DB         *olvm.CommitStateDB
	logger     *ollog.Logger
	Header     *abci.Header
	inSession  bool
}

func oltCurrency() balance.Currency {
	return balance.Currency{Id: 0, Name: "OLT", Chain: chain.ONELEDGER, Decimal: 18, Unit: "nue"}
}

func newGasCalculator() storage.GasCalculator {
	// app.getGasCalculator with ConsensusParams.Block.MaxGas = -1 (tendermint default)
	return storage.NewGasCalculator(storage.Gas(math.MaxInt64))
}

func blockHashFor(height int64) ethcmn.Hash {
	return ethcmn.BytesToHash([]byte(fmt.Sprintf("c16-block-%d", height)))
}

var genesisTime = time.Unix(1700000000, 0).UTC()

func NewAdapterWorld(g Genesis) *AdapterWorld {
	db := tmdb.NewDB("c16", tmdb.MemDBBackend, "")
	w := &AdapterWorld{}
	w.cs = storage.NewChainState("chainstate", db)
	// same wiring as app/context.go: every store gets its own State over the
	// one ChainState and is re-pointed at the deliver state per transaction
	w.balances = balance.NewStore("b", storage.NewState(w.cs))
	w.currencies = balance.NewCurrencySet()
	w.olt = oltCurrency()
	if err := w.currencies.Register(w.olt); err != nil {
		panic(err)
	}
	w.contracts = evm.NewContractStore(storage.NewState(w.cs))
	w.keeper = balance.NewNesterAccountKeeper(storage.NewState(w.cs), w.balances, w.currencies)
	w.logger = ollog.NewLoggerWithPrefix(ioutil.Discard, "stateDB").WithLevel(ollog.Error)
	w.DB = olvm.NewCommitStateDB(w.contracts, w.keeper, w.logger)

	// genesis: balances.AddToAddress on the deliver state, then commit
	w.deliver = storage.NewState(w.cs).WithGas(newGasCalculator())
	bs := w.balances.WithState(w.deliver)
	for _, f := range g.Funded {
		coin := w.olt.NewCoinFromAmount(*balance.NewAmountFromBigInt(f.amount()))
		if err := bs.AddToAddress(keys.Address(f.address().Bytes()), coin); err != nil {
			panic(err)
		}
	}
	w.deliver.Commit()
	w.Header = &abci.Header{ChainID: ChainID, Height: 1, Time: genesisTime, ProposerAddress: ethcmn.HexToAddress("0xc0ffee0000000000000000000000000000000001").Bytes()}
	w.beginBlock()
	return w
}

// beginBlock mirrors app.blockBeginner: fresh deliver state with a fresh gas
// calculator, block hash set on the state db.
func (w *AdapterWorld) beginBlock() {
	w.deliver = storage.NewState(w.cs).WithGas(newGasCalculator())
	w.DB.SetBlockHash(blockHashFor(w.Header.Height))
	w.DB.WithState(w.deliver)
}

// BeginTx mirrors the head of app.txDeliverer + Context.Action.
func (w *AdapterWorld) BeginTx(thash ethcmn.Hash) {
	w.DB.Prepare(thash)
	w.deliver.BeginTxSession()
	w.inSession = true
	w.DB.WithState(w.deliver)
}

// EndTx mirrors the tail of app.txDeliverer: Finality, then commit or discard
// of the tx session. gasUsed is what ContractFeeHandling burns from the block
// gas calculator on success.
func (w *AdapterWorld) EndTx(ok bool, gasUsed uint64) {
	if ok {
		w.deliver.ConsumeContractGas(storage.Gas(gasUsed))
	}
	w.DB.Finality(nil)
	if !w.inSession {
		return
	}
	if ok {
		w.deliver.CommitTxSession()
	} else {
		w.deliver.DiscardTxSession()
	}
	w.inSession = false
}

// EndBlock mirrors blockEnder (stateDB.Reset) + commitor (deliver.Commit) +
// the next blockBeginner.
func (w *AdapterWorld) EndBlock() {
	w.DB.Reset()
	w.deliver.Commit()
	w.Header = &abci.Header{ChainID: ChainID, Height: w.Header.Height + 1, Time: w.Header.Time.Add(5 * time.Second), ProposerAddress: w.Header.ProposerAddress}
	w.beginBlock()
}

func (w *AdapterWorld) AvailableGas() uint64 { return w.DB.GetAvailableGas() }

// Observer returns a fresh CommitStateDB (own stores, empty caches) over the
// same deliver state: it reads what the next transaction would read without
// disturbing the object under test.
func (w *AdapterWorld) Observer() *olvm.CommitStateDB {
	bal := balance.NewStore("b", w.deliver)
	cs := evm.NewContractStore(w.deliver)
	k := balance.NewNesterAccountKeeper(w.deliver, bal, w.currencies)
	o := olvm.NewCommitStateDB(cs, k, w.logger)
	o.SetBlockHash(blockHashFor(w.Header.Height))
	return o
}

// NativeBalance reads the raw b_<addr>_OLT record through the balance store.
func (w *AdapterWorld) NativeBalance(a ethcmn.Address) (*big.Int, error) {
	bal := balance.NewStore("b", w.deliver)
	coin, err := bal.GetBalanceForCurr(keys.Address(a.Bytes()), &w.olt)
	if err != nil {
		return nil, err
	}
	if coin.Amount == nil {
		return new(big.Int), nil
	}
	return new(big.Int).Set(coin.Amount.BigInt()), nil
}

// ---------------------------------------------------------------------------
// Reference side: go-ethereum's StateDB over an in-memory database.
// ---------------------------------------------------------------------------

type RefWorld struct {
	sdb     ethstate.Database
	DB      *ethstate.StateDB
	txIndex int
	saved   *ethstate.StateDB
}

func NewRefWorld(g Genesis) *RefWorld {
	r := &RefWorld{sdb: ethstate.NewDatabase(rawdb.NewMemoryDatabase())}
	db, err := ethstate.New(ethcmn.Hash{}, r.sdb, nil)
	if err != nil {
		panic(err)
	}
	for _, f := range g.Funded {
		db.AddBalance(f.address(), f.amount())
	}
	root, err := db.Commit(true)
	if err != nil {
		panic(err)
	}
	r.DB, err = ethstate.New(root, r.sdb, nil)
	if err != nil {
		panic(err)
	}
	return r
}

func (r *RefWorld) BeginTx(thash ethcmn.Hash) {
	// what a discarded tx session is on the adapter side: the whole
	// transaction never happened
	r.saved = r.DB.Copy()
	r.DB.Prepare(thash, r.txIndex)
}

func (r *RefWorld) EndTx(ok bool) {
	if !ok {
		r.DB = r.saved
	} else {
		r.txIndex++
	}
	r.saved = nil
}

func (r *RefWorld) EndBlock() {
	root, err := r.DB.Commit(true)
	if err != nil {
		panic(fmt.Sprintf("reference commit: %v", err))
	}
	r.DB, err = ethstate.New(root, r.sdb, nil)
	if err != nil {
		panic(fmt.Sprintf("reference reopen: %v", err))
	}
	r.txIndex = 0
}
