package evmdiff

import (
	"fmt"
	"math/big"

	ethcmn "github.com/ethereum/go-ethereum/common"
	ethvm "github.com/ethereum/go-ethereum/core/vm"
)

// AddrExpr says where a program takes an address from.
type AddrExpr struct {
	K    string `json:"k"`             // self caller origin fixed ref slot arg
	Hex  string `json:"hex,omitempty"` // fixed
	Ref  int    `json:"ref,omitempty"` // id of the deploying tx
	Slot uint64 `json:"slot,omitempty"`
}

// Stmt is one stack-neutral statement. Everything a statement observes is
// appended to an output log in memory which RETURN/REVERT terminators hand
// back, so observations surface in the return data of the transaction.
type Stmt struct {
	K     string    `json:"k"`
	Slot  uint64    `json:"slot,omitempty"`
	Val   uint64    `json:"val,omitempty"`
	Big   bool      `json:"big,omitempty"` // value is 2^256-1-Val
	Addr  *AddrExpr `json:"addr,omitempty"`
	Arg   *AddrExpr `json:"arg,omitempty"`
	Sel   int       `json:"sel,omitempty"`
	Value uint64    `json:"value,omitempty"`
	Gas   uint64    `json:"gas,omitempty"` // 0: forward all
	Child *Contract `json:"child,omitempty"`
	Salt  uint64    `json:"salt,omitempty"`
	Store int       `json:"store,omitempty"` // slot+1 receiving a created address
	N     int       `json:"n,omitempty"`     // topics / lengths
	Len   int       `json:"len,omitempty"`
}

type Term struct {
	K    string    `json:"k"` // stop return revert invalid selfdestruct loop | ctor: deploy deploy-ef deploy-big
	Addr *AddrExpr `json:"addr,omitempty"`
}

type Section struct {
	Stmts []Stmt `json:"stmts,omitempty"`
	Term  Term   `json:"term"`
}

// Contract = constructor + runtime sections selected by the first calldata byte.
type Contract struct {
	Ctor Section   `json:"ctor"`
	Secs []Section `json:"secs,omitempty"`
}

const (
	memOutPtr   = 0x00
	memIn       = 0x20
	memCallOut  = 0x60
	memExtCopy  = 0xa0
	memOutBase  = 0x100
	memRetData  = 0x800
	memInitCode = 0x1000
)

type compiler struct {
	a     *Asm
	nlab  int
	datas []dataRegion
}

type dataRegion struct {
	label string
	segs  []Seg
}

func (c *compiler) fresh(prefix string) string {
	c.nlab++
	return fmt.Sprintf("%s%d", prefix, c.nlab)
}

func (c *compiler) emit() {
	// stack: v  ->  mem[0x100+p]=v ; p+=32
	c.a.Push(memOutPtr).Op(ethvm.MLOAD, ethvm.DUP1).Push(0x20).Op(ethvm.ADD).Push(memOutPtr).Op(ethvm.MSTORE)
	c.a.Push(memOutBase).Op(ethvm.ADD, ethvm.MSTORE)
}

func (c *compiler) pushAddr(e *AddrExpr) {
	if e == nil {
		c.a.Push(0)
		return
	}
	switch e.K {
	case "self":
		c.a.Op(ethvm.ADDRESS)
	case "caller":
		c.a.Op(ethvm.CALLER)
	case "origin":
		c.a.Op(ethvm.ORIGIN)
	case "fixed":
		c.a.PushAddr(ethcmn.HexToAddress(e.Hex))
	case "ref":
		c.a.PushRef(e.Ref)
	case "slot":
		c.a.Push(e.Slot).Op(ethvm.SLOAD)
	case "arg":
		c.a.Push(1).Op(ethvm.CALLDATALOAD)
	default:
		panic("bad addr expr " + e.K)
	}
}

func stmtValue(s Stmt) *big.Int {
	if s.Big {
		max := new(big.Int).Sub(new(big.Int).Lsh(big.NewInt(1), 256), big.NewInt(1))
		return max.Sub(max, new(big.Int).SetUint64(s.Val))
	}
	return new(big.Int).SetUint64(s.Val)
}

func (c *compiler) stmt(s Stmt) {
	a := c.a
	switch s.K {
	case "sstore":
		a.PushBig(stmtValue(s)).Push(s.Slot).Op(ethvm.SSTORE)
	case "sload":
		a.Push(s.Slot).Op(ethvm.SLOAD)
		c.emit()
	case "call", "callcode", "delegatecall", "staticcall":
		a.Push(uint64(s.Sel)).Push(memIn).Op(ethvm.MSTORE8)
		c.pushAddr(s.Arg)
		a.Push(memIn + 1).Op(ethvm.MSTORE)
		a.Push(0x40).Push(memCallOut).Push(0x21).Push(memIn)
		if s.K == "call" || s.K == "callcode" {
			a.Push(s.Value)
		}
		c.pushAddr(s.Addr)
		if s.Gas == 0 {
			a.Op(ethvm.GAS)
		} else {
			a.Push(s.Gas)
		}
		switch s.K {
		case "call":
			a.Op(ethvm.CALL)
		case "callcode":
			a.Op(ethvm.CALLCODE)
		case "delegatecall":
			a.Op(ethvm.DELEGATECALL)
		case "staticcall":
			a.Op(ethvm.STATICCALL)
		}
		c.emit()
		a.Op(ethvm.RETURNDATASIZE)
		c.emit()
		a.Op(ethvm.RETURNDATASIZE).Push(0).Push(memRetData).Op(ethvm.RETURNDATACOPY)
		a.Op(ethvm.RETURNDATASIZE).Push(memRetData).Op(ethvm.SHA3)
		c.emit()
	case "create", "create2":
		child := s.Child
		if child == nil {
			child = &Contract{}
		}
		lab := c.fresh("init")
		segs := CompileInit(child)
		c.datas = append(c.datas, dataRegion{lab, segs})
		size := uint64(segsSize(segs))
		a.Push(size).PushLabel(lab).Push(memInitCode).Op(ethvm.CODECOPY)
		if s.K == "create2" {
			a.Push(s.Salt)
		}
		a.Push(size).Push(memInitCode).Push(s.Value)
		if s.K == "create2" {
			a.Op(ethvm.CREATE2)
		} else {
			a.Op(ethvm.CREATE)
		}
		a.Op(ethvm.DUP1)
		c.emit()
		if s.Store > 0 {
			a.Push(uint64(s.Store - 1)).Op(ethvm.SSTORE)
		} else {
			a.Op(ethvm.POP)
		}
	case "log":
		n := s.N
		if n < 0 || n > 4 {
			n = 0
		}
		for i := n; i >= 1; i-- {
			a.Push(uint64(0xa0 + i))
		}
		a.Push(uint64(s.Len)).Push(memOutBase)
		a.Op(ethvm.LOG0 + ethvm.OpCode(n))
	case "balance":
		c.pushAddr(s.Addr)
		a.Op(ethvm.BALANCE)
		c.emit()
	case "selfbalance":
		a.Op(ethvm.SELFBALANCE)
		c.emit()
	case "extcodesize":
		c.pushAddr(s.Addr)
		a.Op(ethvm.EXTCODESIZE)
		c.emit()
	case "extcodehash":
		c.pushAddr(s.Addr)
		a.Op(ethvm.EXTCODEHASH)
		c.emit()
	case "extcodecopy":
		a.Push(0x40).Push(0).Push(memExtCopy)
		c.pushAddr(s.Addr)
		a.Op(ethvm.EXTCODECOPY)
		a.Push(memExtCopy).Op(ethvm.MLOAD)
		c.emit()
		a.Push(memExtCopy + 0x20).Op(ethvm.MLOAD)
		c.emit()
	case "retcopy":
		// explicit RETURNDATACOPY with generated bounds (may fault)
		a.Push(uint64(s.Len)).Push(s.Val).Push(memRetData).Op(ethvm.RETURNDATACOPY)
		a.Push(memRetData).Op(ethvm.MLOAD)
		c.emit()
	case "callvalue":
		a.Op(ethvm.CALLVALUE)
		c.emit()
	case "caller":
		a.Op(ethvm.CALLER)
		c.emit()
	default:
		panic("bad stmt " + s.K)
	}
}

func (c *compiler) term(t Term) {
	a := c.a
	switch t.K {
	case "", "stop":
		a.Op(ethvm.STOP)
	case "return":
		a.Push(memOutPtr).Op(ethvm.MLOAD).Push(memOutBase).Op(ethvm.RETURN)
	case "revert":
		a.Push(memOutPtr).Op(ethvm.MLOAD).Push(memOutBase).Op(ethvm.REVERT)
	case "invalid":
		a.Op(ethvm.OpCode(0xfe))
	case "selfdestruct":
		c.pushAddr(t.Addr)
		a.Op(ethvm.SELFDESTRUCT)
	case "loop":
		l := c.fresh("loop")
		a.Dest(l).Jump(l)
	default:
		panic("bad terminator " + t.K)
	}
}

func (c *compiler) flushData() {
	for i := 0; i < len(c.datas); i++ { // may grow while iterating: no, children compile separately
		c.a.Data(c.datas[i].label, c.datas[i].segs)
	}
}

// CompileRuntime compiles the runtime code of a contract.
func CompileRuntime(ct *Contract) []Seg {
	c := &compiler{a: NewAsm()}
	a := c.a
	if len(ct.Secs) == 0 {
		a.Op(ethvm.STOP)
		return a.Assemble()
	}
	a.Push(0).Op(ethvm.CALLDATALOAD).Push(0xf8).Op(ethvm.SHR)
	for i := 1; i < len(ct.Secs); i++ {
		a.Op(ethvm.DUP1).Push(uint64(i)).Op(ethvm.EQ).JumpI(fmt.Sprintf("sec%d", i))
	}
	a.Jump("sec0")
	for i, sec := range ct.Secs {
		a.Dest(fmt.Sprintf("sec%d", i)).Op(ethvm.POP)
		for _, s := range sec.Stmts {
			c.stmt(s)
		}
		c.term(sec.Term)
	}
	c.flushData()
	return a.Assemble()
}

// CompileInit compiles the init code: constructor statements, then deploy the
// runtime code (or whatever the constructor terminator says).
func CompileInit(ct *Contract) []Seg {
	c := &compiler{a: NewAsm()}
	a := c.a
	for _, s := range ct.Ctor.Stmts {
		c.stmt(s)
	}
	switch ct.Ctor.Term.K {
	case "", "deploy":
		rt := CompileRuntime(ct)
		size := uint64(segsSize(rt))
		a.Push(size).PushLabel("runtime").Push(memInitCode).Op(ethvm.CODECOPY)
		a.Push(size).Push(memInitCode).Op(ethvm.RETURN)
		c.flushData()
		a.Data("runtime", rt)
		return a.Assemble()
	case "deploy-ef":
		a.Push(0xef).Push(0).Op(ethvm.MSTORE8).Push(1).Push(0).Op(ethvm.RETURN)
	case "deploy-big":
		a.Push(0x6001).Push(0).Op(ethvm.RETURN)
	default:
		c.term(ct.Ctor.Term)
	}
	c.flushData()
	return a.Assemble()
}
