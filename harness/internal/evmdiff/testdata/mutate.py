import sys
name=sys.argv[1]; root=sys.argv[2]
def patch(p, old, new):
    p=root+'/'+p
    s=open(p).read()
    assert s.count(old)==1, (p, old[:60], s.count(old))
    open(p,'w').write(s.replace(old,new))
if name=='M1-drop-storage-journal':
    patch('vm/state_objects.go','''	so.stateDB.journal.append(storageChange{
		account:   &so.address,
		key:       prefixKey,
		prevValue: prev,
	})
	so.setState(prefixKey, value)''','''	so.setState(prefixKey, value)''')
elif name=='M2-drop-refund-journal':
    patch('vm/statedb.go','''func (s *CommitStateDB) AddRefund(gas uint64) {
	s.journal.append(refundChange{prev: s.refund})''','''func (s *CommitStateDB) AddRefund(gas uint64) {''')
elif name=='M3-keep-object-cache-in-finalise':
    patch('vm/statedb.go','''		s.stateObjects = make([]stateEntry, 0)
		s.addressToObjectIndex = make(map[ethcmn.Address]int)
		s.stateObjectsDirty = make(map[ethcmn.Address]struct{})
		// invalidate journal''','''		// invalidate journal''')
elif name=='M4-committed-state-returns-dirty':
    patch('vm/state_objects.go','''	prefixKey := so.GetStorageByAddressKey(key.Bytes())

	// if we have the original value cached, return that''','''	prefixKey := so.GetStorageByAddressKey(key.Bytes())
	if idx, dirty := so.keyToDirtyStorageIndex[prefixKey]; dirty {
		return ethcmn.HexToHash(so.dirtyStorage[idx].Value)
	}

	// if we have the original value cached, return that''')
elif name=='M5-drop-suicide-journal':
    patch('vm/statedb.go','''	s.journal.append(suicideChange{
		account:     &addr,
		prev:        so.suicided,
		prevBalance: new(big.Int).Set(so.Balance()),
	})

	so.markSuicided()''','''	so.markSuicided()''')
elif name=='M6-access-list-not-reset-per-tx':
    patch('vm/statedb.go','''	s.thash = thash
	// refreshing it
	s.accessList = newAccessList()''','''	s.thash = thash''')
else:
    raise SystemExit('unknown mutation')
