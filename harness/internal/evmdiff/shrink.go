package evmdiff

import (
	"encoding/json"
)

func cloneProg(pc *ProgCase) *ProgCase {
	bz, _ := json.Marshal(pc)
	out := &ProgCase{}
	_ = json.Unmarshal(bz, out)
	return out
}

func cloneIface(ic *IfaceCase) *IfaceCase {
	out := &IfaceCase{Layer: ic.Layer, BlockPerTx: ic.BlockPerTx, Ops: append([]IOp(nil), ic.Ops...)}
	return out
}

// ShrinkIface greedily drops operations while the same signature still fires.
func ShrinkIface(ic *IfaceCase, sig string, budget int) (*IfaceCase, int) {
	runs := 0
	fires := func(c *IfaceCase) bool {
		runs++
		o := RunIface(c, false)
		return o.Div != nil && o.Div.Signature() == sig
	}
	cur := cloneIface(ic)
	// cut everything after the divergence step first
	if o := RunIface(cur, false); o.Div != nil && o.Div.Step+1 < len(cur.Ops) {
		cand := &IfaceCase{Layer: cur.Layer, BlockPerTx: cur.BlockPerTx, Ops: append([]IOp(nil), cur.Ops[:o.Div.Step+1]...)}
		if fires(cand) {
			cur = cand
		}
	}
	for chunk := len(cur.Ops) / 2; chunk >= 1; chunk /= 2 {
		for i := 0; i+chunk <= len(cur.Ops) && runs < budget; {
			cand := &IfaceCase{Layer: cur.Layer, BlockPerTx: cur.BlockPerTx}
			cand.Ops = append(cand.Ops, cur.Ops[:i]...)
			cand.Ops = append(cand.Ops, cur.Ops[i+chunk:]...)
			if fires(cand) {
				cur = cand
			} else {
				i++
			}
		}
	}
	// one more single-op pass to reach a 1-minimal witness
	for changed := true; changed && runs < budget; {
		changed = false
		for i := 0; i < len(cur.Ops) && runs < budget; i++ {
			cand := &IfaceCase{Layer: cur.Layer, BlockPerTx: cur.BlockPerTx}
			cand.Ops = append(cand.Ops, cur.Ops[:i]...)
			cand.Ops = append(cand.Ops, cur.Ops[i+1:]...)
			if fires(cand) {
				cur = cand
				changed = true
				i--
			}
		}
	}
	return cur, runs
}

// sectionsOf enumerates every section (constructors, runtime sections, nested
// children) of a contract.
func sectionsOf(c *Contract, visit func(*Section)) {
	if c == nil {
		return
	}
	visit(&c.Ctor)
	for i := range c.Secs {
		visit(&c.Secs[i])
	}
	all := func(sec *Section) {
		for i := range sec.Stmts {
			if sec.Stmts[i].Child != nil {
				sectionsOf(sec.Stmts[i].Child, visit)
			}
		}
	}
	all(&c.Ctor)
	for i := range c.Secs {
		all(&c.Secs[i])
	}
}

// ShrinkProg drops transactions, then statements, then decorations, while the
// same signature still fires.
func ShrinkProg(pc *ProgCase, sig string, budget int) (*ProgCase, int) {
	runs := 0
	fires := func(c *ProgCase) bool {
		runs++
		o := RunProg(c)
		return o.Div != nil && o.Div.Signature() == sig
	}
	cur := cloneProg(pc)
	if o := RunProg(cur); o.Div != nil && o.Div.Step+1 < len(cur.Txs) {
		cand := cloneProg(cur)
		cand.Txs = cand.Txs[:o.Div.Step+1]
		if fires(cand) {
			cur = cand
		}
	}
	// drop transactions
	for changed := true; changed && runs < budget; {
		changed = false
		for i := len(cur.Txs) - 1; i >= 0 && runs < budget; i-- {
			if len(cur.Txs) == 1 {
				break
			}
			cand := cloneProg(cur)
			cand.Txs = append(cand.Txs[:i], cand.Txs[i+1:]...)
			if fires(cand) {
				cur = cand
				changed = true
			}
		}
	}
	// drop statements
	for changed := true; changed && runs < budget; {
		changed = false
		for ti := range cur.Txs {
			if cur.Txs[ti].Deploy == nil {
				continue
			}
			// count sections
			nsec := 0
			sectionsOf(cur.Txs[ti].Deploy, func(*Section) { nsec++ })
			for si := 0; si < nsec && runs < budget; si++ {
				for {
					var target *Section
					n := 0
					sectionsOf(cur.Txs[ti].Deploy, func(s *Section) {
						if n == si {
							target = s
						}
						n++
					})
					if target == nil || len(target.Stmts) == 0 {
						break
					}
					removed := false
					for k := len(target.Stmts) - 1; k >= 0 && runs < budget; k-- {
						cand := cloneProg(cur)
						var ct *Section
						n := 0
						sectionsOf(cand.Txs[ti].Deploy, func(s *Section) {
							if n == si {
								ct = s
							}
							n++
						})
						if ct == nil || k >= len(ct.Stmts) {
							continue
						}
						ct.Stmts = append(ct.Stmts[:k], ct.Stmts[k+1:]...)
						if fires(cand) {
							cur = cand
							removed = true
							changed = true
							break
						}
					}
					if !removed {
						break
					}
				}
			}
		}
	}
	// drop decorations
	for ti := range cur.Txs {
		tries := []func(*TxSpec){
			func(t *TxSpec) { t.AL = nil },
			func(t *TxSpec) { t.Value = "" },
			func(t *TxSpec) { t.NonceDelta = 0 },
			func(t *TxSpec) { t.Arg = nil },
			func(t *TxSpec) { t.GasPrice = 1_000_000_000 },
		}
		for _, f := range tries {
			if runs >= budget {
				break
			}
			cand := cloneProg(cur)
			before, _ := json.Marshal(cand.Txs[ti])
			f(&cand.Txs[ti])
			after, _ := json.Marshal(cand.Txs[ti])
			if string(before) == string(after) {
				continue
			}
			if fires(cand) {
				cur = cand
			}
		}
	}
	return cur, runs
}
