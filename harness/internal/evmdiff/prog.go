package evmdiff

import (
	"bytes"
	"encoding/hex"
	"fmt"
	"math/big"
	"sort"
	"strings"

	"github.com/Oneledger/protocol/utils"
	ethcmn "github.com/ethereum/go-ethereum/common"
	ethtypes "github.com/ethereum/go-ethereum/core/types"
	ethcrypto "github.com/ethereum/go-ethereum/crypto"
)

func storageKeyOf(a ethcmn.Address, k ethcmn.Hash) ethcmn.Hash {
	return utils.GetStorageByAddressKey(a, k.Bytes())
}

// Fixed cast of both layers.
var (
	eoas = []ethcmn.Address{
		ethcmn.HexToAddress("0xe0a0000000000000000000000000000000000001"),
		ethcmn.HexToAddress("0xe0a0000000000000000000000000000000000002"),
		ethcmn.HexToAddress("0xe0a0000000000000000000000000000000000003"),
	}
	nativeOnly   = ethcmn.HexToAddress("0x1e9ac10000000000000000000000000000000004") // funded at genesis, never sends
	nonexistent1 = ethcmn.HexToAddress("0x0000000000000000000000000000000000a11ce1")
	nonexistent2 = ethcmn.HexToAddress("0x0000000000000000000000000000000000a11ce2")
	precompiles  = []ethcmn.Address{
		ethcmn.BytesToAddress([]byte{1}), ethcmn.BytesToAddress([]byte{2}),
		ethcmn.BytesToAddress([]byte{3}), ethcmn.BytesToAddress([]byte{4}),
	}
)

func DefaultGenesis() Genesis {
	g := Genesis{}
	for _, a := range eoas {
		g.Funded = append(g.Funded, FundedAccount{Addr: a.Hex(), Amount: "1000000000000000000000"}) // 1000 OLT
	}
	g.Funded = append(g.Funded, FundedAccount{Addr: nativeOnly.Hex(), Amount: "5000000000000000000"})
	return g
}

type ALSpec struct {
	Addr  AddrExpr `json:"addr"`
	Slots []uint64 `json:"slots,omitempty"`
}

// TxSpec is one transaction of a program case.
type TxSpec struct {
	ID         int       `json:"id"` // 1-based, stable under shrinking
	From       int       `json:"from"`
	Deploy     *Contract `json:"deploy,omitempty"`
	RawInit    string    `json:"raw_init,omitempty"`
	To         *AddrExpr `json:"to,omitempty"`
	Sel        int       `json:"sel,omitempty"`
	Arg        *AddrExpr `json:"arg,omitempty"`
	RawData    string    `json:"raw_data,omitempty"`
	Value      string    `json:"value,omitempty"`
	Gas        uint64    `json:"gas"`
	GasPrice   uint64    `json:"gas_price"`
	NonceDelta int       `json:"nonce_delta,omitempty"`
	AL         []ALSpec  `json:"access_list,omitempty"`
	EndBlock   bool      `json:"end_block,omitempty"`
	Note       string    `json:"note,omitempty"`
}

type ProgCase struct {
	Layer string   `json:"layer"` // "prog"
	Tmpl  string   `json:"template"`
	Txs   []TxSpec `json:"txs"`
}

type TxReport struct {
	ID       int      `json:"id"`
	To       string   `json:"to"`
	Data     string   `json:"data"`
	Created  string   `json:"created,omitempty"`
	Adapter  string   `json:"adapter"`
	Ref      string   `json:"reference"`
	GasUsed  uint64   `json:"ref_gas_used"`
	Boundary []uint64 `json:"-"`
}

type ProgOutcome struct {
	Div        *Divergence
	Diag       *Divergence
	HarnessErr string
	Counts     map[string]int
	Nontrivial bool
	Txs        []TxReport
}

func resolveFixed(e *AddrExpr, deployed map[int]ethcmn.Address) ethcmn.Address {
	if e == nil {
		return ethcmn.Address{}
	}
	switch e.K {
	case "fixed":
		return ethcmn.HexToAddress(e.Hex)
	case "ref":
		if a, ok := deployed[e.Ref]; ok {
			return a
		}
		return missingRefAddr
	}
	return missingRefAddr
}

func fmtResult(res *Result, err error, logs []*ethtypes.Log) string {
	if err != nil {
		return "consensus-error: " + err.Error()
	}
	if res == nil {
		return "nil result"
	}
	s := fmt.Sprintf("gasUsed=%d vmerr=%q ret=%x", res.UsedGas, vmErrString(res.Err), res.ReturnData)
	if res.ContractAddress != (ethcmn.Address{}) {
		s += " contract=" + res.ContractAddress.Hex()
	}
	s += fmt.Sprintf(" logs=%d", len(logs))
	return s
}

func txFallbackContext(pc *ProgCase, tx *TxSpec, tr *covTracer) string {
	c := tr.counts
	switch {
	case c["op/selfdestruct"] > 0:
		return "selfdestruct-op"
	case c["op/create2"] > 0:
		return "create2"
	case c["op/create"] > 0 || tx.Deploy != nil || tx.RawInit != "":
		return "create"
	case c["op/delegatecall"] > 0:
		return "delegatecall"
	case c["op/callcode"] > 0:
		return "callcode"
	case c["op/staticcall"] > 0:
		return "staticcall"
	case c["op/call"] > 0:
		return "call"
	case c["op/sstore"] > 0:
		return "sstore"
	case c["op/sload"] > 0:
		return "sload"
	case c["op/log"] > 0:
		return "log"
	case tr.ops == 0:
		return "plain-transfer"
	}
	return "other-code"
}

// RunProg executes a program case on both sides and stops at the first
// divergence. It never panics because of the adapter: adapter panics are
// divergences (rule crash).
func RunProg(pc *ProgCase) (out *ProgOutcome) {
	out = &ProgOutcome{Counts: map[string]int{}}
	defer func() {
		if p := recover(); p != nil {
			out.HarnessErr = fmt.Sprintf("harness/reference panic: %v", p)
		}
	}()
	g := DefaultGenesis()
	aw := NewAdapterWorld(g)
	rw := NewRefWorld(g)
	u := NewUniverse()
	for _, f := range g.Funded {
		u.Addr(f.address())
	}
	u.Addr(nonexistent1)
	u.Addr(ethcmn.BytesToAddress(aw.Header.ProposerAddress))
	h := NewHistory()
	rec := newRecState(rw, u)
	deployed := map[int]ethcmn.Address{}
	caseSalt := ethcrypto.Keccak256([]byte(pc.Tmpl))

	fail := func(step int, d *Divergence) *ProgOutcome {
		d.Step = step
		if d.Diag {
			// the case ends here, as a diagnostic only
			out.Diag = d
			return out
		}
		out.Div = d
		return out
	}

	for i := range pc.Txs {
		tx := &pc.Txs[i]
		from := eoas[tx.From%len(eoas)]
		var to *ethcmn.Address
		var data []byte
		switch {
		case tx.Deploy != nil:
			data = Resolve(CompileInit(tx.Deploy), deployed)
		case tx.RawInit != "":
			data, _ = hex.DecodeString(tx.RawInit)
		default:
			t := resolveFixed(tx.To, deployed)
			to = &t
			if tx.RawData != "" {
				data, _ = hex.DecodeString(tx.RawData)
			} else if tx.Sel >= 0 {
				data = append([]byte{byte(tx.Sel)}, ethcmn.LeftPadBytes(resolveFixed(tx.Arg, deployed).Bytes(), 32)...)
				if tx.Arg == nil {
					data = []byte{byte(tx.Sel)}
				}
			}
		}
		value := new(big.Int)
		if tx.Value != "" {
			value.SetString(tx.Value, 10)
		}
		var al ethtypes.AccessList
		for _, e := range tx.AL {
			t := ethtypes.AccessTuple{Address: resolveFixed(&e.Addr, deployed)}
			for _, s := range e.Slots {
				t.StorageKeys = append(t.StorageKeys, ethcmn.BigToHash(new(big.Int).SetUint64(s)))
			}
			al = append(al, t)
		}
		stNonce := rw.DB.GetNonce(from)
		nonce := stNonce
		if tx.NonceDelta < 0 && stNonce > 0 {
			nonce = stNonce - 1
		} else if tx.NonceDelta > 0 {
			nonce = stNonce + uint64(tx.NonceDelta)
		}
		msg := &Msg{From: from, To: to, Nonce: nonce, Value: value, Gas: tx.Gas, GasPrice: new(big.Int).SetUint64(tx.GasPrice), Data: data, AccessList: al}
		if to == nil {
			deployed[tx.ID] = ethcrypto.CreateAddress(from, stNonce)
			u.Addr(deployed[tx.ID])
		} else {
			u.Addr(*to)
		}
		env := BlockEnv{Coinbase: ethcmn.BytesToAddress(aw.Header.ProposerAddress), GasPool: aw.AvailableGas(), Height: aw.Header.Height, Time: aw.Header.Time.Unix()}
		thash := ethcrypto.Keccak256Hash(caseSalt, []byte(fmt.Sprintf("tx-%d-%d", i, tx.ID)))

		rep := TxReport{ID: tx.ID, Data: hex.EncodeToString(data)}
		if to != nil {
			rep.To = to.Hex()
		} else {
			rep.Created = deployed[tx.ID].Hex()
		}

		existedAtBegin := map[ethcmn.Address]bool{}
		for _, a := range u.Addrs() {
			if rw.DB.Exist(a) {
				existedAtBegin[a] = true
			}
		}
		aw.BeginTx(thash)
		rw.BeginTx(thash)
		rec.resetTx()
		tracer := newCovTracer()
		tracer.txGas = tx.Gas

		// adapter side
		var resA *Result
		var errA error
		var logsA []*ethtypes.Log
		crash := func() (d *Divergence) {
			defer func() {
				if p := recover(); p != nil {
					d = &Divergence{Rule: "crash", Context: panicWhere("apply"), Trait: panicTrait(p), What: fmt.Sprintf("adapter panicked applying tx %d: %v", tx.ID, p)}
				}
			}()
			resA, errA = ApplyAdapter(aw, env, msg)
			logsA = aw.DB.GetTxLogs()
			return nil
		}()

		// reference side
		resR, errR := ApplyRef(rec, env, msg, tracer)
		logsR := rw.DB.GetLogs(thash, blockHashFor(aw.Header.Height))

		for k, v := range tracer.counts {
			out.Counts[k] += v
		}
		out.Counts["tx/total"]++
		if tracer.ops > 0 {
			out.Counts["tx/ran-code"]++
		}
		if resR != nil && resR.Err != nil {
			out.Counts["tx/vm-error"]++
			if resR.Err.Error() == "execution reverted" {
				out.Counts["tx/reverted"]++
			}
			if resR.Err.Error() == "out of gas" || strings.Contains(resR.Err.Error(), "out of gas") {
				out.Counts["tx/out-of-gas"]++
			}
		}
		if errR != nil {
			out.Counts["tx/consensus-error"]++
		}
		if len(al) > 0 {
			out.Counts["tx/with-access-list"]++
		}
		if to == nil {
			out.Counts["tx/creation"]++
		}
		rep.Ref = fmtResult(resR, errR, logsR)
		if resR != nil {
			rep.GasUsed = resR.UsedGas
			rep.Boundary = tracer.bound
		}
		if crash != nil {
			rep.Adapter = crash.What
		} else {
			rep.Adapter = fmtResult(resA, errA, logsA)
		}
		out.Txs = append(out.Txs, rep)

		// history for naming
		touched := rec.txTouched()
		for a := range rec.suicided {
			if errR == nil && !rw.DB.Exist(a) {
				h.DestroyedThisTx[a] = true
			}
		}
		if errR == nil {
			for a := range existedAtBegin {
				if !rw.DB.Exist(a) && !h.DestroyedThisTx[a] {
					h.EmptiedThisTx[a] = true
				}
			}
		}
		fb := txFallbackContext(pc, tx, tracer)
		ctx := func() string { return contextFor(h, aw, u, touched, fb) }

		if crash != nil {
			return fail(i, crash)
		}
		out.Counts["cmp/tx-results"]++
		ca, cr := errClass(errA), errClass(errR)
		if ca != cr {
			c := contextForHint(h, aw, u, touched, fb, strings.Contains(ca, "tombstone"))
			return fail(i, &Divergence{Rule: "error", Context: c, Trait: errorTrait(c, ca, cr),
				What: fmt.Sprintf("tx %d consensus error: adapter=%v reference=%v", tx.ID, errA, errR)})
		}
		ok := errR == nil
		if ok {
			if resA.UsedGas != resR.UsedGas {
				dir := "adapter-more"
				if resA.UsedGas < resR.UsedGas {
					dir = "adapter-less"
				}
				return fail(i, &Divergence{Rule: "gas-used", Context: ctx(), Trait: dir,
					What: fmt.Sprintf("tx %d UsedGas adapter=%d reference=%d (vmerr adapter=%q ref=%q)", tx.ID, resA.UsedGas, resR.UsedGas, vmErrString(resA.Err), vmErrString(resR.Err))})
			}
			if vmErrString(resA.Err) != vmErrString(resR.Err) {
				return fail(i, &Divergence{Rule: "error", Context: ctx(), Trait: "vm-error-adapter-" + slug(vmErrString(resA.Err), 30) + "-ref-" + slug(vmErrString(resR.Err), 30),
					What: fmt.Sprintf("tx %d vm error adapter=%q reference=%q", tx.ID, vmErrString(resA.Err), vmErrString(resR.Err))})
			}
			if !bytes.Equal(resA.ReturnData, resR.ReturnData) {
				return fail(i, &Divergence{Rule: "return-value", Context: ctx(), Trait: "return-data-differs" + returnDataHint(resA.ReturnData, resR.ReturnData),
					What: fmt.Sprintf("tx %d ReturnData adapter=%x reference=%x", tx.ID, resA.ReturnData, resR.ReturnData)})
			}
			if resA.ContractAddress != resR.ContractAddress {
				return fail(i, &Divergence{Rule: "return-value", Context: ctx(), Trait: "contract-address-differs",
					What: fmt.Sprintf("tx %d contract address adapter=%s reference=%s", tx.ID, resA.ContractAddress.Hex(), resR.ContractAddress.Hex())})
			}
			if d := compareLogs(logsA, logsR); d != "" {
				return fail(i, &Divergence{Rule: "logs", Context: ctx(), Trait: logsTrait(d), What: fmt.Sprintf("tx %d logs: %s", tx.ID, d)})
			}
			if tracer.ops > 0 {
				out.Nontrivial = true
			}
		}

		// tail of txDeliverer
		var gasUsed uint64
		if resA != nil {
			gasUsed = resA.UsedGas
		}
		if d := safely("end-tx", func() { aw.EndTx(ok, gasUsed) }); d != nil {
			return fail(i, d)
		}
		rw.EndTx(ok)
		if ra, rr := aw.DB.GetRefund(), rw.DB.GetRefund(); ra != 0 || rr != 0 {
			return fail(i, &Divergence{Rule: "final-state", Context: ctx(), Trait: "refund-counter-not-reset", What: fmt.Sprintf("refund after tx %d: adapter=%d ref=%d", tx.ID, ra, rr)})
		}
		endBlock := tx.EndBlock || i == len(pc.Txs)-1
		// the state between a transaction and the commit of its block is only
		// observable by later transactions of the same block: when the block
		// ends right here, compare after the commit only
		if !endBlock {
			if d := compareState(aw, rw, u, h, fmt.Sprintf("tx %d", tx.ID), out.Counts); d != nil {
				if d.Context == "plain" {
					d.Context = fb
				}
				if r := fail(i, d); r != nil {
					return r
				}
			}
		}
		if endBlock {
			// naming only: what this transaction destroyed is "destroyed in the block just committed"
			for a := range h.DestroyedThisTx {
				h.DestroyedSameBlock[a] = true
			}
		}
		h.endTx()

		if endBlock {
			if d := safely("block-commit", func() { aw.EndBlock() }); d != nil {
				return fail(i, d)
			}
			rw.EndBlock()
			h.endBlock()
			out.Counts["block/commits"]++
			if d := compareState(aw, rw, u, h, fmt.Sprintf("block commit after tx %d", tx.ID), out.Counts); d != nil {
				if d.Context == "plain" {
					d.Context = "block-commit"
				}
				if r := fail(i, d); r != nil {
					return r
				}
			}
		}
	}
	return out
}

func safely(phase string, f func()) (d *Divergence) {
	defer func() {
		if p := recover(); p != nil {
			d = &Divergence{Rule: "crash", Context: panicWhere(phase), Trait: panicTrait(p), What: fmt.Sprintf("adapter panicked in %s: %v", phase, p), Fixed: true}
		}
	}()
	f()
	return nil
}

func returnDataHint(ad, rf []byte) string {
	if bytes.Contains(ad, tombstone) && !bytes.Contains(rf, tombstone) {
		return "-adapter-contains-tombstone-bytes"
	}
	if len(ad) != len(rf) {
		return "-length"
	}
	return ""
}

func (s *recState) txTouched() []ethcmn.Address {
	out := make([]ethcmn.Address, 0, len(s.txAddrs))
	for a := range s.txAddrs {
		out = append(out, a)
	}
	sort.Slice(out, func(i, j int) bool { return string(out[i][:]) < string(out[j][:]) })
	return out
}
