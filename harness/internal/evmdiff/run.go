package evmdiff

import (
	"bufio"
	"crypto/sha256"
	"encoding/binary"
	"encoding/json"
	"fmt"
	"io/ioutil"
	"math/rand"
	"os"
	"os/exec"
	"path/filepath"
	"runtime"
	"sort"
	"strconv"
	"strings"
	"sync"
	"syscall"
	"time"

	"olverif/internal/verdict"
)

// Sizes of a tier: fixed case counts, never time budgets.
type Sizes struct {
	Iface, Prog int
	IfaceLen    int
	SweepEvery  int // every n-th program case gets the dense opcode-boundary gas sweep
	SweepDense  int // max gas limits tried in a dense sweep
	SweepSparse int // gas limits tried for every other case
}

func SizesFor(tier string) (Sizes, bool) {
	switch tier {
	case "quick":
		return Sizes{Iface: 300, Prog: 200, IfaceLen: 60, SweepEvery: 8, SweepDense: 40, SweepSparse: 3}, true
	case "thorough":
		return Sizes{Iface: 20000, Prog: 10000, IfaceLen: 60, SweepEvery: 10, SweepDense: 64, SweepSparse: 3}, true
	}
	return Sizes{}, false
}

func caseRng(seed int64, layer string, idx int) *rand.Rand {
	h := sha256.Sum256([]byte(fmt.Sprintf("c16|%d|%s|%d", seed, layer, idx)))
	return rand.New(rand.NewSource(int64(binary.BigEndian.Uint64(h[:8]) >> 1)))
}

// CaseResult is one line of a worker's result file.
type CaseResult struct {
	Idx        int             `json:"idx"`
	Layer      string          `json:"layer,omitempty"`
	ID         string          `json:"id,omitempty"`
	Nontrivial bool            `json:"nontrivial,omitempty"`
	Counts     map[string]int  `json:"counts,omitempty"`
	Violations []ViolationOut  `json:"violations,omitempty"`
	Diags      []string        `json:"diags,omitempty"`
	HarnessErr string          `json:"harness_err,omitempty"`
	Sample     json.RawMessage `json:"sample,omitempty"`
	Done       bool            `json:"done,omitempty"`
}

type ViolationOut struct {
	Signature string          `json:"signature"`
	What      string          `json:"what"`
	Shrunk    bool            `json:"shrunk"`
	Witness   json.RawMessage `json:"witness"`
}

// Witness is what a replay file carries.
type Witness struct {
	Layer      string      `json:"layer"`
	CaseID     string      `json:"case_id"`
	Iface      *IfaceCase  `json:"iface,omitempty"`
	Prog       *ProgCase   `json:"prog,omitempty"`
	Step       int         `json:"diverged_at_step"`
	Shrunk     bool        `json:"shrunk"`
	ShrinkRuns int         `json:"shrink_runs,omitempty"`
	Observed   interface{} `json:"observed,omitempty"`
}

type worker struct {
	seed     int64
	sizes    Sizes
	seenSig  map[string]int
	out      *bufio.Writer
	outF     *os.File
	logF     *os.File
	shrinkMx int
}

func (w *worker) emit(r *CaseResult) {
	bz, _ := json.Marshal(r)
	w.out.Write(bz)
	w.out.WriteByte('\n')
	w.out.Flush()
}

func (w *worker) violationIface(ic *IfaceCase, id string, d *Divergence) ViolationOut {
	sig := d.Signature()
	w.seenSig[sig]++
	wit := Witness{Layer: "iface", CaseID: id, Iface: ic, Step: d.Step}
	if w.seenSig[sig] <= w.shrinkMx {
		small, runs := ShrinkIface(ic, sig, 400)
		o := RunIface(small, true)
		if o.Div != nil && o.Div.Signature() == sig {
			wit.Iface, wit.Shrunk, wit.ShrinkRuns, wit.Step = small, true, runs, o.Div.Step
			wit.Observed = o.Trace
			d = o.Div
		}
	}
	bz, _ := json.Marshal(wit)
	return ViolationOut{Signature: sig, What: d.What, Shrunk: wit.Shrunk, Witness: bz}
}

func (w *worker) violationProg(pc *ProgCase, id string, d *Divergence) ViolationOut {
	sig := d.Signature()
	w.seenSig[sig]++
	wit := Witness{Layer: "prog", CaseID: id, Prog: pc, Step: d.Step}
	if w.seenSig[sig] <= w.shrinkMx {
		small, runs := ShrinkProg(pc, sig, 250)
		o := RunProg(small)
		if o.Div != nil && o.Div.Signature() == sig {
			wit.Prog, wit.Shrunk, wit.ShrinkRuns, wit.Step = small, true, runs, o.Div.Step
			wit.Observed = o.Txs
			d = o.Div
		}
	}
	bz, _ := json.Marshal(wit)
	return ViolationOut{Signature: sig, What: d.What, Shrunk: wit.Shrunk, Witness: bz}
}

func mergeCounts(dst, src map[string]int) {
	for k, v := range src {
		dst[k] += v
	}
}

func (w *worker) runIfaceCase(idx int) *CaseResult {
	rng := caseRng(w.seed, "iface", idx)
	ic := GenIface(rng, w.sizes.IfaceLen)
	id := fmt.Sprintf("iface-%d-%d", w.seed, idx)
	res := &CaseResult{Idx: idx, Layer: "iface", ID: id, Counts: map[string]int{}}
	o := RunIface(ic, false)
	mergeCounts(res.Counts, o.Counts)
	res.Nontrivial = o.Nontrivial || o.Div != nil
	res.HarnessErr = o.HarnessErr
	if o.Diag != nil {
		res.Diags = append(res.Diags, o.Diag.Signature()+": "+o.Diag.What)
	}
	if o.Div != nil {
		res.Violations = append(res.Violations, w.violationIface(ic, id, o.Div))
	}
	if idx < 2 {
		res.Sample, _ = json.Marshal(map[string]interface{}{"case": id, "ops": ic.Ops})
	}
	return res
}

func intrinsicOf(data string, create bool) uint64 {
	n := uint64(21000)
	if create {
		n = 53000
	}
	for i := 0; i+1 < len(data); i += 2 {
		if data[i:i+2] == "00" {
			n += 4
		} else {
			n += 16
		}
	}
	return n
}

func (w *worker) runProgCase(idx int) *CaseResult {
	pidx := idx - w.sizes.Iface
	rng := caseRng(w.seed, "prog", pidx)
	pc := GenProg(rng, pidx)
	id := fmt.Sprintf("prog-%d-%d", w.seed, pidx)
	res := &CaseResult{Idx: idx, Layer: "prog", ID: id, Counts: map[string]int{}}
	o := RunProg(pc)
	mergeCounts(res.Counts, o.Counts)
	res.Counts["tmpl/"+strings.SplitN(pc.Tmpl, "/", 2)[0]]++
	res.Nontrivial = o.Nontrivial || o.Div != nil
	res.HarnessErr = o.HarnessErr
	if o.Diag != nil {
		res.Diags = append(res.Diags, o.Diag.Signature()+": "+o.Diag.What)
	}
	if o.Div != nil {
		res.Violations = append(res.Violations, w.violationProg(pc, id, o.Div))
	}
	if pidx < 2 {
		type txs struct {
			Spec   TxSpec   `json:"spec"`
			Report TxReport `json:"run"`
		}
		var l []txs
		for i, t := range o.Txs {
			l = append(l, txs{pc.Txs[i], t})
		}
		res.Sample, _ = json.Marshal(map[string]interface{}{"case": id, "template": pc.Tmpl, "txs": l})
	}

	// gas sweep: re-run the whole sequence fresh with one transaction's gas
	// limit lowered to k, for k below what it used with ample gas
	limit := len(o.Txs)
	if o.Div != nil {
		limit = o.Div.Step // only transactions strictly before the first divergence
	}
	var cands []int
	for i := 0; i < limit; i++ {
		if o.Txs[i].GasUsed > intrinsicOf(o.Txs[i].Data, o.Txs[i].To == "")+2 && len(o.Txs[i].Boundary) > 1 {
			cands = append(cands, i)
		}
	}
	if len(cands) == 0 {
		return res
	}
	ti := cands[rng.Intn(len(cands))]
	used := o.Txs[ti].GasUsed
	intr := intrinsicOf(o.Txs[ti].Data, o.Txs[ti].To == "")
	var ks []uint64
	dense := w.sizes.SweepEvery > 0 && pidx%w.sizes.SweepEvery == 0
	if dense {
		// every opcode boundary of the outermost frame: with gas = k the
		// execution dies exactly at that opcode
		b := o.Txs[ti].Boundary
		step := 1
		if len(b) > w.sizes.SweepDense {
			step = (len(b) + w.sizes.SweepDense - 1) / w.sizes.SweepDense
		}
		for i := 0; i < len(b); i += step {
			ks = append(ks, b[i])
		}
		res.Counts["sweep/dense-cases"]++
	} else {
		for n := 0; n < w.sizes.SweepSparse; n++ {
			switch n % 3 {
			case 0:
				ks = append(ks, o.Txs[ti].Boundary[rng.Intn(len(o.Txs[ti].Boundary))])
			case 1:
				ks = append(ks, intr+uint64(rng.Int63n(int64(used-intr))))
			default:
				// refunds make the needed limit higher than gasUsed
				ks = append(ks, used+uint64(rng.Intn(3))-1)
			}
		}
	}
	seen := map[uint64]bool{}
	for _, k := range ks {
		if seen[k] || k < 21000 {
			continue
		}
		seen[k] = true
		v := cloneProg(pc)
		v.Txs[ti].Gas = k
		v.Tmpl = pc.Tmpl + "/gas-sweep"
		so := RunProg(v)
		res.Counts["sweep/runs"]++
		for _, key := range []string{"tx/out-of-gas", "tx/vm-error", "fault/out-of-gas", "cmp/tx-results", "cmp/accounts", "cmp/slots", "cmp/native-records", "tx/total", "tx/ran-code", "block/commits"} {
			res.Counts[key] += so.Counts[key]
		}
		if so.HarnessErr != "" && res.HarnessErr == "" {
			res.HarnessErr = so.HarnessErr
		}
		if so.Div != nil {
			// only report what the ample-gas run did not already show
			if o.Div != nil && so.Div.Signature() == o.Div.Signature() {
				continue
			}
			res.Violations = append(res.Violations, w.violationProg(v, fmt.Sprintf("%s/tx%d-gas%d", id, v.Txs[ti].ID, k), so.Div))
			break
		}
	}
	return res
}

// ChildMain is the body of a worker process.
func ChildMain(tier string, wi, wn, from int, dir string) int {
	sizes, ok := SizesFor(tier)
	if !ok {
		return 2
	}
	// the adapter's stores log to stdout (captured at package init): silence fd 1
	if devnull, err := os.OpenFile(os.DevNull, os.O_WRONLY, 0); err == nil {
		_ = syscall.Dup2(int(devnull.Fd()), 1)
	}
	outF, err := os.OpenFile(filepath.Join(dir, fmt.Sprintf("w%d.jsonl", wi)), os.O_CREATE|os.O_APPEND|os.O_WRONLY, 0644)
	if err != nil {
		fmt.Fprintln(os.Stderr, err)
		return 2
	}
	logF, err := os.OpenFile(filepath.Join(dir, fmt.Sprintf("w%d.log", wi)), os.O_CREATE|os.O_APPEND|os.O_WRONLY, 0644)
	if err != nil {
		fmt.Fprintln(os.Stderr, err)
		return 2
	}
	w := &worker{seed: verdict.Seed(), sizes: sizes, seenSig: map[string]int{}, out: bufio.NewWriter(outF), outF: outF, logF: logF, shrinkMx: 2}
	total := sizes.Iface + sizes.Prog
	for idx := wi; idx < total; idx += wn {
		if idx < from {
			continue
		}
		fmt.Fprintf(logF, "%d\n", idx)
		if os.Getenv("OLC16_TEST_DIE_AT") == strconv.Itoa(idx) {
			os.Exit(3) // self-test of the crash attribution path
		}
		var r *CaseResult
		if idx < sizes.Iface {
			r = w.runIfaceCase(idx)
		} else {
			r = w.runProgCase(idx)
		}
		w.emit(r)
	}
	w.emit(&CaseResult{Idx: -1, Done: true})
	return 0
}

// ---------------------------------------------------------------------------
// Parent
// ---------------------------------------------------------------------------

func lastLoggedCase(path string) int {
	bz, err := ioutil.ReadFile(path)
	if err != nil {
		return -1
	}
	lines := strings.Fields(string(bz))
	if len(lines) == 0 {
		return -1
	}
	n, err := strconv.Atoi(lines[len(lines)-1])
	if err != nil {
		return -1
	}
	return n
}

type crashNote struct {
	idx  int
	how  string
	tail string
}

// ParentMain spawns the workers, aggregates their results and decides.
func ParentMain(tier string) int {
	sizes, ok := SizesFor(tier)
	if !ok {
		fmt.Fprintln(os.Stderr, "usage: olc16 quick|thorough | --replay <file>")
		return 2
	}
	r := verdict.New("C16", tier, "exploration")
	r.Rule = "differential: every StateDB call's return value, and per transaction consensus-error class, UsedGas, ReturnData, vm error, contract address, logs, then every touched account (exist, empty, balance, nonce, code, every touched slot current+committed) and the raw native b_<addr>_OLT record, adapter vs go-ethereum v1.10.8 core/state driven by the same interpreter, chain config, block context and a port of vm/state_transition.go"
	r.Assumptions = []string{
		"reference message rules are a port of /repo/vm/state_transition.go (no coinbase payment, refund quotient 3); only the state implementation differs",
		"adapter driven as app.txDeliverer/blockEnder/commitor do: Prepare, BeginTxSession, EVMTransaction.Apply, ConsumeContractGas, Finality, Commit/DiscardTxSession; Reset + State.Commit + fresh deliver state per block; block gas limit = consensus MaxGas -1",
		"a transaction whose tx session the app discards is rolled back on the reference side too (go-ethereum's miner reverts to the pre-tx snapshot on a consensus error)",
		"BLOCKHASH and BASEFEE are never generated (GetHashFn needs a block store; BaseFee is nil in EVMTransaction.NewEVM)",
		"fee-pool bookkeeping of ContractFeeHandling is outside the state adapter and not modelled",
		"an empty account that exists on one side only is reported as a diagnostic (not observable through the EVM after EIP-161)",
		"interface-layer CreateAccount is issued the way evm.create issues it (CreateAccount, then SetNonce(1)): go-ethereum never journals a bare CreateAccount over an existing account as dirty and silently drops it at Commit",
		"SubBalance is only issued up to the current balance, SubRefund up to the current refund, RevertToSnapshot only to live snapshot ids (what the interpreter guarantees)",
	}
	scratch := fmt.Sprintf("/var/tmp/olverif.%d", os.Getpid())
	_ = os.MkdirAll(scratch, 0755)
	defer os.RemoveAll(scratch)

	self, err := os.Executable()
	if err != nil {
		r.Inconclusive("cannot find own executable: " + err.Error())
		return r.Finish()
	}
	nw := runtime.NumCPU()
	if nw > 16 {
		nw = 16
	}
	if nw < 1 {
		nw = 1
	}
	total := sizes.Iface + sizes.Prog
	deadline := time.Now().Add(40 * time.Minute)

	var mu sync.Mutex
	var crashes []crashNote
	var wg sync.WaitGroup
	timedOut := false
	for wi := 0; wi < nw; wi++ {
		wg.Add(1)
		go func(wi int) {
			defer wg.Done()
			from := 0
			for attempt := 0; attempt < 200; attempt++ {
				cmd := exec.Command(self, "--child", tier, "--worker", fmt.Sprintf("%d/%d", wi, nw), "--from", strconv.Itoa(from), "--dir", scratch)
				cmd.Env = os.Environ()
				var stderr strings.Builder
				cmd.Stderr = &limitedWriter{w: &stderr, n: 64 << 10}
				if err := cmd.Start(); err != nil {
					mu.Lock()
					crashes = append(crashes, crashNote{idx: -1, how: "cannot start worker: " + err.Error()})
					mu.Unlock()
					return
				}
				done := make(chan error, 1)
				go func() { done <- cmd.Wait() }()
				var werr error
				hung := false
				logPath := filepath.Join(scratch, fmt.Sprintf("w%d.log", wi))
				lastSeen, lastChange := -2, time.Now()
			wait:
				for {
					select {
					case werr = <-done:
						break wait
					case <-time.After(2 * time.Second):
						if time.Now().After(deadline) {
							_ = cmd.Process.Kill()
							<-done
							mu.Lock()
							timedOut = true
							mu.Unlock()
							return
						}
						// a single case (with shrinking) takes well under a
						// second; five minutes without progress is a hang
						if cur := lastLoggedCase(logPath); cur != lastSeen {
							lastSeen, lastChange = cur, time.Now()
						} else if time.Since(lastChange) > 5*time.Minute {
							_ = cmd.Process.Kill()
							werr = <-done
							hung = true
							break wait
						}
					}
				}
				if werr == nil && workerDone(filepath.Join(scratch, fmt.Sprintf("w%d.jsonl", wi))) {
					return
				}
				// the worker died: attribute to the case it logged last
				last := lastLoggedCase(logPath)
				how := "exit"
				if werr != nil {
					how = werr.Error()
				}
				if hung {
					how = "hang no progress for 5 minutes"
				}
				tail := stderr.String()
				if len(tail) > 1500 {
					tail = tail[:1500]
				}
				mu.Lock()
				crashes = append(crashes, crashNote{idx: last, how: how, tail: tail})
				mu.Unlock()
				if last < 0 {
					return
				}
				from = last + 1
				if from >= total {
					return
				}
			}
		}(wi)
	}
	wg.Wait()
	if timedOut {
		r.Inconclusive("watchdog: workers did not finish within 40 minutes")
	}

	// aggregate
	var results []*CaseResult
	for wi := 0; wi < nw; wi++ {
		f, err := os.Open(filepath.Join(scratch, fmt.Sprintf("w%d.jsonl", wi)))
		if err != nil {
			continue
		}
		sc := bufio.NewScanner(f)
		sc.Buffer(make([]byte, 1<<20), 64<<20)
		for sc.Scan() {
			cr := &CaseResult{}
			if err := json.Unmarshal(sc.Bytes(), cr); err != nil || cr.Done {
				continue
			}
			results = append(results, cr)
		}
		f.Close()
	}
	sort.Slice(results, func(i, j int) bool { return results[i].Idx < results[j].Idx })
	seenIdx := map[int]bool{}
	type vrec struct {
		idx int
		v   ViolationOut
	}
	bySig := map[string][]vrec{}
	harnessErrs := 0
	for _, cr := range results {
		if seenIdx[cr.Idx] {
			continue
		}
		seenIdx[cr.Idx] = true
		r.Case(cr.ID, cr.Nontrivial)
		r.Count("cases/"+cr.Layer, 1)
		if cr.Nontrivial {
			r.Count("cases/"+cr.Layer+"-nontrivial", 1)
		}
		for k, v := range cr.Counts {
			r.Count(k, v)
		}
		if cr.Sample != nil {
			var s interface{}
			_ = json.Unmarshal(cr.Sample, &s)
			r.Sample(s)
		}
		for _, d := range cr.Diags {
			r.Count("diagnostics", 1)
			r.Diag(cr.ID + ": " + d)
		}
		if cr.HarnessErr != "" {
			harnessErrs++
			r.Diag(cr.ID + ": " + cr.HarnessErr)
		}
		for _, v := range cr.Violations {
			bySig[v.Signature] = append(bySig[v.Signature], vrec{cr.Idx, v})
		}
	}
	r.Count("harness-errors", harnessErrs)
	if harnessErrs > total/50+1 {
		r.Inconclusive(fmt.Sprintf("%d cases failed inside the harness/reference", harnessErrs))
	}
	for _, c := range crashes {
		if c.idx < 0 {
			r.Inconclusive("worker failure: " + c.how)
			continue
		}
		layer := "iface"
		if c.idx >= sizes.Iface {
			layer = "prog"
		}
		seenIdx[c.idx] = true
		sig := "C16/crash/process-death/" + layer + "-" + slug(c.how, 30)
		w := Witness{Layer: layer, CaseID: fmt.Sprintf("%s-%d-%d", layer, verdict.Seed(), c.idx), Step: -1,
			Observed: map[string]interface{}{"how": c.how, "stderr": c.tail, "note": "the worker process died (os.Exit / fatal error) while executing this case; replaying it dies the same way"}}
		if layer == "iface" {
			w.Iface = GenIface(caseRng(verdict.Seed(), "iface", c.idx), sizes.IfaceLen)
		} else {
			w.CaseID = fmt.Sprintf("prog-%d-%d", verdict.Seed(), c.idx-sizes.Iface)
			w.Prog = GenProg(caseRng(verdict.Seed(), "prog", c.idx-sizes.Iface), c.idx-sizes.Iface)
		}
		wit, _ := json.Marshal(w)
		bySig[sig] = append(bySig[sig], vrec{c.idx, ViolationOut{Signature: sig, What: fmt.Sprintf("worker process died (%s) while executing case %d of layer %s", c.how, c.idx, layer), Witness: wit}})
	}
	if len(seenIdx) < total && !timedOut {
		r.Inconclusive(fmt.Sprintf("only %d of %d cases reported", len(seenIdx), total))
	}

	sigs := make([]string, 0, len(bySig))
	for s := range bySig {
		sigs = append(sigs, s)
	}
	sort.Strings(sigs)
	sigCount := map[string]int{}
	for _, s := range sigs {
		l := bySig[s]
		sort.SliceStable(l, func(i, j int) bool {
			if l[i].v.Shrunk != l[j].v.Shrunk {
				return l[i].v.Shrunk
			}
			return l[i].idx < l[j].idx
		})
		sigCount[s] = len(l)
		// at most three per signature: the first (shrunk) witness of each
		// layer, then by case order
		var pick []vrec
		used := map[int]bool{}
		for _, layerLo := range []bool{true, false} {
			for i, v := range l {
				if !used[i] && (v.idx < sizes.Iface) == layerLo {
					pick = append(pick, v)
					used[i] = true
					break
				}
			}
		}
		for i, v := range l {
			if len(pick) >= 3 {
				break
			}
			if !used[i] {
				pick = append(pick, v)
				used[i] = true
			}
		}
		for _, v := range pick {
			var wit interface{}
			_ = json.Unmarshal(v.v.Witness, &wit)
			r.Violate(verdict.Violation{Signature: s, What: v.v.What, Witness: wit})
		}
		if len(l) > 3 {
			r.Count("violations-not-listed/"+s, len(l)-3)
		}
	}
	r.Set("violation_counts_by_signature", sigCount)
	r.Set("workers", nw)

	// coverage gates: minimal presence of every family
	type gate struct {
		name        string
		quick, thor int
	}
	gates := []gate{
		{"cases/iface-nontrivial", 250, 15000}, {"cases/prog-nontrivial", 150, 7500},
		{"cmp/return-values", 5000, 300000}, {"cmp/tx-results", 800, 40000}, {"cmp/accounts", 5000, 300000}, {"cmp/native-records", 5000, 300000},
		{"block/commits", 300, 15000},
		{"iface/Snapshot", 100, 5000}, {"iface/RevertToSnapshot", 60, 3000}, {"iface/Suicide", 40, 2000}, {"iface/CreateAccount", 40, 2000},
		{"iface/SetState", 200, 10000}, {"iface/GetCommittedState", 100, 5000}, {"iface/AddLog", 40, 2000}, {"iface/AddRefund", 40, 2000},
		{"iface/AddSlotToAccessList", 30, 1500}, {"iface/Finalise", 300, 15000},
		{"tx/ran-code", 600, 30000}, {"tx/creation", 200, 10000}, {"tx/reverted", 15, 700}, {"tx/out-of-gas", 20, 1000}, {"tx/consensus-error", 5, 200}, {"tx/with-access-list", 10, 500},
		{"op/sstore", 300, 15000}, {"op/sload", 200, 10000}, {"sload/warm", 30, 1500}, {"sload/cold", 100, 5000},
		{"sstore/fresh-0-to-x", 50, 2500}, {"sstore/fresh-x-to-0", 10, 500}, {"sstore/fresh-x-to-y", 10, 500}, {"sstore/noop", 10, 500},
		{"sstore/dirty-reset-to-original", 5, 250}, {"sstore/dirty-cleared-then-restored", 3, 100}, {"sstore/dirty-then-cleared", 2, 100},
		{"op/call", 150, 7000}, {"op/callcode", 15, 700}, {"op/delegatecall", 15, 700}, {"op/staticcall", 15, 700},
		{"call/with-value", 30, 1500}, {"call/to-precompile", 10, 500}, {"call/to-nonexistent", 10, 500}, {"call/to-codeless", 10, 500}, {"call/to-contract", 80, 4000},
		{"op/create", 15, 700}, {"op/create2", 15, 700}, {"op/selfdestruct", 15, 700},
		{"selfdestruct/with-balance", 5, 200}, {"selfdestruct/without-balance", 3, 200}, {"selfdestruct/beneficiary-self", 1, 30}, {"selfdestruct/beneficiary-nonexistent", 2, 60}, {"selfdestruct/beneficiary-existing", 5, 200},
		{"op/revert", 20, 1000}, {"revert/at-depth", 8, 400}, {"op/returndatacopy", 100, 5000}, {"op/log", 60, 3000},
		{"op/balance", 30, 1500}, {"op/selfbalance", 30, 1500}, {"op/extcodesize", 20, 1000}, {"op/extcodehash", 20, 1000}, {"op/extcodecopy", 6, 500},
		{"sweep/runs", 150, 8000}, {"sweep/dense-cases", 5, 300},
	}
	for _, g := range gates {
		need := g.quick
		if tier == "thorough" {
			need = g.thor
		}
		r.Gate(g.name, need)
	}
	return r.Finish()
}

func workerDone(path string) bool {
	bz, err := ioutil.ReadFile(path)
	if err != nil {
		return false
	}
	return strings.Contains(string(bz[max(0, len(bz)-64):]), `"done":true`)
}

func max(a, b int) int {
	if a > b {
		return a
	}
	return b
}

type limitedWriter struct {
	w *strings.Builder
	n int
}

func (l *limitedWriter) Write(p []byte) (int, error) {
	if l.w.Len() < l.n {
		k := len(p)
		if l.w.Len()+k > l.n {
			k = l.n - l.w.Len()
		}
		l.w.Write(p[:k])
	}
	return len(p), nil
}

// ---------------------------------------------------------------------------
// Replay
// ---------------------------------------------------------------------------

func ReplayMain(path string) int {
	bz, err := ioutil.ReadFile(path)
	if err != nil {
		fmt.Fprintln(os.Stderr, err)
		return 2
	}
	var file struct {
		Signature string  `json:"signature"`
		What      string  `json:"what"`
		Witness   Witness `json:"witness"`
	}
	if err := json.Unmarshal(bz, &file); err != nil {
		fmt.Fprintln(os.Stderr, "cannot parse replay file:", err)
		return 2
	}
	// keep our own stdout, silence the adapter's loggers
	realOut, _ := syscall.Dup(1)
	if devnull, err := os.OpenFile(os.DevNull, os.O_WRONLY, 0); err == nil {
		_ = syscall.Dup2(int(devnull.Fd()), 1)
	}
	out := os.NewFile(uintptr(realOut), "stdout")
	fmt.Fprintf(out, "replaying %s\n  recorded signature: %s\n  recorded: %s\n", path, file.Signature, file.What)
	var d *Divergence
	switch file.Witness.Layer {
	case "iface":
		if file.Witness.Iface == nil {
			fmt.Fprintln(out, "no interface case in witness")
			return 2
		}
		o := RunIface(file.Witness.Iface, true)
		for _, l := range o.Trace {
			fmt.Fprintln(out, l)
		}
		if o.HarnessErr != "" {
			fmt.Fprintln(out, "harness error:", o.HarnessErr)
		}
		d = o.Div
	case "prog":
		if file.Witness.Prog == nil {
			fmt.Fprintln(out, "no program case in witness")
			return 2
		}
		o := RunProg(file.Witness.Prog)
		for i, t := range o.Txs {
			sp := file.Witness.Prog.Txs[i]
			fmt.Fprintf(out, "tx id=%d from=%s to=%s created=%s value=%q gas=%d gasPrice=%d endBlock=%v\n  data=%s\n  adapter  : %s\n  reference: %s\n",
				t.ID, eoas[sp.From%len(eoas)].Hex(), t.To, t.Created, sp.Value, sp.Gas, sp.GasPrice, sp.EndBlock, t.Data, t.Adapter, t.Ref)
		}
		if o.HarnessErr != "" {
			fmt.Fprintln(out, "harness error:", o.HarnessErr)
		}
		d = o.Div
	default:
		fmt.Fprintf(out, "witness of layer %q cannot be replayed in-process (process death): %s\n", file.Witness.Layer, string(bz))
		return 2
	}
	if d == nil {
		fmt.Fprintln(out, "REPLAY: no divergence reproduced")
		return 0
	}
	fmt.Fprintf(out, "REPLAY: diverged at step %d\n  signature=%s\n  %s\n", d.Step, d.Signature(), d.What)
	if d.Signature() != file.Signature {
		fmt.Fprintln(out, "  (differs from the recorded signature)")
	}
	return 1
}

// OneMain generates case idx of a layer, runs it in-process and prints the
// outcome (development aid).
func OneMain(layer string, idx int) int {
	realOut, _ := syscall.Dup(1)
	if devnull, err := os.OpenFile(os.DevNull, os.O_WRONLY, 0); err == nil {
		_ = syscall.Dup2(int(devnull.Fd()), 1)
	}
	out := os.NewFile(uintptr(realOut), "stdout")
	seed := verdict.Seed()
	switch layer {
	case "iface":
		ic := GenIface(caseRng(seed, "iface", idx), 60)
		o := RunIface(ic, true)
		for _, l := range o.Trace {
			fmt.Fprintln(out, l)
		}
		fmt.Fprintf(out, "nontrivial=%v harnessErr=%q\n", o.Nontrivial, o.HarnessErr)
		if o.Diag != nil {
			fmt.Fprintf(out, "DIAG %s: %s\n", o.Diag.Signature(), o.Diag.What)
		}
		if o.Div != nil {
			fmt.Fprintf(out, "DIVERGENCE step %d %s\n  %s\n", o.Div.Step, o.Div.Signature(), o.Div.What)
			small, runs := ShrinkIface(ic, o.Div.Signature(), 400)
			bz, _ := json.Marshal(small.Ops)
			fmt.Fprintf(out, "shrunk in %d runs to %d ops: %s\n", runs, len(small.Ops), bz)
			return 1
		}
	case "prog":
		pc := GenProg(caseRng(seed, "prog", idx), idx)
		o := RunProg(pc)
		fmt.Fprintf(out, "template %s\n", pc.Tmpl)
		for i, t := range o.Txs {
			sp := pc.Txs[i]
			fmt.Fprintf(out, "tx id=%d from=%d to=%s created=%s value=%q gas=%d endBlock=%v\n  adapter  : %s\n  reference: %s\n", t.ID, sp.From, t.To, t.Created, sp.Value, sp.Gas, sp.EndBlock, t.Adapter, t.Ref)
		}
		fmt.Fprintf(out, "nontrivial=%v harnessErr=%q counts=%v\n", o.Nontrivial, o.HarnessErr, o.Counts)
		if o.Diag != nil {
			fmt.Fprintf(out, "DIAG %s: %s\n", o.Diag.Signature(), o.Diag.What)
		}
		if o.Div != nil {
			fmt.Fprintf(out, "DIVERGENCE step %d %s\n  %s\n", o.Div.Step, o.Div.Signature(), o.Div.What)
			small, runs := ShrinkProg(pc, o.Div.Signature(), 250)
			bz, _ := json.Marshal(small)
			fmt.Fprintf(out, "shrunk in %d runs to %d txs: %s\n", runs, len(small.Txs), bz)
			return 1
		}
	}
	return 0
}
