package evmdiff

import (
	"fmt"
	"math/big"

	olvm "github.com/Oneledger/protocol/vm"
	ethcmn "github.com/ethereum/go-ethereum/common"
	ethcore "github.com/ethereum/go-ethereum/core"
	ethtypes "github.com/ethereum/go-ethereum/core/types"
	ethvm "github.com/ethereum/go-ethereum/core/vm"
)

// Msg is one EVM message, identical for both sides.
type Msg struct {
	From       ethcmn.Address
	To         *ethcmn.Address
	Nonce      uint64
	Value      *big.Int
	Gas        uint64
	GasPrice   *big.Int
	Data       []byte
	AccessList ethtypes.AccessList
}

// Result mirrors vm.ExecutionResult.
type Result struct {
	UsedGas         uint64
	Err             error
	ReturnData      []byte
	ContractAddress ethcmn.Address
}

// BlockEnv is everything EVMTransaction.NewEVM takes from outside the state.
type BlockEnv struct {
	Coinbase ethcmn.Address
	GasPool  uint64 // value of stateDB.GetAvailableGas() the handler builds the pool from
	Height   int64
	Time     int64
}

// ---------------------------------------------------------------------------
// Port of /repo/vm/state_transition.go against the ethvm.StateDB interface.
// Deliberate deviations from go-ethereum kept as they are there: no coinbase
// payment, constant refund quotient, sender nonce
// bumped only on the call path, BaseFee nil.
// ---------------------------------------------------------------------------

type refTransition struct {
	gp         *ethcore.GasPool
	msg        *Msg
	gas        uint64
	gasPrice   *big.Int
	initialGas uint64
	value      *big.Int
	data       []byte
	state      ethvm.StateDB
	evm        *ethvm.EVM
}

var emptyHash = olvmEmptyHash()

func olvmEmptyHash() ethcmn.Hash {
	return ethcmn.HexToHash("0xc5d2460186f7233c927e7db2dcc703c0e500b653ca82273b7bfad8045d85a470")
}

func (st *refTransition) to() ethcmn.Address {
	if st.msg == nil || st.msg.To == nil {
		return ethcmn.Address{}
	}
	return *st.msg.To
}

func (st *refTransition) buyGas() error {
	mgval := new(big.Int).SetUint64(st.msg.Gas)
	mgval = mgval.Mul(mgval, st.gasPrice)

	if have, want := st.state.GetBalance(st.msg.From), mgval; have.Cmp(want) < 0 {
		return fmt.Errorf("%w: address %v have %v want %v", ethcore.ErrInsufficientFunds, st.msg.From.Hex(), have, want)
	}
	if err := st.gp.SubGas(st.msg.Gas); err != nil {
		return err
	}

	st.gas += st.msg.Gas
	st.initialGas = st.msg.Gas
	st.state.SubBalance(st.msg.From, mgval)
	return nil
}

func (st *refTransition) preCheck() error {
	// never fake: the harness only models DeliverTx
	stNonce := st.state.GetNonce(st.msg.From)
	msgNonce := st.msg.Nonce
	if stNonce < msgNonce {
		return fmt.Errorf("%w: address %v, tx: %d state: %d", ethcore.ErrNonceTooHigh,
			st.msg.From.Hex(), msgNonce, stNonce)
	}
	if stNonce > msgNonce {
		return fmt.Errorf("%w: address %v, tx: %d state: %d", ethcore.ErrNonceTooLow,
			st.msg.From.Hex(), msgNonce, stNonce)
	}
	if codeHash := st.state.GetCodeHash(st.msg.From); codeHash != emptyHash && codeHash != (ethcmn.Hash{}) {
		return fmt.Errorf("%w: address %v, codehash: %s", ethcore.ErrSenderNoEOA,
			st.msg.From.Hex(), codeHash)
	}
	return st.buyGas()
}

func (st *refTransition) transitionDb() (*Result, error) {
	if err := st.preCheck(); err != nil {
		return nil, err
	}
	msg := st.msg
	sender := ethvm.AccountRef(msg.From)
	contractCreation := msg.To == nil

	al := msg.AccessList
	if al == nil {
		al = make(ethtypes.AccessList, 0)
	}
	gas, err := olvm.IntrinsicGas(st.data, al, contractCreation)
	if err != nil {
		return nil, err
	}
	if st.gas < gas {
		return nil, fmt.Errorf("%w: have %d, want %d", ethcore.ErrIntrinsicGas, st.gas, gas)
	}
	st.gas -= gas

	if msg.Value.Sign() > 0 && !st.evm.Context.CanTransfer(st.state, msg.From, msg.Value) {
		return nil, fmt.Errorf("%w: address %v", ethcore.ErrInsufficientFundsForTransfer, msg.From.Hex())
	}

	if rules := st.evm.ChainConfig().Rules(st.evm.Context.BlockNumber); rules.IsBerlin {
		st.state.PrepareAccessList(msg.From, msg.To, ethvm.ActivePrecompiles(rules), al)
	}

	var (
		ret          []byte
		vmerr        error
		contractAddr ethcmn.Address
	)
	if contractCreation {
		ret, contractAddr, st.gas, vmerr = st.evm.Create(sender, st.data, st.gas, st.value)
	} else {
		nextNonce := st.state.GetNonce(msg.From) + 1
		st.state.SetNonce(msg.From, nextNonce)
		ret, st.gas, vmerr = st.evm.Call(sender, st.to(), st.data, st.gas, st.value)
	}

	st.refundGas(olvm.RefundQuotientFrankenstein)

	result := &Result{
		UsedGas:    st.gasUsed(),
		Err:        vmerr,
		ReturnData: ret,
	}
	if contractCreation && vmerr == nil {
		result.ContractAddress = contractAddr
	}
	return result, nil
}

func (st *refTransition) refundGas(refundQuotient uint64) {
	refund := st.gasUsed() / refundQuotient
	if refund > st.state.GetRefund() {
		refund = st.state.GetRefund()
	}
	st.gas += refund

	remaining := new(big.Int).Mul(new(big.Int).SetUint64(st.gas), st.gasPrice)
	st.state.AddBalance(st.msg.From, remaining)

	st.gp.AddGas(st.gas)
}

func (st *refTransition) gasUsed() uint64 {
	return st.initialGas - st.gas
}

// finaliser is the part of the reference state the port needs beyond
// ethvm.StateDB.
type finaliser interface {
	ethvm.StateDB
	Finalise(bool)
}

// ApplyRef is EVMTransaction.Apply() on the reference side: NewEVM with the
// same block context, ApplyMessage, then Finalise(true) whatever the outcome.
func ApplyRef(state finaliser, env BlockEnv, msg *Msg, tracer ethvm.Tracer) (*Result, error) {
	gp := new(ethcore.GasPool).AddGas(env.GasPool)
	blockCtx := ethvm.BlockContext{
		CanTransfer: ethcore.CanTransfer,
		Transfer:    ethcore.Transfer,
		GetHash: func(uint64) ethcmn.Hash {
			panic("harness: BLOCKHASH must never be generated (GetHashFn needs a block store)")
		},
		Coinbase:    env.Coinbase,
		GasLimit:    gp.Gas(),
		BlockNumber: new(big.Int).SetInt64(env.Height),
		Time:        new(big.Int).SetInt64(env.Time),
		Difficulty:  new(big.Int).Set(olvm.DefaultDifficulty),
	}
	vmConfig := ethvm.Config{ExtraEips: make([]int, 0)}
	if tracer != nil {
		// passive observer for coverage accounting only
		vmConfig.Debug = true
		vmConfig.Tracer = tracer
	}
	txCtx := ethvm.TxContext{Origin: msg.From, GasPrice: msg.GasPrice}
	evm := ethvm.NewEVM(blockCtx, txCtx, state, olvm.EthereumConfig(ChainID), vmConfig)
	st := &refTransition{gp: gp, evm: evm, msg: msg, gasPrice: msg.GasPrice, value: msg.Value, data: msg.Data, state: state}
	res, err := st.transitionDb()
	state.Finalise(true)
	return res, err
}

// ApplyAdapter runs the message through the real EVMTransaction.Apply the way
// action/olvm.runOLVM builds it.
func ApplyAdapter(w *AdapterWorld, env BlockEnv, msg *Msg) (*Result, error) {
	gp := new(ethcore.GasPool).AddGas(env.GasPool)
	var toKey *olKeysAddress
	if msg.To != nil {
		k := olKeysAddress(msg.To.Bytes())
		toKey = &k
	}
	var al *ethtypes.AccessList
	if msg.AccessList != nil {
		cp := msg.AccessList
		al = &cp
	}
	etx := olvm.NewEVMTransaction(w.DB, gp, w.Header, olKeysAddress(msg.From.Bytes()), toKey, msg.Nonce, msg.Value, msg.Data, al, msg.Gas, msg.GasPrice, false)
	res, err := etx.Apply()
	if res == nil {
		return nil, err
	}
	return &Result{UsedGas: res.UsedGas, Err: res.Err, ReturnData: res.ReturnData, ContractAddress: res.ContractAddress}, err
}
