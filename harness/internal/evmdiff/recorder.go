package evmdiff

import (
	"math/big"
	"sort"
	"time"

	"github.com/Oneledger/protocol/data/keys"
	ethcmn "github.com/ethereum/go-ethereum/common"
	ethtypes "github.com/ethereum/go-ethereum/core/types"
	ethvm "github.com/ethereum/go-ethereum/core/vm"
)

type olKeysAddress = keys.Address

// Universe remembers every address and storage slot either side was ever asked
// about, so that the post-transaction comparison covers "every account and
// every slot ever touched".
type Universe struct {
	addrs map[ethcmn.Address]struct{}
	slots map[ethcmn.Address]map[ethcmn.Hash]struct{}
}

func NewUniverse() *Universe {
	return &Universe{addrs: map[ethcmn.Address]struct{}{}, slots: map[ethcmn.Address]map[ethcmn.Hash]struct{}{}}
}

func (u *Universe) Addr(a ethcmn.Address) { u.addrs[a] = struct{}{} }
func (u *Universe) Slot(a ethcmn.Address, k ethcmn.Hash) {
	u.addrs[a] = struct{}{}
	m := u.slots[a]
	if m == nil {
		m = map[ethcmn.Hash]struct{}{}
		u.slots[a] = m
	}
	m[k] = struct{}{}
}

func (u *Universe) Addrs() []ethcmn.Address {
	out := make([]ethcmn.Address, 0, len(u.addrs))
	for a := range u.addrs {
		out = append(out, a)
	}
	sort.Slice(out, func(i, j int) bool { return string(out[i][:]) < string(out[j][:]) })
	return out
}

func (u *Universe) Slots(a ethcmn.Address) []ethcmn.Hash {
	out := make([]ethcmn.Hash, 0, len(u.slots[a]))
	for k := range u.slots[a] {
		out = append(out, k)
	}
	sort.Slice(out, func(i, j int) bool { return string(out[i][:]) < string(out[j][:]) })
	return out
}

// recState is the reference state as the interpreter sees it: a pure
// delegation to go-ethereum's StateDB that notes which addresses and slots were
// touched. It always delegates to the RefWorld's current StateDB.
type recState struct {
	r *RefWorld
	u *Universe
	// per transaction
	suicided map[ethcmn.Address]bool
	created  map[ethcmn.Address]bool
	txAddrs  map[ethcmn.Address]struct{}
}

func (s *recState) note(a ethcmn.Address) {
	s.u.Addr(a)
	s.txAddrs[a] = struct{}{}
}

func (s *recState) noteSlot(a ethcmn.Address, k ethcmn.Hash) {
	s.u.Slot(a, k)
	s.txAddrs[a] = struct{}{}
}

var _ ethvm.StateDB = (*recState)(nil)

func newRecState(r *RefWorld, u *Universe) *recState {
	return &recState{r: r, u: u, suicided: map[ethcmn.Address]bool{}, created: map[ethcmn.Address]bool{}, txAddrs: map[ethcmn.Address]struct{}{}}
}

func (s *recState) resetTx() {
	s.suicided = map[ethcmn.Address]bool{}
	s.created = map[ethcmn.Address]bool{}
	s.txAddrs = map[ethcmn.Address]struct{}{}
}

func (s *recState) CreateAccount(a ethcmn.Address) {
	s.note(a)
	s.created[a] = true
	s.r.DB.CreateAccount(a)
}
func (s *recState) SubBalance(a ethcmn.Address, v *big.Int) { s.note(a); s.r.DB.SubBalance(a, v) }
func (s *recState) AddBalance(a ethcmn.Address, v *big.Int) { s.note(a); s.r.DB.AddBalance(a, v) }
func (s *recState) GetBalance(a ethcmn.Address) *big.Int {
	s.note(a)
	return s.r.DB.GetBalance(a)
}
func (s *recState) GetNonce(a ethcmn.Address) uint64    { s.note(a); return s.r.DB.GetNonce(a) }
func (s *recState) SetNonce(a ethcmn.Address, n uint64) { s.note(a); s.r.DB.SetNonce(a, n) }
func (s *recState) GetCodeHash(a ethcmn.Address) ethcmn.Hash {
	s.note(a)
	return s.r.DB.GetCodeHash(a)
}
func (s *recState) GetCode(a ethcmn.Address) []byte    { s.note(a); return s.r.DB.GetCode(a) }
func (s *recState) SetCode(a ethcmn.Address, c []byte) { s.note(a); s.r.DB.SetCode(a, c) }
func (s *recState) GetCodeSize(a ethcmn.Address) int   { s.note(a); return s.r.DB.GetCodeSize(a) }
func (s *recState) AddRefund(g uint64)                 { s.r.DB.AddRefund(g) }
func (s *recState) SubRefund(g uint64)                 { s.r.DB.SubRefund(g) }
func (s *recState) GetRefund() uint64                  { return s.r.DB.GetRefund() }
func (s *recState) GetCommittedState(a ethcmn.Address, k ethcmn.Hash) ethcmn.Hash {
	s.noteSlot(a, k)
	return s.r.DB.GetCommittedState(a, k)
}
func (s *recState) GetState(a ethcmn.Address, k ethcmn.Hash) ethcmn.Hash {
	s.noteSlot(a, k)
	return s.r.DB.GetState(a, k)
}
func (s *recState) SetState(a ethcmn.Address, k, v ethcmn.Hash) {
	s.noteSlot(a, k)
	s.r.DB.SetState(a, k, v)
}
func (s *recState) Suicide(a ethcmn.Address) bool {
	s.note(a)
	ok := s.r.DB.Suicide(a)
	if ok {
		s.suicided[a] = true
	}
	return ok
}
func (s *recState) HasSuicided(a ethcmn.Address) bool { s.note(a); return s.r.DB.HasSuicided(a) }
func (s *recState) Exist(a ethcmn.Address) bool       { s.note(a); return s.r.DB.Exist(a) }
func (s *recState) Empty(a ethcmn.Address) bool       { s.note(a); return s.r.DB.Empty(a) }
func (s *recState) PrepareAccessList(sender ethcmn.Address, dest *ethcmn.Address, precompiles []ethcmn.Address, txAccesses ethtypes.AccessList) {
	s.r.DB.PrepareAccessList(sender, dest, precompiles, txAccesses)
}
func (s *recState) AddressInAccessList(a ethcmn.Address) bool { return s.r.DB.AddressInAccessList(a) }
func (s *recState) SlotInAccessList(a ethcmn.Address, k ethcmn.Hash) (bool, bool) {
	return s.r.DB.SlotInAccessList(a, k)
}
func (s *recState) AddAddressToAccessList(a ethcmn.Address) { s.r.DB.AddAddressToAccessList(a) }
func (s *recState) AddSlotToAccessList(a ethcmn.Address, k ethcmn.Hash) {
	s.r.DB.AddSlotToAccessList(a, k)
}
func (s *recState) RevertToSnapshot(i int)              { s.r.DB.RevertToSnapshot(i) }
func (s *recState) Snapshot() int                       { return s.r.DB.Snapshot() }
func (s *recState) AddLog(l *ethtypes.Log)              { s.r.DB.AddLog(l) }
func (s *recState) AddPreimage(h ethcmn.Hash, p []byte) { s.r.DB.AddPreimage(h, p) }
func (s *recState) ForEachStorage(a ethcmn.Address, cb func(ethcmn.Hash, ethcmn.Hash) bool) error {
	return s.r.DB.ForEachStorage(a, cb)
}
func (s *recState) Finalise(b bool) { s.r.DB.Finalise(b) }

// ---------------------------------------------------------------------------
// covTracer: passive coverage accounting on the reference side.
// ---------------------------------------------------------------------------

type covTracer struct {
	counts   map[string]int
	ops      int
	maxDepth int
	// addresses the code asked about through account-reading opcodes
	probed map[ethcmn.Address]bool
	// gas limits at which the outermost frame dies exactly at an opcode
	txGas uint64
	bound []uint64
}

func newCovTracer() *covTracer {
	return &covTracer{counts: map[string]int{}, probed: map[ethcmn.Address]bool{}}
}

func (t *covTracer) CaptureStart(env *ethvm.EVM, from ethcmn.Address, to ethcmn.Address, create bool, input []byte, gas uint64, value *big.Int) {
}

func (t *covTracer) CaptureState(env *ethvm.EVM, pc uint64, op ethvm.OpCode, gas, cost uint64, scope *ethvm.ScopeContext, rData []byte, depth int, err error) {
	t.ops++
	if depth == 1 && t.txGas >= gas && len(t.bound) < 4096 {
		t.bound = append(t.bound, t.txGas-gas)
	}
	if depth > t.maxDepth {
		t.maxDepth = depth
	}
	st := scope.Stack.Data()
	top := func(i int) *big.Int {
		if len(st) <= i {
			return new(big.Int)
		}
		return st[len(st)-1-i].ToBig()
	}
	switch op {
	case ethvm.SSTORE:
		t.counts["op/sstore"]++
		if len(st) >= 2 && err == nil {
			addr := scope.Contract.Address()
			key := ethcmn.BigToHash(top(0))
			val := ethcmn.BigToHash(top(1))
			cur := env.StateDB.GetState(addr, key)
			orig := env.StateDB.GetCommittedState(addr, key)
			zero := ethcmn.Hash{}
			switch {
			case cur == val:
				t.counts["sstore/noop"]++
			case orig == cur && orig == zero:
				t.counts["sstore/fresh-0-to-x"]++
			case orig == cur && val == zero:
				t.counts["sstore/fresh-x-to-0"]++
			case orig == cur:
				t.counts["sstore/fresh-x-to-y"]++
			case orig != zero && cur == zero:
				if val == orig {
					t.counts["sstore/dirty-cleared-then-restored"]++
				} else {
					t.counts["sstore/dirty-cleared-then-other"]++
				}
			case orig != zero && val == zero:
				t.counts["sstore/dirty-then-cleared"]++
			case val == orig:
				t.counts["sstore/dirty-reset-to-original"]++
			default:
				t.counts["sstore/dirty-other"]++
			}
		}
	case ethvm.SLOAD:
		t.counts["op/sload"]++
		// the access list is already updated when the tracer is called: tell by the price
		if cost >= 2100 {
			t.counts["sload/cold"]++
		} else {
			t.counts["sload/warm"]++
		}
	case ethvm.CALL, ethvm.CALLCODE, ethvm.DELEGATECALL, ethvm.STATICCALL:
		t.counts["op/"+lower(op.String())]++
		if len(st) >= 2 {
			a := ethcmn.BigToAddress(top(1))
			t.probed[a] = true
			if (op == ethvm.CALL || op == ethvm.CALLCODE) && len(st) >= 3 && top(2).Sign() > 0 {
				t.counts["call/with-value"]++
			}
			switch {
			case isPrecompileAddr(a):
				t.counts["call/to-precompile"]++
			case !env.StateDB.Exist(a):
				t.counts["call/to-nonexistent"]++
			case env.StateDB.GetCodeSize(a) == 0:
				t.counts["call/to-codeless"]++
			default:
				t.counts["call/to-contract"]++
			}
		}
	case ethvm.CREATE:
		t.counts["op/create"]++
	case ethvm.CREATE2:
		t.counts["op/create2"]++
	case ethvm.SELFDESTRUCT:
		t.counts["op/selfdestruct"]++
		if len(st) >= 1 {
			b := ethcmn.BigToAddress(top(0))
			t.probed[b] = true
			self := scope.Contract.Address()
			switch {
			case b == self:
				t.counts["selfdestruct/beneficiary-self"]++
			case !env.StateDB.Exist(b):
				t.counts["selfdestruct/beneficiary-nonexistent"]++
			default:
				t.counts["selfdestruct/beneficiary-existing"]++
			}
			if env.StateDB.GetBalance(self).Sign() > 0 {
				t.counts["selfdestruct/with-balance"]++
			} else {
				t.counts["selfdestruct/without-balance"]++
			}
		}
	case ethvm.REVERT:
		t.counts["op/revert"]++
		if depth > 1 {
			t.counts["revert/at-depth"]++
		}
	case ethvm.RETURNDATACOPY:
		t.counts["op/returndatacopy"]++
	case ethvm.LOG0, ethvm.LOG1, ethvm.LOG2, ethvm.LOG3, ethvm.LOG4:
		t.counts["op/log"]++
		t.counts["op/"+lower(op.String())]++
	case ethvm.BALANCE, ethvm.EXTCODESIZE, ethvm.EXTCODEHASH, ethvm.EXTCODECOPY:
		t.counts["op/"+lower(op.String())]++
		if len(st) >= 1 {
			t.probed[ethcmn.BigToAddress(top(0))] = true
		}
	case ethvm.SELFBALANCE:
		t.counts["op/selfbalance"]++
	}
}

func (t *covTracer) CaptureFault(env *ethvm.EVM, pc uint64, op ethvm.OpCode, gas, cost uint64, scope *ethvm.ScopeContext, depth int, err error) {
	t.counts["fault/any"]++
}

func (t *covTracer) CaptureEnd(output []byte, gasUsed uint64, tm time.Duration, err error) {}

func lower(s string) string {
	b := []byte(s)
	for i, c := range b {
		if c >= 'A' && c <= 'Z' {
			b[i] = c + 32
		}
	}
	return string(b)
}

func isPrecompileAddr(a ethcmn.Address) bool {
	for i := 0; i < 19; i++ {
		if a[i] != 0 {
			return false
		}
	}
	return a[19] >= 1 && a[19] <= 9
}
