package evmdiff

import (
	"bytes"
	"errors"
	"fmt"
	"math/big"
	"regexp"
	"runtime/debug"
	"strings"

	"github.com/Oneledger/protocol/storage"
	ethcmn "github.com/ethereum/go-ethereum/common"
	ethcore "github.com/ethereum/go-ethereum/core"
	ethtypes "github.com/ethereum/go-ethereum/core/types"
	ethvm "github.com/ethereum/go-ethereum/core/vm"
)

// Divergence is the first observable difference of a case.
type Divergence struct {
	Rule    string `json:"rule"`
	Context string `json:"context"`
	Trait   string `json:"trait"`
	What    string `json:"what"`
	Step    int    `json:"step"` // op / tx index where it was observed
	// Diag marks differences the property text cannot arbitrate (reported as
	// diagnostics, never as violations).
	Diag bool `json:"diag,omitempty"`
	// Fixed: the context is final (callers must not rename it)
	Fixed bool `json:"-"`
}

func (d *Divergence) Signature() string {
	return "C16/" + d.Rule + "/" + d.Context + "/" + d.Trait
}

// History carries what happened to addresses earlier in the case; it only
// feeds the *naming* of a divergence, never its detection.
type History struct {
	DestroyedThisTx    map[ethcmn.Address]bool
	DestroyedSameBlock map[ethcmn.Address]bool
	DestroyedEarlier   map[ethcmn.Address]bool
	RevertedThisTx     bool
	ResetThisTx        map[ethcmn.Address]bool // CreateAccount over an existing account
	ResetEarlier       map[ethcmn.Address]bool
	EmptiedThisTx      map[ethcmn.Address]bool // existed, then deleted as empty (EIP-161) by Finalise
	EmptiedEarlier     map[ethcmn.Address]bool
}

func NewHistory() *History {
	return &History{
		DestroyedThisTx:    map[ethcmn.Address]bool{},
		DestroyedSameBlock: map[ethcmn.Address]bool{},
		DestroyedEarlier:   map[ethcmn.Address]bool{},
		ResetThisTx:        map[ethcmn.Address]bool{},
		ResetEarlier:       map[ethcmn.Address]bool{},
		EmptiedThisTx:      map[ethcmn.Address]bool{},
		EmptiedEarlier:     map[ethcmn.Address]bool{},
	}
}

func (h *History) endTx() {
	for a := range h.DestroyedThisTx {
		h.DestroyedSameBlock[a] = true
	}
	h.DestroyedThisTx = map[ethcmn.Address]bool{}
	for a := range h.ResetThisTx {
		h.ResetEarlier[a] = true
	}
	h.ResetThisTx = map[ethcmn.Address]bool{}
	for a := range h.EmptiedThisTx {
		h.EmptiedEarlier[a] = true
	}
	h.EmptiedThisTx = map[ethcmn.Address]bool{}
	h.RevertedThisTx = false
}

func (h *History) endBlock() {
	for a := range h.DestroyedSameBlock {
		h.DestroyedEarlier[a] = true
	}
	h.DestroyedSameBlock = map[ethcmn.Address]bool{}
}

var tombstone = []byte(storage.TOMBSTONE)

// keeperTombstoned / slotTombstoned peek at the adapter's backing store. They
// are used for naming only.
func keeperTombstoned(w *AdapterWorld, a ethcmn.Address) bool {
	key := append(storage.Prefix("keeper"), a.Bytes()...)
	dat, _ := w.deliver.Get(storage.StoreKey(key))
	return bytes.Equal(dat, tombstone)
}

func anySlotTombstoned(w *AdapterWorld, u *Universe, a ethcmn.Address) bool {
	for _, k := range u.Slots(a) {
		if slotTombstoned(w, a, k) {
			return true
		}
	}
	return false
}

func slotTombstoned(w *AdapterWorld, a ethcmn.Address, k ethcmn.Hash) bool {
	defer func() { recover() }()
	pk := storageKeyOf(a, k)
	dat, _ := w.contracts.Get(append([]byte{0x02}, a.Bytes()...), pk.Bytes())
	return bytes.Equal(dat, tombstone)
}

// contextFor names the circumstances of a divergence. addrs are the addresses
// the divergence is about (the differing account, or everything the current
// transaction touched for transaction-level differences).
func contextFor(h *History, w *AdapterWorld, u *Universe, addrs []ethcmn.Address, fallback string) string {
	return contextForHint(h, w, u, addrs, fallback, false)
}

// tombstoneFirst: the symptom is known to come from a deleted keeper record,
// so name the circumstances of that deletion before anything else.
func contextForHint(h *History, w *AdapterWorld, u *Universe, addrs []ethcmn.Address, fallback string, tombstoneFirst bool) string {
	any := func(m map[ethcmn.Address]bool) bool {
		for _, a := range addrs {
			if m[a] {
				return true
			}
		}
		return false
	}
	if tombstoneFirst {
		for _, a := range addrs {
			if keeperTombstoned(w, a) {
				if h.DestroyedSameBlock[a] {
					return "touch-destroyed-same-block"
				}
				return "touch-deleted-empty-same-block"
			}
		}
	}
	// the account's deletion history, coarsely: few, stable names
	if any(h.DestroyedThisTx) || any(h.DestroyedSameBlock) || any(h.DestroyedEarlier) {
		return "selfdestruct"
	}
	if any(h.EmptiedThisTx) || any(h.EmptiedEarlier) {
		return "emptied-account-deleted"
	}
	if any(h.ResetThisTx) || any(h.ResetEarlier) {
		return "account-recreated"
	}
	for _, a := range addrs {
		if keeperTombstoned(w, a) {
			return "touch-deleted-empty-same-block"
		}
	}
	for _, a := range addrs {
		if anySlotTombstoned(w, u, a) {
			return "slot-cleared-same-block"
		}
	}
	switch {
	case any(h.ResetThisTx), any(h.ResetEarlier):
		return "account-recreated"
	}
	return fallback
}

// ---------------------------------------------------------------------------

type acctView struct {
	Exist    bool
	Empty    bool
	Balance  *big.Int
	Nonce    uint64
	Code     []byte
	CodeHash ethcmn.Hash
	CodeSize int
	State    map[ethcmn.Hash]ethcmn.Hash
	Commit   map[ethcmn.Hash]ethcmn.Hash
}

func viewOf(db ethvm.StateDB, a ethcmn.Address, slots []ethcmn.Hash) acctView {
	v := acctView{
		Exist:    db.Exist(a),
		Empty:    db.Empty(a),
		Balance:  new(big.Int).Set(db.GetBalance(a)),
		Nonce:    db.GetNonce(a),
		Code:     append([]byte(nil), db.GetCode(a)...),
		CodeHash: db.GetCodeHash(a),
		CodeSize: db.GetCodeSize(a),
		State:    map[ethcmn.Hash]ethcmn.Hash{},
		Commit:   map[ethcmn.Hash]ethcmn.Hash{},
	}
	for _, k := range slots {
		v.State[k] = db.GetState(a, k)
		v.Commit[k] = db.GetCommittedState(a, k)
	}
	return v
}

var tombstoneWord = ethcmn.BytesToHash(tombstone)

func storageTrait(got, want ethcmn.Hash) string {
	zero := ethcmn.Hash{}
	switch {
	case got == tombstoneWord && want == zero:
		return "adapter-reads-tombstone-bytes-ref-zero"
	case got == tombstoneWord:
		return "adapter-reads-tombstone-bytes"
	case got != zero && want == zero:
		return "adapter-nonzero-ref-zero"
	case got == zero && want != zero:
		return "adapter-zero-ref-nonzero"
	}
	return "values-differ"
}

// diffViews returns the differing fields (stable order) between the adapter
// view and the reference view of one account.
func diffViews(ad, rf acctView, slots []ethcmn.Hash) (fields []string, detail string) {
	add := func(f, d string) {
		fields = append(fields, f)
		if detail != "" {
			detail += "; "
		}
		detail += d
	}
	if c := ad.Balance.Cmp(rf.Balance); c != 0 {
		dir := "balance-adapter-higher"
		if c < 0 {
			dir = "balance-adapter-lower"
		}
		add(dir, fmt.Sprintf("balance adapter=%v ref=%v", ad.Balance, rf.Balance))
	}
	if ad.Nonce != rf.Nonce {
		add("nonce", fmt.Sprintf("nonce adapter=%d ref=%d", ad.Nonce, rf.Nonce))
	}
	if !bytes.Equal(ad.Code, rf.Code) || ad.CodeSize != rf.CodeSize {
		f := "code-differs"
		switch {
		case len(ad.Code) == 0:
			f = "code-adapter-lacks"
		case len(rf.Code) == 0:
			f = "code-adapter-keeps"
		}
		add(f, fmt.Sprintf("code adapter=%x(size %d) ref=%x(size %d)", ad.Code, ad.CodeSize, rf.Code, rf.CodeSize))
	} else if ad.Exist == rf.Exist && ad.CodeHash != rf.CodeHash {
		add("codehash", fmt.Sprintf("codehash adapter=%s ref=%s", ad.CodeHash.Hex(), rf.CodeHash.Hex()))
	}
	for _, k := range slots {
		if ad.State[k] != rf.State[k] {
			add("storage-"+storageTrait(ad.State[k], rf.State[k]), fmt.Sprintf("GetState[%s] adapter=%s ref=%s", shortHash(k), shortHash(ad.State[k]), shortHash(rf.State[k])))
			break
		}
		if ad.Commit[k] != rf.Commit[k] {
			add("committed-storage-"+storageTrait(ad.Commit[k], rf.Commit[k]), fmt.Sprintf("GetCommittedState[%s] adapter=%s ref=%s", shortHash(k), shortHash(ad.Commit[k]), shortHash(rf.Commit[k])))
			break
		}
	}
	// existence last: it is the least specific symptom
	if ad.Exist != rf.Exist {
		add(fmt.Sprintf("exist-adapter-%v", ad.Exist), fmt.Sprintf("Exist adapter=%v ref=%v", ad.Exist, rf.Exist))
	}
	if ad.Empty != rf.Empty {
		add(fmt.Sprintf("empty-adapter-%v", ad.Empty), fmt.Sprintf("Empty adapter=%v ref=%v", ad.Empty, rf.Empty))
	}
	return
}

func shortHash(h ethcmn.Hash) string {
	b := bytes.TrimLeft(h.Bytes(), "\x00")
	if len(b) == 0 {
		return "0x0"
	}
	return fmt.Sprintf("0x%x", b)
}

// compareState compares every account and slot of the universe between a
// fresh adapter observer and the reference, then the raw native balance
// records against the adapter's own answer.
func compareState(w *AdapterWorld, r *RefWorld, u *Universe, h *History, phase string, counts map[string]int) (div *Divergence) {
	var cur string
	defer func() {
		if p := recover(); p != nil {
			div = &Divergence{Rule: "crash", Context: panicWhere("observe"), Trait: panicTrait(p), What: fmt.Sprintf("adapter panicked while reading %s after %s: %v", cur, phase, p), Fixed: true}
		}
	}()
	obs := w.Observer()
	var diag *Divergence
	for _, a := range u.Addrs() {
		cur = a.Hex()
		slots := u.Slots(a)
		ad := viewOf(obs, a, slots)
		rf := viewOf(r.DB, a, slots)
		counts["cmp/accounts"]++
		counts["cmp/slots"] += len(slots)
		fields, detail := diffViews(ad, rf, slots)
		if len(fields) == 0 {
			continue
		}
		if len(fields) == 1 && strings.HasPrefix(fields[0], "exist-") && ad.Empty && rf.Empty {
			// an empty account that exists vs. one that does not: not
			// observable through the EVM after EIP-161, the property text
			// does not arbitrate
			if diag == nil {
				diag = &Divergence{Diag: true, Rule: "final-state", Context: contextFor(h, w, u, []ethcmn.Address{a}, "plain"), Trait: fields[0] + "-both-empty", What: fmt.Sprintf("account %s after %s: %s", a.Hex(), phase, detail)}
			}
			continue
		}
		d := &Divergence{Rule: "final-state", Context: contextFor(h, w, u, []ethcmn.Address{a}, "plain"), Trait: fields[0],
			What: fmt.Sprintf("account %s after %s: %s", a.Hex(), phase, detail)}
		if strings.Contains(d.Trait, "tombstone-bytes") {
			d.Context, d.Fixed = "slot-cleared-same-block", true
		}
		return d
	}
	for _, a := range u.Addrs() {
		cur = a.Hex()
		raw, err := w.NativeBalance(a)
		counts["cmp/native-records"]++
		if err != nil {
			return &Divergence{Rule: "native-balance-record", Context: contextFor(h, w, u, []ethcmn.Address{a}, "plain"), Trait: "record-unreadable",
				What: fmt.Sprintf("native record of %s after %s unreadable: %v", a.Hex(), phase, err)}
		}
		got := obs.GetBalance(a)
		if raw.Cmp(got) != 0 {
			ctx := contextFor(h, w, u, []ethcmn.Address{a}, "plain")
			trait := "record-differs-from-adapter-balance"
			switch {
			case raw.Cmp(got) > 0 && (h.DestroyedThisTx[a] || h.DestroyedSameBlock[a] || h.DestroyedEarlier[a]):
				trait = "destroyed-account-balance-record-kept"
			case raw.Cmp(got) > 0 && (h.EmptiedThisTx[a] || h.EmptiedEarlier[a]):
				trait = "emptied-account-balance-record-kept"
			}
			return &Divergence{Rule: "native-balance-record", Context: ctx, Trait: trait,
				What: fmt.Sprintf("native record b_%s_OLT=%v but adapter GetBalance=%v (reference %v) after %s", a.Hex(), raw, got, r.DB.GetBalance(a), phase)}
		}
	}
	return diag
}

// ---------------------------------------------------------------------------

type sentinel struct {
	name string
	err  error
}

var consensusSentinels = []sentinel{
	{"nonce-too-low", ethcore.ErrNonceTooLow},
	{"nonce-too-high", ethcore.ErrNonceTooHigh},
	{"gas-limit-reached", ethcore.ErrGasLimitReached},
	{"insufficient-funds-for-transfer", ethcore.ErrInsufficientFundsForTransfer},
	{"insufficient-funds", ethcore.ErrInsufficientFunds},
	{"gas-uint-overflow", ethcore.ErrGasUintOverflow},
	{"intrinsic-gas", ethcore.ErrIntrinsicGas},
	{"sender-no-eoa", ethcore.ErrSenderNoEOA},
}

var nonWord = regexp.MustCompile(`[^a-z0-9]+`)

func slug(s string, max int) string {
	s = nonWord.ReplaceAllString(strings.ToLower(s), "-")
	s = strings.Trim(s, "-")
	if len(s) > max {
		s = strings.Trim(s[:max], "-")
	}
	if s == "" {
		s = "empty"
	}
	return s
}

var hexRun = regexp.MustCompile(`0x[0-9a-fA-F]+|[0-9a-fA-F]{16,}|[0-9]+`)

// errClass maps an error to a class that does not contain addresses/numbers.
func errClass(err error) string {
	if err == nil {
		return "none"
	}
	for _, s := range consensusSentinels {
		if errors.Is(err, s.err) {
			return s.name
		}
	}
	msg := err.Error()
	if strings.HasPrefix(msg, "commit aborted due to earlier error") {
		switch {
		case strings.Contains(msg, "failed to get account") && strings.Contains(msg, "invalid character"):
			return "commit-aborted-tombstone-parsed-as-json"
		case strings.Contains(msg, "failed to get account"):
			return "commit-aborted-failed-to-get-account"
		case strings.Contains(msg, "failed to create a new address"):
			return "commit-aborted-failed-to-create-account"
		}
		return "commit-aborted-" + slug(hexRun.ReplaceAllString(strings.TrimPrefix(msg, "commit aborted due to earlier error"), ""), 40)
	}
	if i := strings.Index(msg, ":"); i > 0 {
		msg = msg[:i]
	}
	return slug(hexRun.ReplaceAllString(msg, ""), 48)
}

// panicWhere names the innermost function of the code under test on the
// panicking stack (must be called from the deferred recover).
func panicWhere(fallback string) string {
	lines := strings.Split(string(debug.Stack()), "\n")
	seenPanic := false
	for _, l := range lines {
		if strings.HasPrefix(l, "panic(") {
			seenPanic = true
			continue
		}
		if !seenPanic || strings.HasPrefix(l, "\t") {
			continue
		}
		if i := strings.Index(l, "github.com/Oneledger/protocol/"); i >= 0 {
			fn := l[i+len("github.com/Oneledger/protocol/"):]
			if j := strings.LastIndex(fn, "("); j > 0 {
				fn = fn[:j]
			}
			return slug(fn, 48)
		}
	}
	return fallback
}

func panicTrait(p interface{}) string {
	msg := fmt.Sprint(p)
	if e, ok := p.(error); ok {
		msg = e.Error()
	}
	msg = hexRun.ReplaceAllString(msg, "")
	return "panic-" + slug(msg, 56)
}

func vmErrString(err error) string {
	if err == nil {
		return ""
	}
	return err.Error()
}

// compareLogs compares address, topics, data and index ordering.
func compareLogs(ad, rf []*ethtypes.Log) string {
	if len(ad) != len(rf) {
		return fmt.Sprintf("log count adapter=%d ref=%d", len(ad), len(rf))
	}
	for i := range ad {
		a, r := ad[i], rf[i]
		if a.Address != r.Address {
			return fmt.Sprintf("log %d address adapter=%s ref=%s", i, a.Address.Hex(), r.Address.Hex())
		}
		if len(a.Topics) != len(r.Topics) {
			return fmt.Sprintf("log %d topic count adapter=%d ref=%d", i, len(a.Topics), len(r.Topics))
		}
		for j := range a.Topics {
			if a.Topics[j] != r.Topics[j] {
				return fmt.Sprintf("log %d topic %d differs", i, j)
			}
		}
		if !bytes.Equal(a.Data, r.Data) {
			return fmt.Sprintf("log %d data adapter=%x ref=%x", i, a.Data, r.Data)
		}
		if a.Index != r.Index {
			return fmt.Sprintf("log %d index adapter=%d ref=%d", i, a.Index, r.Index)
		}
		if a.TxHash != r.TxHash {
			return fmt.Sprintf("log %d txhash adapter=%s ref=%s", i, a.TxHash.Hex(), r.TxHash.Hex())
		}
	}
	return ""
}

func logsTrait(detail string) string {
	switch {
	case strings.HasPrefix(detail, "log count"):
		return "count-differs"
	case strings.Contains(detail, "index"):
		return "index-differs"
	case strings.Contains(detail, "txhash"):
		return "txhash-differs"
	}
	return "content-differs"
}

// errorTrait names a consensus-error mismatch.
func errorTrait(ctx, adapterClass, refClass string) string {
	if refClass == "none" && strings.Contains(adapterClass, "tombstone") {
		switch ctx {
		case "touch-destroyed-same-block":
			return "later-tx-touching-destroyed-address-fails"
		case "touch-deleted-empty-same-block":
			return "later-tx-touching-deleted-empty-address-fails"
		}
	}
	return "adapter-" + adapterClass + "-ref-" + refClass
}
