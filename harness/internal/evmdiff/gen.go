package evmdiff

import (
	"encoding/hex"
	"fmt"
	"math/rand"

	ethcmn "github.com/ethereum/go-ethereum/common"
)

// ---------------------------------------------------------------------------
// Interface-level generator
// ---------------------------------------------------------------------------

var (
	ifaceAmounts = []string{"0", "1", "1000", "1000000000000000000", "7"}
	ifaceWords   = []string{"0x0", "0x1", "0x2", "0xffffffffffffffffffffffffffffffffffffffffffffffffffffffffffffffff", "0x0", "0x0"}
	ifaceCodes   = []string{"", "00", "6001600155", "fe", "60016000f3"}
)

type weighted struct {
	op string
	w  int
}

var ifaceWeights = []weighted{
	{"CreateAccount", 4}, {"AddBalance", 9}, {"SubBalance", 6}, {"SetNonce", 5}, {"SetCode", 5},
	{"SetState", 14}, {"GetState", 8}, {"GetCommittedState", 8}, {"GetBalance", 5}, {"GetNonce", 3},
	{"GetCode", 3}, {"GetCodeHash", 3}, {"GetCodeSize", 3}, {"Exist", 5}, {"Empty", 5},
	{"Suicide", 4}, {"HasSuicided", 3}, {"AddRefund", 4}, {"SubRefund", 3}, {"GetRefund", 3},
	{"AddLog", 4}, {"AddressInAccessList", 3}, {"SlotInAccessList", 3}, {"AddAddressToAccessList", 3},
	{"AddSlotToAccessList", 3}, {"PrepareAccessList", 1}, {"Snapshot", 9}, {"RevertToSnapshot", 7},
	{"EndTx", 8}, {"EndBlock", 3},
}

func pickWeighted(rng *rand.Rand, ws []weighted) string {
	tot := 0
	for _, w := range ws {
		tot += w.w
	}
	n := rng.Intn(tot)
	for _, w := range ws {
		if n < w.w {
			return w.op
		}
		n -= w.w
	}
	return ws[0].op
}

func GenIface(rng *rand.Rand, maxLen int) *IfaceCase {
	n := 8 + rng.Intn(maxLen-7)
	ic := &IfaceCase{Layer: "iface"}
	// profiles: a commit after every transaction keeps same-block store
	// artefacts out of the way; some sequences never self-destruct
	ic.BlockPerTx = rng.Intn(100) < 45
	noSuicide := rng.Intn(100) < 35
	// most sequences concentrate on few addresses so that operations interact
	focus := rng.Intn(len(ifaceAddrs))
	focus2 := rng.Intn(len(ifaceAddrs))
	pickAddr := func() int {
		switch r := rng.Intn(10); {
		case r < 5:
			return focus
		case r < 8:
			return focus2
		}
		return rng.Intn(len(ifaceAddrs))
	}
	for i := 0; i < n; i++ {
		op := IOp{Op: pickWeighted(rng, ifaceWeights), A: pickAddr(), K: rng.Intn(3)}
		if noSuicide && op.Op == "Suicide" {
			op.Op = "SetState"
		}
		switch op.Op {
		case "AddBalance", "SubBalance":
			op.V = ifaceAmounts[rng.Intn(len(ifaceAmounts))]
		case "SetNonce":
			op.N = uint64([]int{0, 1, 2, 5}[rng.Intn(4)])
		case "SetCode":
			op.V = ifaceCodes[rng.Intn(len(ifaceCodes))]
		case "SetState":
			op.V = ifaceWords[rng.Intn(len(ifaceWords))]
		case "AddRefund", "SubRefund":
			op.N = uint64([]int{0, 1, 4800, 15000, 19900}[rng.Intn(5)])
		case "AddLog":
			op.N = uint64(rng.Intn(5))
			op.V = []string{"", "x", "hello-log"}[rng.Intn(3)]
		case "RevertToSnapshot":
			op.N = uint64(rng.Intn(8))
		case "PrepareAccessList":
			op.B = rng.Intn(len(ifaceAddrs)+1) - 1
			for j := rng.Intn(3); j > 0; j-- {
				e := IALEnt{A: rng.Intn(len(ifaceAddrs))}
				for s := rng.Intn(3); s > 0; s-- {
					e.Slots = append(e.Slots, rng.Intn(3))
				}
				op.List = append(op.List, e)
			}
		}
		ic.Ops = append(ic.Ops, op)
	}
	return ic
}

// ---------------------------------------------------------------------------
// Program-level generator
// ---------------------------------------------------------------------------

func fixedA(a ethcmn.Address) *AddrExpr { return &AddrExpr{K: "fixed", Hex: a.Hex()} }
func refA(id int) *AddrExpr             { return &AddrExpr{K: "ref", Ref: id} }
func selfA() *AddrExpr                  { return &AddrExpr{K: "self"} }
func callerA() *AddrExpr                { return &AddrExpr{K: "caller"} }
func slotA(s uint64) *AddrExpr          { return &AddrExpr{K: "slot", Slot: s} }
func argA() *AddrExpr                   { return &AddrExpr{K: "arg"} }

const (
	gasDeploy = 3_000_000
	gasCall   = 1_000_000
)

type progGen struct {
	rng  *rand.Rand
	pc   *ProgCase
	mode string // block mode: each one mixed
}

func (g *progGen) pick(n int) int { return g.rng.Intn(n) }
func (g *progGen) chance(p int) bool {
	return g.rng.Intn(100) < p
}

func (g *progGen) gasPrice() uint64 {
	switch r := g.pick(20); {
	case r == 0:
		return 0
	case r < 3:
		return 1
	case r < 5:
		return 7
	}
	return 1_000_000_000
}

func (g *progGen) add(tx TxSpec) int {
	tx.ID = len(g.pc.Txs) + 1
	if tx.GasPrice == 0 && tx.Note != "gasprice0" {
		tx.GasPrice = g.gasPrice()
	}
	if tx.Gas == 0 {
		if tx.Deploy != nil || tx.RawInit != "" {
			tx.Gas = gasDeploy
		} else {
			tx.Gas = gasCall
		}
	}
	// now and then a call is under-funded for its intrinsic gas: the sender is
	// charged by buyGas, the message is rejected, the tx session is discarded
	if tx.To != nil && tx.Note == "" && g.chance(3) {
		tx.Gas = 21000 + uint64(g.pick(15))
		tx.Note = "below-intrinsic"
	}
	switch g.mode {
	case "each":
		tx.EndBlock = true
	case "mixed":
		tx.EndBlock = g.chance(35)
	}
	g.pc.Txs = append(g.pc.Txs, tx)
	return tx.ID
}

func (g *progGen) deploy(c *Contract, value string) int {
	return g.add(TxSpec{From: g.pick(len(eoas)), Deploy: c, Value: value})
}

func (g *progGen) call(to *AddrExpr, sel int, arg *AddrExpr, value string) int {
	return g.add(TxSpec{From: g.pick(len(eoas)), To: to, Sel: sel, Arg: arg, Value: value})
}

// forceBlock overrides the block boundary after the last added tx.
func (g *progGen) forceBlock(end bool) {
	g.pc.Txs[len(g.pc.Txs)-1].EndBlock = end
}

func (g *progGen) smallVal() uint64 { return []uint64{0, 1, 2, 3, 0xdeadbeef}[g.pick(5)] }

func (g *progGen) someValue() string {
	return []string{"", "", "1", "1000", "1000000000000000000"}[g.pick(5)]
}

func (g *progGen) otherAddr() *AddrExpr {
	all := []ethcmn.Address{eoas[0], eoas[1], eoas[2], nativeOnly, nonexistent1, nonexistent2, precompiles[0], precompiles[1], precompiles[2], precompiles[3]}
	return fixedA(all[g.pick(len(all))])
}

func (g *progGen) target(refs []int) *AddrExpr {
	switch r := g.pick(10); {
	case r < 5 && len(refs) > 0:
		return refA(refs[g.pick(len(refs))])
	case r < 6:
		return selfA()
	case r < 7:
		return slotA(uint64(g.pick(3)))
	}
	return g.otherAddr()
}

func (g *progGen) randTerm(refs []int) Term {
	switch r := g.pick(100); {
	case r < 50:
		return Term{K: "return"}
	case r < 63:
		return Term{K: "stop"}
	case r < 80:
		return Term{K: "revert"}
	case r < 86:
		return Term{K: "invalid"}
	case r < 97:
		t := g.target(refs)
		if g.chance(30) {
			t = callerA()
		}
		return Term{K: "selfdestruct", Addr: t}
	}
	return Term{K: "loop"}
}

func (g *progGen) randStmt(refs []int, depth, nsecs int) Stmt {
	switch r := g.pick(100); {
	case r < 26:
		s := Stmt{K: "sstore", Slot: uint64(g.pick(3)), Val: g.smallVal()}
		if g.chance(8) {
			s.Big = true
		}
		return s
	case r < 38:
		return Stmt{K: "sload", Slot: uint64(g.pick(3))}
	case r < 60:
		k := []string{"call", "call", "call", "callcode", "delegatecall", "staticcall"}[g.pick(6)]
		s := Stmt{K: k, Addr: g.target(refs), Sel: g.pick(5)}
		if g.chance(30) {
			s.Value = []uint64{1, 2, 1000}[g.pick(3)]
		}
		if g.chance(25) {
			s.Gas = []uint64{0, 100, 2300, 10000, 40000}[g.pick(5)]
		}
		if g.chance(40) {
			s.Arg = g.target(refs)
		}
		return s
	case r < 67:
		k := "create"
		if g.chance(50) {
			k = "create2"
		}
		s := Stmt{K: k, Salt: uint64(g.pick(2)), Store: g.pick(3)}
		if depth < 2 {
			s.Child = g.randContract(refs, depth+1)
		} else {
			s.Child = &Contract{Secs: []Section{{Term: Term{K: "return"}}}}
		}
		if g.chance(30) {
			s.Value = 1
		}
		return s
	case r < 76:
		return Stmt{K: "log", N: g.pick(5), Len: []int{0, 1, 32, 40}[g.pick(4)]}
	case r < 82:
		return Stmt{K: "balance", Addr: g.target(refs)}
	case r < 85:
		return Stmt{K: "selfbalance"}
	case r < 89:
		return Stmt{K: "extcodesize", Addr: g.target(refs)}
	case r < 93:
		return Stmt{K: "extcodehash", Addr: g.target(refs)}
	case r < 96:
		return Stmt{K: "extcodecopy", Addr: g.target(refs)}
	case r < 98:
		return Stmt{K: "retcopy", Val: uint64(g.pick(3)) * 16, Len: []int{0, 32, 64}[g.pick(3)]}
	}
	return Stmt{K: "callvalue"}
}

func (g *progGen) randSection(refs []int, depth, nsecs, maxStmts int) Section {
	sec := Section{}
	for n := 1 + g.pick(maxStmts); n > 0; n-- {
		sec.Stmts = append(sec.Stmts, g.randStmt(refs, depth, nsecs))
	}
	sec.Term = g.randTerm(refs)
	return sec
}

func (g *progGen) randContract(refs []int, depth int) *Contract {
	c := &Contract{}
	nsecs := 1 + g.pick(4)
	if depth > 0 {
		nsecs = 1 + g.pick(2)
	}
	maxStmts := 6
	if depth > 0 {
		maxStmts = 3
	}
	for i := 0; i < nsecs; i++ {
		c.Secs = append(c.Secs, g.randSection(refs, depth, nsecs, maxStmts))
	}
	// constructor
	for n := g.pick(3); n > 0; n-- {
		s := g.randStmt(refs, 2, nsecs) // no nested creates in constructors of random contracts
		if s.K == "create" || s.K == "create2" {
			s = Stmt{K: "sstore", Slot: uint64(g.pick(3)), Val: 1 + uint64(g.pick(3))}
		}
		c.Ctor.Stmts = append(c.Ctor.Stmts, s)
	}
	switch r := g.pick(100); {
	case r < 80:
		c.Ctor.Term = Term{K: "deploy"}
	case r < 85:
		c.Ctor.Term = Term{K: "revert"}
	case r < 88:
		c.Ctor.Term = Term{K: "invalid"}
	case r < 92:
		c.Ctor.Term = Term{K: "selfdestruct", Addr: g.target(refs)}
	case r < 94:
		c.Ctor.Term = Term{K: "stop"}
	case r < 96:
		c.Ctor.Term = Term{K: "deploy-ef"}
	case r < 98:
		c.Ctor.Term = Term{K: "deploy-big"}
	default:
		c.Ctor.Term = Term{K: "loop"}
	}
	return c
}

// --- directed templates -----------------------------------------------------

func (g *progGen) tmplSstoreMatrix() {
	s := uint64(g.pick(2))
	orig := []uint64{0, 5}[g.pick(2)]
	vals := []uint64{0, orig, 9}
	v := func() uint64 { return vals[g.pick(3)] }
	c := &Contract{}
	if orig != 0 {
		c.Ctor.Stmts = []Stmt{{K: "sstore", Slot: s, Val: orig}}
	}
	a, b, cc := v(), v(), v()
	c.Secs = []Section{
		{Stmts: []Stmt{{K: "sstore", Slot: s, Val: a}, {K: "sstore", Slot: s, Val: b}, {K: "sstore", Slot: s, Val: cc}, {K: "sload", Slot: s}}, Term: Term{K: "return"}},
		{Stmts: []Stmt{{K: "sload", Slot: s}, {K: "sload", Slot: s}}, Term: Term{K: "return"}},
		{Stmts: []Stmt{{K: "sstore", Slot: s, Val: v()}}, Term: Term{K: []string{"revert", "invalid", "return"}[g.pick(3)]}},
		{Stmts: []Stmt{{K: "sstore", Slot: s, Val: v()}, {K: "call", Addr: selfA(), Sel: 2}, {K: "sload", Slot: s}, {K: "sstore", Slot: s, Val: v()}, {K: "sload", Slot: s}}, Term: Term{K: "return"}},
		{Stmts: []Stmt{{K: "sstore", Slot: s, Val: v()}}, Term: Term{K: "stop"}},
		// every dirty-slot case of EIP-2200/3529 in one go
		{Stmts: []Stmt{{K: "sstore", Slot: s, Val: 9}, {K: "sstore", Slot: s, Val: 0}, {K: "sstore", Slot: s, Val: orig}, {K: "sstore", Slot: s, Val: 0}, {K: "sstore", Slot: s, Val: 9}, {K: "sstore", Slot: s, Val: orig}, {K: "sload", Slot: s}}, Term: Term{K: "return"}},
	}
	id := g.deploy(c, "")
	for n := 2 + g.pick(4); n > 0; n-- {
		tx := TxSpec{From: g.pick(len(eoas)), To: refA(id), Sel: []int{0, 1, 3, 4, 1, 5, 5}[g.pick(7)]}
		if g.chance(30) {
			tx.AL = []ALSpec{{Addr: *refA(id), Slots: []uint64{s}}}
		}
		g.add(tx)
	}
	g.call(refA(id), 1, nil, "")
}

func (g *progGen) calleeContract() *Contract {
	return &Contract{
		Ctor: Section{Stmts: []Stmt{{K: "sstore", Slot: 0, Val: 7}}, Term: Term{K: "deploy"}},
		Secs: []Section{
			{Stmts: []Stmt{{K: "callvalue"}, {K: "caller"}, {K: "sload", Slot: 0}, {K: "selfbalance"}}, Term: Term{K: "return"}},
			{Stmts: []Stmt{{K: "sstore", Slot: 1, Val: 3}, {K: "sload", Slot: 0}}, Term: Term{K: "revert"}},
			{Stmts: []Stmt{{K: "sstore", Slot: 1, Val: 4}}, Term: Term{K: "invalid"}},
			{Stmts: []Stmt{{K: "sstore", Slot: 1, Val: 5}}, Term: Term{K: "loop"}},
			{Stmts: []Stmt{{K: "sstore", Slot: 1, Val: g.smallVal()}, {K: "log", N: 1, Len: 0}}, Term: Term{K: "stop"}},
			{Term: Term{K: "selfdestruct", Addr: callerA()}},
		},
	}
}

func (g *progGen) tmplCallTree() {
	b := g.deploy(g.calleeContract(), g.someValue())
	kinds := []string{"call", "callcode", "delegatecall", "staticcall"}
	a := &Contract{Ctor: Section{Term: Term{K: "deploy"}}}
	for i := 0; i < 5; i++ {
		var stmts []Stmt
		for n := 1 + g.pick(3); n > 0; n-- {
			st := Stmt{K: kinds[g.pick(4)], Sel: g.pick(6)}
			switch r := g.pick(10); {
			case r < 5:
				st.Addr = refA(b)
			case r < 6:
				st.Addr = argA()
			default:
				st.Addr = g.otherAddr()
			}
			if g.chance(40) {
				st.Value = []uint64{1, 5}[g.pick(2)]
			}
			if g.chance(25) {
				st.Gas = []uint64{100, 2300, 30000}[g.pick(3)]
			}
			stmts = append(stmts, st)
			if g.chance(30) {
				stmts = append(stmts, Stmt{K: "retcopy", Val: uint64(g.pick(2)) * 32, Len: []int{0, 32, 96}[g.pick(3)]})
			}
		}
		stmts = append(stmts, Stmt{K: "sload", Slot: 1}, Stmt{K: "selfbalance"})
		a.Secs = append(a.Secs, Section{Stmts: stmts, Term: Term{K: []string{"return", "return", "revert", "stop"}[g.pick(4)]}})
	}
	aid := g.deploy(a, []string{"", "100", "1000000"}[g.pick(3)])
	for n := 2 + g.pick(4); n > 0; n-- {
		g.call(refA(aid), g.pick(5), refA(b), g.someValue())
	}
}

func (g *progGen) childVariant(v int) *Contract {
	rt := []Section{
		{Stmts: []Stmt{{K: "sload", Slot: 0}, {K: "sload", Slot: 1}, {K: "selfbalance"}}, Term: Term{K: "return"}},
		{Term: Term{K: "selfdestruct", Addr: callerA()}},
		{Stmts: []Stmt{{K: "sstore", Slot: 1, Val: 1 + uint64(g.pick(3))}}, Term: Term{K: "stop"}},
	}
	c := &Contract{Secs: rt, Ctor: Section{Stmts: []Stmt{{K: "sstore", Slot: 0, Val: 11}}, Term: Term{K: "deploy"}}}
	switch v {
	case 1:
		c.Ctor.Term = Term{K: "revert"}
	case 2:
		c.Ctor.Term = Term{K: "invalid"}
	case 3:
		c.Ctor.Term = Term{K: "loop"}
	case 4:
		c.Ctor.Term = Term{K: "selfdestruct", Addr: []*AddrExpr{callerA(), fixedA(nonexistent2), fixedA(eoas[0])}[g.pick(3)]}
	case 5:
		c.Ctor.Term = Term{K: "deploy-ef"}
	case 6:
		c.Ctor.Term = Term{K: "deploy-big"}
	case 7:
		c.Ctor.Term = Term{K: "stop"}
	case 8:
		c.Ctor.Stmts = append(c.Ctor.Stmts, Stmt{K: "log", N: 2, Len: 0}, Stmt{K: "call", Addr: callerA(), Sel: 6})
	}
	return c
}

func (g *progGen) tmplCreate() {
	variant := func() int {
		if g.chance(45) {
			return 0
		}
		return g.pick(9)
	}
	salt := uint64(g.pick(2))
	f := &Contract{Ctor: Section{Term: Term{K: "deploy"}}}
	f.Secs = []Section{
		{Stmts: []Stmt{{K: "create", Child: g.childVariant(variant()), Value: uint64(g.pick(2)), Store: 1}, {K: "extcodesize", Addr: slotA(0)}}, Term: Term{K: "return"}},
		{Stmts: []Stmt{{K: "create2", Salt: salt, Child: g.childVariant(0), Value: uint64(g.pick(2)), Store: 2}, {K: "extcodehash", Addr: slotA(1)}}, Term: Term{K: "return"}},
		{Stmts: []Stmt{{K: "call", Addr: slotA(0), Sel: 0}, {K: "call", Addr: slotA(1), Sel: 0}}, Term: Term{K: "return"}},
		{Stmts: []Stmt{{K: "call", Addr: slotA(1), Sel: 2}, {K: "call", Addr: slotA(1), Sel: 0}}, Term: Term{K: "return"}},
		{Stmts: []Stmt{{K: "create2", Salt: salt, Child: g.childVariant(0), Store: 2}, {K: "create2", Salt: salt, Child: g.childVariant(0), Store: 3}}, Term: Term{K: "return"}},
		{Stmts: []Stmt{{K: "call", Addr: slotA(1), Sel: 1}, {K: "extcodesize", Addr: slotA(1)}, {K: "balance", Addr: slotA(1)}}, Term: Term{K: "return"}},
		{Stmts: []Stmt{{K: "sload", Slot: 0}}, Term: Term{K: "stop"}}, // sel 6: callback target for constructors
		{Stmts: []Stmt{{K: "create", Child: g.childVariant(variant()), Value: 1, Store: 1}}, Term: Term{K: []string{"revert", "return"}[g.pick(2)]}},
	}
	fid := g.deploy(f, []string{"", "10", "100000"}[g.pick(3)])
	script := [][]int{
		{0, 2, 0, 2},
		{1, 3, 2, 5, 1, 2},    // create2, write child storage, destroy, re-create at the same address, read
		{1, 1, 2},             // collision across txs
		{4, 2},                // collision within a tx
		{1, 5, 2, 1, 2},       // destroy then touch then recreate
		{7, 0, 2, 7},          // creation inside reverted frame
		{0, 1, 2, 3, 5, 2, 1}, // mix
	}[g.pick(7)]
	for _, sel := range script {
		g.call(refA(fid), sel, nil, "")
	}
}

func (g *progGen) inspector() *Contract {
	return &Contract{
		Ctor: Section{Term: Term{K: "deploy"}},
		Secs: []Section{
			{Stmts: []Stmt{{K: "balance", Addr: argA()}, {K: "extcodesize", Addr: argA()}, {K: "extcodehash", Addr: argA()}, {K: "extcodecopy", Addr: argA()}}, Term: Term{K: "return"}},
			{Stmts: []Stmt{{K: "call", Addr: argA(), Sel: 1, Value: 0}, {K: "balance", Addr: argA()}}, Term: Term{K: "return"}},
			{Stmts: []Stmt{{K: "call", Addr: argA(), Sel: 1, Value: 1}, {K: "balance", Addr: argA()}, {K: "extcodehash", Addr: argA()}}, Term: Term{K: "return"}},
			{Stmts: []Stmt{{K: "staticcall", Addr: argA(), Sel: 1}, {K: "extcodesize", Addr: argA()}}, Term: Term{K: "return"}},
		},
	}
}

func (g *progGen) tmplSelfdestruct() {
	insp := g.deploy(g.inspector(), "1000")
	bens := []*AddrExpr{selfA(), callerA(), fixedA(eoas[1]), fixedA(nativeOnly), fixedA(nonexistent1), fixedA(precompiles[3]), refA(insp)}
	ben := bens[g.pick(len(bens))]
	d := &Contract{
		Ctor: Section{Stmts: []Stmt{{K: "sstore", Slot: 0, Val: 42}}, Term: Term{K: "deploy"}},
		Secs: []Section{
			{Stmts: []Stmt{{K: "selfbalance"}}, Term: Term{K: "selfdestruct", Addr: ben}},
			{Stmts: []Stmt{{K: "sload", Slot: 0}, {K: "selfbalance"}}, Term: Term{K: "return"}},
			{Stmts: []Stmt{{K: "sstore", Slot: 1, Val: 2}, {K: "call", Addr: selfA(), Sel: 0}, {K: "selfbalance"}, {K: "sload", Slot: 0}}, Term: Term{K: []string{"return", "revert"}[g.pick(2)]}},
		},
	}
	endow := []string{"", "", "5", "1000000000000000000"}[g.pick(4)]
	did := g.deploy(d, endow)
	// a second deployment of the same code: it lives on when the first one is destroyed
	twin := -1
	if g.chance(50) {
		twin = g.deploy(d, "7")
	}
	if g.chance(30) {
		g.add(TxSpec{From: g.pick(len(eoas)), To: refA(did), Sel: -1, Value: "3"}) // plain transfer in
	}
	// destroy
	g.call(refA(did), []int{0, 0, 2}[g.pick(3)], nil, []string{"", "2"}[g.pick(2)])
	switch g.pick(3) {
	case 0:
		g.forceBlock(false)
	case 1:
		g.forceBlock(true)
	}
	// touch afterwards, in the same block and in later blocks
	for n := 1 + g.pick(4); n > 0; n-- {
		switch g.pick(5) {
		case 0:
			g.call(refA(insp), 0, refA(did), "")
		case 1:
			g.call(refA(insp), 1+g.pick(3), refA(did), "")
		case 2:
			g.add(TxSpec{From: g.pick(len(eoas)), To: refA(did), Sel: -1, Value: []string{"", "1"}[g.pick(2)]})
		case 3:
			g.call(refA(did), 1, nil, "")
		case 4:
			g.call(refA(insp), 0, ben, "")
		}
		if twin >= 0 {
			if g.chance(50) {
				g.call(refA(twin), 1, nil, "")
			} else {
				g.call(refA(insp), g.pick(4), refA(twin), "")
			}
		}
	}
	if twin >= 0 {
		g.forceBlock(true)
		g.call(refA(twin), 1, nil, "")
		g.call(refA(insp), 0, refA(twin), "")
	}
}

func (g *progGen) tmplRevertDepth() {
	term := func() Term { return Term{K: []string{"revert", "return", "invalid", "stop"}[g.pick(4)]} }
	c := &Contract{Ctor: Section{Term: Term{K: "deploy"}}, Secs: []Section{
		{Stmts: []Stmt{{K: "sstore", Slot: 0, Val: 1 + g.smallVal()}, {K: "log", N: g.pick(5), Len: 0}, {K: "sload", Slot: 0}}, Term: term()},
	}}
	cid := g.deploy(c, "")
	b := &Contract{Ctor: Section{Stmts: []Stmt{{K: "sstore", Slot: 0, Val: 3}}, Term: Term{K: "deploy"}}, Secs: []Section{
		{Stmts: []Stmt{{K: "sstore", Slot: 0, Val: g.smallVal()}, {K: "log", N: 1, Len: 32}, {K: "call", Addr: refA(cid), Sel: 0, Value: uint64(g.pick(2))}, {K: "retcopy", Val: 0, Len: []int{0, 32, 64}[g.pick(3)]}, {K: "sstore", Slot: 1, Val: g.smallVal()}, {K: "sload", Slot: 0}}, Term: term()},
	}}
	bid := g.deploy(b, "10")
	a := &Contract{Ctor: Section{Term: Term{K: "deploy"}}, Secs: []Section{
		{Stmts: []Stmt{{K: "log", N: 2, Len: 0}, {K: "sstore", Slot: 2, Val: 1}, {K: "call", Addr: refA(bid), Sel: 0}, {K: "log", N: 3, Len: 32}, {K: "sload", Slot: 2}, {K: "call", Addr: refA(cid), Sel: 0}, {K: "sload", Slot: 2}}, Term: term()},
	}}
	aid := g.deploy(a, "")
	for n := 1 + g.pick(3); n > 0; n-- {
		g.call(refA([]int{aid, aid, bid}[g.pick(3)]), 0, nil, "")
	}
}

// an inner frame dirties several fresh accounts and reverts; the outer frame
// then touches the same accounts again
func (g *progGen) tmplRevertRetouch() {
	y := []ethcmn.Address{nonexistent1, nonexistent2, precompiles[1]}[g.pick(3)]
	z := &Contract{Ctor: Section{Term: Term{K: "deploy"}}, Secs: []Section{
		{Stmts: []Stmt{{K: "call", Addr: fixedA(y), Value: 1, Sel: 0}}, Term: Term{K: "stop"}},
	}}
	zid := g.deploy(z, "1000")
	x := &Contract{Ctor: Section{Term: Term{K: "deploy"}}, Secs: []Section{
		{Stmts: []Stmt{{K: "sstore", Slot: 0, Val: 1 + g.smallVal()}, {K: "call", Addr: refA(zid), Sel: 0}}, Term: Term{K: []string{"revert", "revert", "invalid", "return"}[g.pick(4)]}},
	}}
	if g.chance(30) {
		x.Secs[0].Stmts = append(x.Secs[0].Stmts, Stmt{K: "log", N: 1, Len: 0})
	}
	xid := g.deploy(x, "")
	after := []Stmt{
		{K: "call", Addr: fixedA(y), Value: 1},
		{K: "balance", Addr: fixedA(y)},
		{K: "call", Addr: refA(zid), Sel: 0},
		{K: "sstore", Slot: 1, Val: 2},
	}
	a := &Contract{Ctor: Section{Term: Term{K: "deploy"}}, Secs: []Section{
		{Stmts: []Stmt{{K: "call", Addr: refA(xid), Sel: 0}, after[g.pick(len(after))], after[g.pick(len(after))]}, Term: Term{K: "return"}},
	}}
	aid := g.deploy(a, "1000")
	for n := 1 + g.pick(2); n > 0; n-- {
		g.call(refA(aid), 0, nil, "")
	}
}

func (g *progGen) tmplLogs() {
	c := &Contract{Ctor: Section{Stmts: []Stmt{{K: "log", N: 1, Len: 0}}, Term: Term{K: "deploy"}}}
	for i := 0; i < 4; i++ {
		var st []Stmt
		st = append(st, Stmt{K: "caller"})
		for n := 1 + g.pick(4); n > 0; n-- {
			st = append(st, Stmt{K: "log", N: g.pick(5), Len: []int{0, 1, 32, 33}[g.pick(4)]})
			if g.chance(25) {
				st = append(st, Stmt{K: "call", Addr: selfA(), Sel: g.pick(4), Gas: 60000})
			}
		}
		c.Secs = append(c.Secs, Section{Stmts: st, Term: Term{K: []string{"return", "stop", "revert", "return"}[g.pick(4)]}})
	}
	id := g.deploy(c, "")
	for n := 2 + g.pick(5); n > 0; n-- {
		g.call(refA(id), g.pick(4), nil, "")
	}
}

func (g *progGen) tmplTouchEmpty() {
	pc := precompiles[g.pick(len(precompiles))]
	ne := []ethcmn.Address{nonexistent1, nonexistent2}[g.pick(2)]
	t := &Contract{Ctor: Section{Term: Term{K: "deploy"}}, Secs: []Section{
		{Stmts: []Stmt{{K: "call", Addr: fixedA(ne), Value: 0}}, Term: Term{K: "return"}},
		{Stmts: []Stmt{{K: "call", Addr: fixedA(pc), Value: 0}}, Term: Term{K: "return"}},
		{Stmts: []Stmt{{K: "call", Addr: fixedA(ne), Value: 1}, {K: "balance", Addr: fixedA(ne)}}, Term: Term{K: "return"}},
		{Term: Term{K: "selfdestruct", Addr: fixedA(ne)}},
		{Stmts: []Stmt{{K: "balance", Addr: fixedA(ne)}, {K: "extcodehash", Addr: fixedA(ne)}, {K: "extcodesize", Addr: fixedA(pc)}, {K: "extcodehash", Addr: fixedA(pc)}}, Term: Term{K: "return"}},
		{Stmts: []Stmt{{K: "staticcall", Addr: fixedA(pc)}, {K: "delegatecall", Addr: fixedA(ne)}, {K: "callcode", Addr: fixedA(ne), Value: 0}}, Term: Term{K: "return"}},
		{Stmts: []Stmt{{K: "call", Addr: fixedA(ne), Value: 0}}, Term: Term{K: "revert"}},
	}}
	id := g.deploy(t, []string{"", "100"}[g.pick(2)])
	for n := 2 + g.pick(4); n > 0; n-- {
		switch g.pick(8) {
		case 0:
			g.add(TxSpec{From: g.pick(len(eoas)), To: fixedA(ne), Sel: -1}) // zero-value transfer to a non-existent account
		case 1:
			g.add(TxSpec{From: g.pick(len(eoas)), To: fixedA(pc), Sel: -1}) // zero-value tx to a precompile
		default:
			g.call(refA(id), g.pick(7), nil, "")
		}
	}
}

func (g *progGen) tmplAccessList() {
	other := g.otherAddr()
	c := &Contract{Ctor: Section{Stmts: []Stmt{{K: "sstore", Slot: 0, Val: 1}}, Term: Term{K: "deploy"}}, Secs: []Section{
		{Stmts: []Stmt{{K: "sload", Slot: 0}, {K: "sload", Slot: 1}, {K: "sload", Slot: 0}, {K: "balance", Addr: other}, {K: "extcodesize", Addr: other}, {K: "sstore", Slot: 1, Val: g.smallVal()}, {K: "call", Addr: other, Gas: 5000}}, Term: Term{K: "return"}},
	}}
	id := g.deploy(c, "")
	for n := 2 + g.pick(3); n > 0; n-- {
		tx := TxSpec{From: g.pick(len(eoas)), To: refA(id), Sel: 0}
		if g.chance(70) {
			tx.AL = append(tx.AL, ALSpec{Addr: *refA(id), Slots: []uint64{uint64(g.pick(2))}})
		}
		if g.chance(50) {
			tx.AL = append(tx.AL, ALSpec{Addr: *other})
		}
		if g.chance(20) {
			tx.AL = append(tx.AL, ALSpec{Addr: *fixedA(nonexistent2), Slots: []uint64{0, 1}})
		}
		g.add(tx)
	}
}

func (g *progGen) tmplConsensus() {
	c := g.calleeContract()
	id := g.deploy(c, "")
	for n := 3 + g.pick(3); n > 0; n-- {
		tx := TxSpec{From: g.pick(len(eoas)), To: refA(id), Sel: g.pick(5)}
		switch g.pick(7) {
		case 0:
			tx.Gas = 20000 // below intrinsic
		case 1:
			tx.NonceDelta = -1
		case 2:
			tx.NonceDelta = 1 + g.pick(3)
		case 3:
			tx.Value = "2000000000000000000000" // more than the balance
		case 4:
			tx.Gas = 3_000_000
			tx.GasPrice = 1_000_000_000_000_000 // gas*price above the balance
		case 5:
			tx.Gas = 21016 + uint64(g.pick(40)) // barely above intrinsic
		}
		g.add(tx)
	}
}

func (g *progGen) tmplRandom() {
	var refs []int
	for n := 1 + g.pick(3); n > 0; n-- {
		refs = append(refs, g.deploy(g.randContract(refs, 0), g.someValue()))
	}
	for n := 2 + g.pick(6); n > 0; n-- {
		tx := TxSpec{From: g.pick(len(eoas)), To: refA(refs[g.pick(len(refs))]), Sel: g.pick(4), Value: g.someValue()}
		if g.chance(40) {
			tx.Arg = g.target(refs)
			if tx.Arg.K != "fixed" && tx.Arg.K != "ref" {
				tx.Arg = refA(refs[g.pick(len(refs))])
			}
		}
		if g.chance(15) {
			tx.Gas = 21000 + uint64(g.pick(120000))
		}
		if g.chance(15) {
			tx.AL = []ALSpec{{Addr: *refA(refs[g.pick(len(refs))]), Slots: []uint64{uint64(g.pick(3))}}}
		}
		g.add(tx)
	}
}

// random byte programs: never BLOCKHASH (0x40) nor BASEFEE (0x48)
func (g *progGen) randomBytes(n int) []byte {
	b := make([]byte, n)
	interesting := []byte{0x54, 0x55, 0xf1, 0xf2, 0xf4, 0xfa, 0xf0, 0xf5, 0xff, 0xfd, 0xf3, 0xa0, 0xa1, 0x31, 0x3b, 0x3f, 0x3c, 0x3e, 0x3d, 0x47, 0x5a, 0x30, 0x33, 0x60, 0x60, 0x60, 0x61, 0x80, 0x81, 0x90, 0x01, 0x52, 0x51}
	for i := range b {
		if g.chance(65) {
			b[i] = interesting[g.pick(len(interesting))]
		} else {
			b[i] = byte(g.pick(256))
		}
		if b[i] == 0x40 || b[i] == 0x48 {
			b[i] = 0x5b
		}
	}
	return b
}

func (g *progGen) tmplRandomBytes() {
	rt := g.randomBytes(8 + g.pick(60))
	// init code: copy runtime to memory and return it (or run the bytes as init code)
	if g.chance(30) {
		g.add(TxSpec{From: g.pick(len(eoas)), RawInit: hex.EncodeToString(g.randomBytes(8 + g.pick(60))), Value: g.someValue(), Gas: 400000})
	}
	a := NewAsm()
	a.Push(uint64(len(rt))).PushLabel("rt").Push(0).Op(0x39) // CODECOPY
	a.Push(uint64(len(rt))).Push(0).Op(0xf3)                 // RETURN
	a.Data("rt", []Seg{{Hex: hex.EncodeToString(rt)}})
	init := Resolve(a.Assemble(), nil)
	id := g.add(TxSpec{From: g.pick(len(eoas)), RawInit: hex.EncodeToString(init), Value: g.someValue(), Gas: 600000})
	for n := 2 + g.pick(3); n > 0; n-- {
		g.add(TxSpec{From: g.pick(len(eoas)), To: refA(id), RawData: hex.EncodeToString(g.randomBytes(g.pick(40))), Value: g.someValue(), Gas: 60000 + uint64(g.pick(300000))})
	}
}

var progTemplates = []struct {
	name string
	w    int
	f    func(*progGen)
}{
	{"sstore-matrix", 12, (*progGen).tmplSstoreMatrix},
	{"call-tree", 12, (*progGen).tmplCallTree},
	{"create", 12, (*progGen).tmplCreate},
	{"selfdestruct", 12, (*progGen).tmplSelfdestruct},
	{"revert-depth", 8, (*progGen).tmplRevertDepth},
	{"revert-retouch", 6, (*progGen).tmplRevertRetouch},
	{"logs", 6, (*progGen).tmplLogs},
	{"touch-empty", 8, (*progGen).tmplTouchEmpty},
	{"access-list", 6, (*progGen).tmplAccessList},
	{"consensus", 6, (*progGen).tmplConsensus},
	{"random-structured", 14, (*progGen).tmplRandom},
	{"random-bytes", 6, (*progGen).tmplRandomBytes},
}

func GenProg(rng *rand.Rand, idx int) *ProgCase {
	g := &progGen{rng: rng, pc: &ProgCase{Layer: "prog"}}
	g.mode = []string{"each", "each", "mixed", "mixed", "one"}[g.pick(5)]
	tot := 0
	for _, t := range progTemplates {
		tot += t.w
	}
	// the first len(progTemplates) cases walk through every template once
	var chosen int
	if idx < len(progTemplates) {
		chosen = idx
	} else {
		n := g.pick(tot)
		for i, t := range progTemplates {
			if n < t.w {
				chosen = i
				break
			}
			n -= t.w
		}
	}
	g.pc.Tmpl = fmt.Sprintf("%s/%s", progTemplates[chosen].name, g.mode)
	progTemplates[chosen].f(g)
	return g.pc
}
