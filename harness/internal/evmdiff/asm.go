package evmdiff

import (
	"encoding/hex"
	"fmt"
	"math/big"

	ethcmn "github.com/ethereum/go-ethereum/common"
	ethvm "github.com/ethereum/go-ethereum/core/vm"
)

// Seg is a piece of bytecode: literal bytes, or the 20-byte address of the
// contract deployed by the transaction with id Ref (resolved at run time so
// that witnesses stay valid while transactions are dropped during shrinking).
type Seg struct {
	Hex string `json:"hex,omitempty"`
	Ref int    `json:"ref,omitempty"` // 1-based tx id; 0 = literal
}

func (s Seg) size() int {
	if s.Ref != 0 {
		return 20
	}
	return len(s.Hex) / 2
}

// Asm is a tiny two-pass assembler: ops, minimal pushes, labels (PUSH2
// fixups), address placeholders and data regions.
type Asm struct {
	items []asmItem
}

type asmItem struct {
	raw   []byte
	ref   int    // address placeholder
	label string // definition (size 0)
	use   string // PUSH2 <label offset>
	sub   []Seg  // embedded data
}

func NewAsm() *Asm { return &Asm{} }

func (a *Asm) Op(ops ...ethvm.OpCode) *Asm {
	b := make([]byte, len(ops))
	for i, o := range ops {
		b[i] = byte(o)
	}
	a.items = append(a.items, asmItem{raw: b})
	return a
}

func (a *Asm) Raw(b []byte) *Asm {
	a.items = append(a.items, asmItem{raw: append([]byte(nil), b...)})
	return a
}

// PushBytes pushes the big-endian value with the shortest PUSHn (n>=1).
func (a *Asm) PushBytes(b []byte) *Asm {
	for len(b) > 1 && b[0] == 0 {
		b = b[1:]
	}
	if len(b) == 0 {
		b = []byte{0}
	}
	if len(b) > 32 {
		panic("push too wide")
	}
	out := append([]byte{byte(ethvm.PUSH1) + byte(len(b)-1)}, b...)
	a.items = append(a.items, asmItem{raw: out})
	return a
}

func (a *Asm) Push(v uint64) *Asm { return a.PushBytes(new(big.Int).SetUint64(v).Bytes()) }

func (a *Asm) PushBig(v *big.Int) *Asm { return a.PushBytes(v.Bytes()) }

func (a *Asm) PushAddr(addr ethcmn.Address) *Asm {
	out := append([]byte{byte(ethvm.PUSH20)}, addr.Bytes()...)
	a.items = append(a.items, asmItem{raw: out})
	return a
}

// PushRef pushes the address of the contract deployed by tx id.
func (a *Asm) PushRef(id int) *Asm {
	a.items = append(a.items, asmItem{raw: []byte{byte(ethvm.PUSH20)}})
	a.items = append(a.items, asmItem{ref: id})
	return a
}

func (a *Asm) Label(name string) *Asm {
	a.items = append(a.items, asmItem{label: name})
	return a
}

// Dest defines a label and emits the JUMPDEST.
func (a *Asm) Dest(name string) *Asm { return a.Label(name).Op(ethvm.JUMPDEST) }

func (a *Asm) PushLabel(name string) *Asm {
	a.items = append(a.items, asmItem{use: name})
	return a
}

func (a *Asm) Jump(name string) *Asm  { return a.PushLabel(name).Op(ethvm.JUMP) }
func (a *Asm) JumpI(name string) *Asm { return a.PushLabel(name).Op(ethvm.JUMPI) }

// Data embeds a data region under a label; returns its size.
func (a *Asm) Data(name string, segs []Seg) int {
	a.Label(name)
	a.items = append(a.items, asmItem{sub: segs})
	return segsSize(segs)
}

func segsSize(segs []Seg) int {
	n := 0
	for _, s := range segs {
		n += s.size()
	}
	return n
}

func (it asmItem) size() int {
	switch {
	case it.ref != 0:
		return 20
	case it.use != "":
		return 3
	case it.sub != nil:
		return segsSize(it.sub)
	default:
		return len(it.raw)
	}
}

// Assemble resolves labels and returns the segments.
func (a *Asm) Assemble() []Seg {
	labels := map[string]int{}
	off := 0
	for _, it := range a.items {
		if it.label != "" {
			if _, dup := labels[it.label]; dup {
				panic("duplicate label " + it.label)
			}
			labels[it.label] = off
		}
		off += it.size()
	}
	if off > 0xffff {
		panic("program too large")
	}
	var out []Seg
	var cur []byte
	flush := func() {
		if len(cur) > 0 {
			out = append(out, Seg{Hex: hex.EncodeToString(cur)})
			cur = nil
		}
	}
	for _, it := range a.items {
		switch {
		case it.label != "":
		case it.ref != 0:
			flush()
			out = append(out, Seg{Ref: it.ref})
		case it.use != "":
			o, ok := labels[it.use]
			if !ok {
				panic("undefined label " + it.use)
			}
			cur = append(cur, byte(ethvm.PUSH2), byte(o>>8), byte(o))
		case it.sub != nil:
			for _, s := range it.sub {
				if s.Ref != 0 {
					flush()
					out = append(out, s)
				} else {
					b, err := hex.DecodeString(s.Hex)
					if err != nil {
						panic(err)
					}
					cur = append(cur, b...)
				}
			}
		default:
			cur = append(cur, it.raw...)
		}
	}
	flush()
	return out
}

// LabelOffset returns the offset of a label after layout (for CODECOPY).
func (a *Asm) LabelOffset(name string) int {
	off := 0
	for _, it := range a.items {
		if it.label == name {
			return off
		}
		off += it.size()
	}
	panic("undefined label " + name)
}

// Resolve turns segments into bytes given the deployed-contract table.
func Resolve(segs []Seg, deployed map[int]ethcmn.Address) []byte {
	var out []byte
	for _, s := range segs {
		if s.Ref != 0 {
			a, ok := deployed[s.Ref]
			if !ok {
				a = missingRefAddr
			}
			out = append(out, a.Bytes()...)
			continue
		}
		b, err := hex.DecodeString(s.Hex)
		if err != nil {
			panic(fmt.Sprintf("bad hex segment %q", s.Hex))
		}
		out = append(out, b...)
	}
	return out
}

// an address that never exists: what a reference to a dropped tx resolves to
var missingRefAddr = ethcmn.HexToAddress("0x00000000000000000000000000000000000dead0")
