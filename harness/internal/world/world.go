// Package world builds everything a history needs before its first block: a
// deterministic cast of keys, a genesis document made with the repository's
// own types, and node root directories laid out exactly as
// `olfullnode init devnet` writes them.
package world

import (
	"crypto/sha256"
	"encoding/base64"
	"encoding/json"
	"fmt"
	tmsecp "github.com/tendermint/tendermint/crypto/secp256k1"
	"io/ioutil"
	"math/big"
	"os"
	"path/filepath"
	"time"

	ethcmn "github.com/ethereum/go-ethereum/common"
	ethcrypto "github.com/ethereum/go-ethereum/crypto"
	"github.com/tendermint/tendermint/crypto/ed25519"
	"github.com/tendermint/tendermint/p2p"
	"github.com/tendermint/tendermint/privval"
	tmtypes "github.com/tendermint/tendermint/types"

	"github.com/Oneledger/protocol/chains/bitcoin"
	ethchain "github.com/Oneledger/protocol/chains/ethereum"
	"github.com/Oneledger/protocol/chains/ethereum/contract"
	"github.com/Oneledger/protocol/config"
	"github.com/Oneledger/protocol/consensus"
	"github.com/Oneledger/protocol/data/balance"
	"github.com/Oneledger/protocol/data/chain"
	"github.com/Oneledger/protocol/data/delegation"
	"github.com/Oneledger/protocol/data/evidence"
	"github.com/Oneledger/protocol/data/fees"
	"github.com/Oneledger/protocol/data/governance"
	"github.com/Oneledger/protocol/data/keys"
	"github.com/Oneledger/protocol/data/network_delegation"
	"github.com/Oneledger/protocol/data/ons"
	"github.com/Oneledger/protocol/data/rewards"
)

// Account is a user key pair.
type Account struct {
	Name string
	Priv keys.PrivateKey
	Pub  keys.PublicKey
	Addr keys.Address
}

// Validator is a (potential) validator node: consensus key, node key (its
// address is the stake address, as in the devnet generator) and ECDSA key.
type Validator struct {
	Name      string
	Cons      ed25519.PrivKeyEd25519
	NodeKey   ed25519.PrivKeyEd25519
	Ecdsa     []byte // 32 bytes secp256k1
	ValAddr   keys.Address
	ValPub    keys.PublicKey // ed25519 consensus public key in repository form
	EcdsaPub  keys.PublicKey
	Stake     Account // the stake account (node key)
	InGenesis bool
	Power     int64
	Witness   bool
}

// Params are the genesis knobs a history may vary. Zero values get defaults
// scaled down so that every period is crossed within a few blocks.
type Params struct {
	ChainID           string
	GenesisTime       time.Time
	NumGenesisVals    int
	NumCandidates     int // extra validator identities not staked at genesis
	NumUsers          int
	NumEthUsers       int // users with eth-secp keys (OLVM senders)
	NumWitnesses      int // how many genesis validators are eth witnesses
	GenesisPowers     []int64
	Frankenstein      int64 // fork height; 0 = disabled
	MaxGas            int64 // consensus_params.block.max_gas; default -1
	TopValidators     int64
	MinSelfDelegation int64
	StakeMaturity     int64
	RewardInterval    int64
	MinVotesRequired  int64
	BlockVotesDiff    int64
	ReleaseTime       int64
	FundingDeadline   int64
	VotingDeadline    int64
	ProdGov           bool // proposal deadlines inside the ranges the option validation demands (10000 blocks and more)
	PropInitialFund   string
	PropFundingGoal   string
	UserOLT           string // per user genesis balance, in nue
	RewardPoolOLT     string
	SecondsPerCycle   int64
	BlocksPerCycle    int64
	YearCloseWindow   int64
	YearShares        []string
	BurnoutRate       string
	PerBlockFees      string
	BaseDomainPrice   string
	ExtraBalances     []consensus.BalanceState
	Mutate            func(st *consensus.AppState) // last-minute genesis edits
}

type World struct {
	P           Params
	Vals        []*Validator
	Users       []*Account
	EthUsers    []*Account
	EthKeys     map[string][]byte // addr string -> 32-byte secp key for eth users
	Doc         *config.GenesisDoc
	LockABI     string
	EthContract ethcmn.Address
}

func detBytes(tag string, n int) []byte {
	out := []byte{}
	i := 0
	for len(out) < n {
		h := sha256.Sum256([]byte(fmt.Sprintf("%s/%d", tag, i)))
		out = append(out, h[:]...)
		i++
	}
	return out[:n]
}

func edKey(tag string) ed25519.PrivKeyEd25519 {
	return ed25519.GenPrivKeyFromSecret([]byte(tag))
}

func accountFromEd(name string, k ed25519.PrivKeyEd25519) Account {
	priv, err := keys.GetPrivateKeyFromBytes(k[:], keys.ED25519)
	if err != nil {
		panic(err)
	}
	h, _ := priv.GetHandler()
	pub := h.PubKey()
	ph, _ := pub.GetHandler()
	return Account{Name: name, Priv: priv, Pub: pub, Addr: ph.Address()}
}

// AccountFromEthSecp builds an Ethereum-style account from a 32-byte secret.
func AccountFromEthSecp(name string, raw []byte) Account { return accountFromEthSecp(name, raw) }

func accountFromEthSecp(name string, raw []byte) Account {
	return accountFromKey(name, raw, keys.ETHSECP)
}

func accountFromKey(name string, raw []byte, alg keys.Algorithm) Account {
	priv, err := keys.GetPrivateKeyFromBytes(raw, alg)
	if err != nil {
		panic(err)
	}
	h, _ := priv.GetHandler()
	pub := h.PubKey()
	if alg == keys.SECP256K1 {
		// PrivateKeySECP256K1.PubKey() keeps Tendermint's 5-byte amino prefix, which no handler accepts;
		// take the 33-byte compressed key from Tendermint's type directly
		var k tmsecp.PrivKeySecp256k1
		copy(k[:], raw)
		tp := k.PubKey().(tmsecp.PubKeySecp256k1)
		pub, err = keys.GetPublicKeyFromBytes(tp[:], keys.SECP256K1)
		if err != nil {
			panic(err)
		}
	}
	ph, err := pub.GetHandler()
	if err != nil {
		panic(err)
	}
	return Account{Name: name, Priv: priv, Pub: pub, Addr: ph.Address()}
}

func (p *Params) defaults() {
	if p.ChainID == "" {
		p.ChainID = "OneLedger-verif"
	}
	if p.GenesisTime.IsZero() {
		p.GenesisTime = time.Date(2021, 6, 1, 0, 0, 0, 0, time.UTC)
	}
	if p.NumGenesisVals == 0 {
		p.NumGenesisVals = 4
	}
	if p.NumUsers == 0 {
		p.NumUsers = 6
	}
	if p.NumWitnesses == 0 {
		p.NumWitnesses = p.NumGenesisVals
	}
	if p.MaxGas == 0 {
		p.MaxGas = -1
	}
	if p.TopValidators == 0 {
		p.TopValidators = 4
	}
	if p.MinSelfDelegation == 0 {
		p.MinSelfDelegation = 3000000
	}
	if p.StakeMaturity == 0 {
		p.StakeMaturity = 4
	}
	if p.RewardInterval == 0 {
		p.RewardInterval = 3
	}
	if p.MinVotesRequired == 0 {
		p.MinVotesRequired = 2
	}
	if p.BlockVotesDiff == 0 {
		p.BlockVotesDiff = 4
	}
	if p.FundingDeadline == 0 {
		p.FundingDeadline = 12
	}
	if p.VotingDeadline == 0 {
		p.VotingDeadline = 12
	}
	if p.PropInitialFund == "" {
		p.PropInitialFund = "1000000000"
	}
	if p.PropFundingGoal == "" {
		p.PropFundingGoal = "10000000000"
	}
	if p.UserOLT == "" {
		p.UserOLT = "100000000000000000000000000" // 1e8 OLT
	}
	if p.RewardPoolOLT == "" {
		p.RewardPoolOLT = "250000000000000000000000000"
	}
	if p.SecondsPerCycle == 0 {
		p.SecondsPerCycle = 60
	}
	if p.BlocksPerCycle == 0 {
		p.BlocksPerCycle = 6
	}
	if p.YearCloseWindow == 0 {
		p.YearCloseWindow = 3600 * 24
	}
	if len(p.YearShares) == 0 {
		p.YearShares = []string{"70000000000000000000000000", "70000000000000000000000000", "40000000000000000000000000", "40000000000000000000000000", "30000000000000000000000000"}
	}
	if p.BurnoutRate == "" {
		p.BurnoutRate = "5000000000000000000"
	}
	if p.PerBlockFees == "" {
		p.PerBlockFees = "100000000000000"
	}
	if p.BaseDomainPrice == "" {
		p.BaseDomainPrice = "1000000000000000000000"
	}
}

func amt(s string) balance.Amount {
	a, err := balance.NewAmountFromString(s, 10)
	if err != nil {
		panic(err)
	}
	return *a
}

// New builds the cast and the genesis document.
func New(p Params) (*World, error) {
	p.defaults()
	w := &World{P: p, EthKeys: map[string][]byte{}}
	nv := p.NumGenesisVals + p.NumCandidates
	for i := 0; i < nv; i++ {
		name := fmt.Sprintf("v%d", i)
		v := &Validator{Name: name}
		v.Cons = edKey(p.ChainID + "/cons/" + name)
		v.NodeKey = edKey(p.ChainID + "/node/" + name)
		v.Ecdsa = detBytes(p.ChainID+"/ecdsa/"+name, 32)
		v.ValAddr = keys.Address(v.Cons.PubKey().Address())
		pub, err := keys.PubKeyFromTendermint(v.Cons.PubKey().Bytes())
		if err != nil {
			return nil, err
		}
		v.ValPub = pub
		epk, err := keys.GetPrivateKeyFromBytes(v.Ecdsa, keys.BTCECSECP)
		if err != nil {
			return nil, err
		}
		eh, err := epk.GetHandler()
		if err != nil {
			return nil, err
		}
		v.EcdsaPub = eh.PubKey()
		v.Stake = accountFromEd(name+".stake", v.NodeKey)
		v.InGenesis = i < p.NumGenesisVals
		if v.InGenesis {
			if i < len(p.GenesisPowers) {
				v.Power = p.GenesisPowers[i]
			} else {
				v.Power = p.MinSelfDelegation * int64(i+1)
			}
			v.Witness = i < p.NumWitnesses
		}
		w.Vals = append(w.Vals, v)
	}
	for i := 0; i < p.NumUsers; i++ {
		name := fmt.Sprintf("u%d", i)
		a := accountFromEd(name, edKey(p.ChainID+"/user/"+name))
		if i%6 == 3 {
			// one user in six holds a Tendermint secp256k1 key
			a = accountFromKey(name, detBytes(p.ChainID+"/user/"+name, 32), keys.SECP256K1)
		}
		w.Users = append(w.Users, &a)
	}
	for i := 0; i < p.NumEthUsers; i++ {
		name := fmt.Sprintf("e%d", i)
		raw := detBytes(p.ChainID+"/ethuser/"+name, 32)
		a := accountFromEthSecp(name, raw)
		w.EthUsers = append(w.EthUsers, &a)
		w.EthKeys[a.Addr.String()] = raw
	}
	if err := w.buildGenesis(); err != nil {
		return nil, err
	}
	return w, nil
}

func (w *World) buildGenesis() error {
	p := w.P
	olt := balance.Currency{Id: 0, Name: "OLT", Chain: chain.ONELEDGER, Decimal: 18, Unit: "nue"}
	vt := balance.Currency{Id: 1, Name: "VT", Chain: chain.ONELEDGER, Unit: "vt"}
	obtc := balance.Currency{Id: 2, Name: "BTC", Chain: chain.BITCOIN, Decimal: 8, Unit: "satoshi"}
	oeth := balance.Currency{Id: 3, Name: "ETH", Chain: chain.ETHEREUM, Decimal: 18, Unit: "wei"}
	ottc := balance.Currency{Id: 4, Name: "TTC", Chain: chain.TESTTOKEN, Decimal: 18, Unit: "testUnits"}
	currencies := []balance.Currency{olt, vt, obtc, oeth, ottc}

	feeOpt := fees.FeeOption{FeeCurrency: olt, MinFeeDecimal: 9}
	stakingOption := delegation.Options{
		MinSelfDelegationAmount: *balance.NewAmount(p.MinSelfDelegation),
		MinDelegationAmount:     *balance.NewAmount(1),
		TopValidatorCount:       p.TopValidators,
		MaturityTime:            p.StakeMaturity,
	}
	delegOption := network_delegation.Options{RewardsMaturityTime: network_delegation.RewardsMaturityTime}
	evidenceOption := evidence.Options{
		MinVotesRequired:        p.MinVotesRequired,
		BlockVotesDiff:          p.BlockVotesDiff,
		PenaltyBasePercentage:   30,
		PenaltyBaseDecimals:     100,
		PenaltyBountyPercentage: 50,
		PenaltyBountyDecimals:   100,
		PenaltyBurnPercentage:   50,
		PenaltyBurnDecimals:     100,
		ValidatorReleaseTime:    p.ReleaseTime,
		ValidatorVotePercentage: 50,
		ValidatorVoteDecimals:   100,
		AllegationPercentage:    50,
		AllegationDecimals:      100,
	}
	passed := governance.ProposalFundDistribution{Validators: 18, FeePool: 18, Burn: 18, ExecutionCost: 18, BountyPool: 10, ProposerReward: 18}
	failed := governance.ProposalFundDistribution{Validators: 10, FeePool: 10, Burn: 10, ExecutionCost: 20, BountyPool: 50, ProposerReward: 0}
	initFund := amt(p.PropInitialFund)
	goal := amt(p.PropFundingGoal)
	mkOpt := func(exec string) governance.ProposalOption {
		fd, vd := p.FundingDeadline, p.VotingDeadline
		if p.ProdGov {
			switch exec {
			case "executionCostConfig":
				fd, vd = 10000, 10000
			case "executionCostCodeChange":
				fd, vd = 10000, 150000
			default:
				fd, vd = 75000, 75000
			}
		}
		return governance.ProposalOption{
			InitialFunding:         &initFund,
			FundingGoal:            &goal,
			FundingDeadline:        fd,
			VotingDeadline:         vd,
			PassPercentage:         51,
			PassedFundDistribution: passed,
			FailedFundDistribution: failed,
			ProposalExecutionCost:  exec,
		}
	}
	propOpt := governance.ProposalOptionSet{
		ConfigUpdate:      mkOpt("executionCostConfig"),
		CodeChange:        mkOpt("executionCostCodeChange"),
		General:           mkOpt("executionCostGeneral"),
		BountyProgramAddr: "oneledgerBountyProgram",
	}
	var shares []balance.Amount
	for _, s := range p.YearShares {
		shares = append(shares, amt(s))
	}
	rewzOpt := rewards.Options{
		RewardInterval:           p.RewardInterval,
		RewardPoolAddress:        "rewardpool",
		RewardCurrency:           "OLT",
		EstimatedSecondsPerCycle: p.SecondsPerCycle,
		BlockSpeedCalculateCycle: p.BlocksPerCycle,
		YearCloseWindow:          p.YearCloseWindow,
		YearBlockRewardShares:    shares,
		BurnoutRate:              amt(p.BurnoutRate),
	}
	onsOp := ons.Options{
		Currency:          "OLT",
		PerBlockFees:      amt(p.PerBlockFees),
		FirstLevelDomains: []string{"ol"},
		BaseDomainPrice:   amt(p.BaseDomainPrice),
	}
	btccdo := bitcoin.ChainDriverOption{ChainType: "testnet3", TotalSupply: "1000000000", TotalSupplyAddr: "oneledgerSupplyAddress", BlockConfirmation: 6}
	w.LockABI = contract.LockRedeemABI
	w.EthContract = ethcmn.HexToAddress("0x00000000000000000000000000000000000c0de1")
	ethcdo := ethchain.ChainDriverOption{
		ContractABI:        contract.LockRedeemABI,
		ERCContractABI:     contract.LockRedeemERCABI,
		TokenList:          []ethchain.ERC20Token{{TokName: "TTC", TokAddr: ethcmn.HexToAddress("0x00000000000000000000000000000000000c0de3"), TokAbi: contract.ERC20BasicABI, TokTotalSupply: "2000000000000000000"}},
		ContractAddress:    w.EthContract,
		ERCContractAddress: ethcmn.HexToAddress("0x00000000000000000000000000000000000c0de2"),
		TotalSupply:        "200000000000000000000",
		TotalSupplyAddr:    "oneledgerSupplyAddress",
		BlockConfirmation:  12,
	}

	var balances []consensus.BalanceState
	var staking []consensus.Stake
	var witness []consensus.Stake
	var genVals []tmtypes.GenesisValidator
	userAmt := amt(p.UserOLT)
	for _, v := range w.Vals {
		balances = append(balances,
			consensus.BalanceState{Address: v.Stake.Addr, Currency: "OLT", Amount: userAmt},
			consensus.BalanceState{Address: v.Stake.Addr, Currency: "VT", Amount: *vt.NewCoinFromInt(100).Amount},
			// the validator address itself can pay fees (it co-signs staking transactions and votes)
			consensus.BalanceState{Address: v.ValAddr, Currency: "OLT", Amount: amt("5000000000000000000000")})
		if !v.InGenesis {
			continue
		}
		st := consensus.Stake{
			ValidatorAddress: v.ValAddr,
			StakeAddress:     v.Stake.Addr,
			Pubkey:           v.ValPub,
			ECDSAPubKey:      v.EcdsaPub,
			Name:             v.Name,
			Amount:           *balance.NewAmountFromInt(v.Power),
		}
		staking = append(staking, st)
		if v.Witness {
			witness = append(witness, st)
		}
		genVals = append(genVals, tmtypes.GenesisValidator{Address: v.Cons.PubKey().Address(), PubKey: v.Cons.PubKey(), Name: v.Name, Power: v.Power})
	}
	for _, u := range w.Users {
		balances = append(balances,
			consensus.BalanceState{Address: u.Addr, Currency: "OLT", Amount: userAmt},
			consensus.BalanceState{Address: u.Addr, Currency: "VT", Amount: *vt.NewCoinFromInt(1000).Amount})
	}
	for _, u := range w.EthUsers {
		balances = append(balances, consensus.BalanceState{Address: u.Addr, Currency: "OLT", Amount: userAmt})
	}
	balances = append(balances, consensus.BalanceState{Address: keys.Address("rewardpool"), Currency: "OLT", Amount: amt(p.RewardPoolOLT)})
	balances = append(balances, p.ExtraBalances...)

	states := consensus.AppState{
		Currencies: currencies,
		Balances:   balances,
		Staking:    staking,
		Witness:    witness,
		Rewards:    rewards.RewardMasterState{RewardState: rewards.NewRewardState(), CumuState: rewards.NewRewardCumuState()},
		Domains:    []consensus.DomainState{},
		Fees:       []consensus.BalanceState{},
		Governance: governance.GovernanceState{
			FeeOption:       feeOpt,
			ETHCDOption:     ethcdo,
			BTCCDOption:     btccdo,
			ONSOptions:      onsOp,
			PropOptions:     propOpt,
			StakingOptions:  stakingOption,
			DelegOptions:    delegOption,
			EvidenceOptions: evidenceOption,
			RewardOptions:   rewzOpt,
		},
	}
	if p.Mutate != nil {
		p.Mutate(&states)
	}
	doc, err := consensus.NewGenesisDoc(p.ChainID, states)
	if err != nil {
		return err
	}
	doc.GenesisTime = p.GenesisTime
	doc.Validators = genVals
	doc.ConsensusParams.Block.MaxGas = p.MaxGas
	doc.ForkParams = &config.ForkParams{FrankensteinBlock: p.Frankenstein}
	w.Doc = doc
	return nil
}

// NodeSpec says who a replica is.
type NodeSpec struct {
	Name      string
	Validator *Validator // identity taken from this validator; nil = stranger
	Stranger  string     // seed tag for a stranger identity
	LogLevel  int
	Rotation  *config.ChainStateRotationCfg
}

// WriteNode lays out a node root directory for the given identity.
func (w *World) WriteNode(dir string, spec NodeSpec) error {
	configDir := filepath.Join(dir, "consensus", "config")
	dataDir := filepath.Join(dir, "consensus", "data")
	nodeDataDir := filepath.Join(dir, "nodedata")
	for _, d := range []string{configDir, dataDir, nodeDataDir} {
		if err := os.MkdirAll(d, 0755); err != nil {
			return err
		}
	}
	cfg := config.DefaultServerConfig()
	cfg.Node.NodeName = spec.Name
	cfg.Node.LogLevel = spec.LogLevel
	cfg.Node.DB = "goleveldb"
	cfg.Consensus.CreateEmptyBlocks = false
	cfg.Consensus.LogOutput = "consensus.log"
	cfg.Mempool.Recheck = false
	cfg.EthChainDriver = &config.EthereumChainDriverConfig{Connection: "http://127.0.0.1:1"}
	if spec.Rotation != nil {
		cfg.Node.ChainStateRotation = *spec.Rotation
	}
	if err := cfg.SaveFile(filepath.Join(dir, config.FileName)); err != nil {
		return err
	}
	if err := w.Doc.SaveAs(filepath.Join(configDir, "genesis.json")); err != nil {
		return err
	}
	var cons, nodeKey ed25519.PrivKeyEd25519
	var ecdsa []byte
	if spec.Validator != nil {
		cons, nodeKey, ecdsa = spec.Validator.Cons, spec.Validator.NodeKey, spec.Validator.Ecdsa
	} else {
		tag := w.P.ChainID + "/stranger/" + spec.Stranger
		cons, nodeKey, ecdsa = edKey(tag+"/cons"), edKey(tag+"/node"), detBytes(tag+"/ecdsa", 32)
	}
	nk := &p2p.NodeKey{PrivKey: nodeKey}
	bz, err := tmtypes.GetCodec().MarshalJSON(nk)
	if err != nil {
		return err
	}
	if err := ioutil.WriteFile(filepath.Join(configDir, "node_key.json"), bz, 0600); err != nil {
		return err
	}
	pv := privval.GenFilePV(filepath.Join(configDir, "priv_validator_key.json"), filepath.Join(dataDir, "priv_validator_state.json"))
	pv.Key.PrivKey = cons
	pv.Key.PubKey = cons.PubKey()
	pv.Key.Address = cons.PubKey().Address()
	pv.Save()
	if err := ioutil.WriteFile(filepath.Join(configDir, "priv_validator_key_ecdsa.json"), []byte(base64.StdEncoding.EncodeToString(ecdsa)), 0600); err != nil {
		return err
	}
	return nil
}

// WriteKeyring writes the consensus keys of every (potential) validator so
// that a box can sign commits on their behalf.
func (w *World) WriteKeyring(path string) error {
	var ks []string
	for _, v := range w.Vals {
		ks = append(ks, base64.StdEncoding.EncodeToString(v.Cons[:]))
	}
	bz, _ := json.Marshal(ks)
	return ioutil.WriteFile(path, bz, 0600)
}

// EthAddress returns the Ethereum address of a validator's ECDSA key (the
// address a witness signs with on the Ethereum side).
func (v *Validator) EthAddress() ethcmn.Address {
	k, err := ethcrypto.ToECDSA(v.Ecdsa)
	if err != nil {
		panic(err)
	}
	return ethcrypto.PubkeyToAddress(k.PublicKey)
}

func BigFromString(s string) *big.Int {
	b, ok := new(big.Int).SetString(s, 10)
	if !ok {
		panic("bad int " + s)
	}
	return b
}
