// Package verdict is the shared end of every check: it counts what a run
// observed, matches violations against the committed known-findings file,
// writes the evidence file and decides the exit code.
//
//	exit 0  held on everything explored (KNOWN-FINDING lines possible)
//	exit 1  a violation the known-findings file does not list (VIOLATION line)
//	exit 2  inconclusive: watchdog, missed coverage gate, harness failure
package verdict

import (
	"crypto/sha256"
	"encoding/hex"
	"encoding/json"
	"fmt"
	"io/ioutil"
	"os"
	"path/filepath"
	"sort"
	"strconv"
	"sync"
	"time"
)

// Dir is the verification root (holds known_findings.json, evidence/, replays/).
func Dir() string {
	if d := os.Getenv("VERIF_DIR"); d != "" {
		return d
	}
	return "/verif"
}

// Seed returns VERIF_SEED (default 1).
func Seed() int64 {
	if s := os.Getenv("VERIF_SEED"); s != "" {
		if n, err := strconv.ParseInt(s, 10, 64); err == nil {
			return n
		}
	}
	return 1
}

type Violation struct {
	Property  string      `json:"property"`
	Signature string      `json:"signature"` // <prop>/<rule>/<where>/<trait>
	What      string      `json:"what"`
	Witness   interface{} `json:"witness,omitempty"`
	// filled in when the replay file is written: the seeded run that produced the violation
	RunSeed int64  `json:"run_seed,omitempty"`
	RunTier string `json:"run_tier,omitempty"`
}

type Known struct {
	Property  string      `json:"property"`
	Signature string      `json:"signature"`
	WhatFails string      `json:"what_fails"`
	Witness   interface{} `json:"witness,omitempty"`
}

type Fixed struct {
	Property   string `json:"property"`
	Commit     string `json:"commit"`
	WhatFailed string `json:"what_failed"`
}

type KnownFile struct {
	Findings []Known `json:"findings"`
	Fixed    []Fixed `json:"fixed"`
}

func LoadKnown() (*KnownFile, error) {
	kf := &KnownFile{}
	bz, err := ioutil.ReadFile(filepath.Join(Dir(), "known_findings.json"))
	if err != nil {
		if os.IsNotExist(err) {
			return kf, nil
		}
		return nil, err
	}
	if err := json.Unmarshal(bz, kf); err != nil {
		return nil, err
	}
	return kf, nil
}

// IsKnown reports whether a signature is listed for the property.
func (kf *KnownFile) IsKnown(prop, sig string) (Known, bool) {
	for _, k := range kf.Findings {
		if k.Property == prop && k.Signature == sig {
			return k, true
		}
	}
	return Known{}, false
}

type gate struct {
	Need int `json:"need"`
	Got  int `json:"got"`
}

type Run struct {
	mu          sync.Mutex
	Property    string
	Tier        string
	SeedV       int64
	Level       string
	Rule        string
	Assumptions []string
	start       time.Time
	evals       int
	distinct    map[string]bool
	samples     []interface{}
	extra       map[string]interface{}
	counters    map[string]int
	gates       map[string]*gate
	violations  []Violation
	inconcl     []string
	known       *KnownFile
	diag        []string
	Exhaustive  bool
}

func New(property, tier, level string) *Run {
	kf, err := LoadKnown()
	r := &Run{Property: property, Tier: tier, SeedV: Seed(), Level: level, start: time.Now(),
		distinct: map[string]bool{}, extra: map[string]interface{}{}, counters: map[string]int{}, gates: map[string]*gate{}, known: kf}
	if err != nil {
		r.known = &KnownFile{}
		r.Inconclusive("cannot read known_findings.json: " + err.Error())
	}
	return r
}

func (r *Run) Known() *KnownFile { return r.known }

// Case counts one evaluated case. id identifies it canonically (any string;
// it is hashed); nontrivial says whether it passed the check's non-triviality
// rule.
func (r *Run) Case(id string, nontrivial bool) {
	r.mu.Lock()
	defer r.mu.Unlock()
	r.evals++
	if nontrivial {
		h := sha256.Sum256([]byte(id))
		r.distinct[hex.EncodeToString(h[:8])] = true
	}
}

// Sample keeps up to four cases written out for the evidence file.
func (r *Run) Sample(x interface{}) {
	r.mu.Lock()
	defer r.mu.Unlock()
	if len(r.samples) < 4 {
		r.samples = append(r.samples, x)
	}
}

func (r *Run) Count(name string, n int) {
	r.mu.Lock()
	defer r.mu.Unlock()
	r.counters[name] += n
}

func (r *Run) Counter(name string) int {
	r.mu.Lock()
	defer r.mu.Unlock()
	return r.counters[name]
}

func (r *Run) Set(name string, v interface{}) {
	r.mu.Lock()
	defer r.mu.Unlock()
	r.extra[name] = v
}

// Gate declares that counter `name` must reach need for the run to say "held".
func (r *Run) Gate(name string, need int) {
	r.mu.Lock()
	defer r.mu.Unlock()
	r.gates[name] = &gate{Need: need}
}

func (r *Run) Violate(v Violation) {
	r.mu.Lock()
	defer r.mu.Unlock()
	if v.Property == "" {
		v.Property = r.Property
	}
	// keep at most three witnesses per signature; count the rest
	r.counters["violations:"+v.Signature]++
	if r.counters["violations:"+v.Signature] > 3 {
		return
	}
	r.violations = append(r.violations, v)
}

func (r *Run) Violations() int {
	r.mu.Lock()
	defer r.mu.Unlock()
	return len(r.violations)
}

func (r *Run) Inconclusive(msg string) {
	r.mu.Lock()
	defer r.mu.Unlock()
	r.inconcl = append(r.inconcl, msg)
}

// Diag records a diagnostic that never influences the exit code.
func (r *Run) Diag(msg string) {
	r.mu.Lock()
	defer r.mu.Unlock()
	if len(r.diag) < 50 {
		r.diag = append(r.diag, msg)
	}
}

// Finish writes the evidence file, prints the verdict lines and returns the
// exit code.
func (r *Run) Finish() int {
	r.mu.Lock()
	defer r.mu.Unlock()
	dir := Dir()
	_ = os.MkdirAll(filepath.Join(dir, "evidence"), 0755)
	_ = os.MkdirAll(filepath.Join(dir, "replays"), 0755)

	knownSeen := map[string]Known{}
	knownCount := map[string]int{}
	unlisted := 0
	var unlistedSigs []string
	for i, v := range r.violations {
		if k, ok := r.known.IsKnown(v.Property, v.Signature); ok {
			knownSeen[v.Property+" "+v.Signature] = k
			knownCount[v.Property+" "+v.Signature]++
			continue
		}
		unlisted++
		unlistedSigs = append(unlistedSigs, v.Signature)
		path := filepath.Join(dir, "replays", fmt.Sprintf("%s-%d-%d.json", v.Property, r.SeedV, i))
		v.RunSeed, v.RunTier = r.SeedV, r.Tier
		bz, _ := json.MarshalIndent(v, "", " ")
		_ = ioutil.WriteFile(path, bz, 0644)
		fmt.Printf("VIOLATION property=%s replay=%s\n", v.Property, path)
		fmt.Printf("  signature=%s\n  %s\n", v.Signature, v.What)
	}
	keys := make([]string, 0, len(knownSeen))
	for k := range knownSeen {
		keys = append(keys, k)
	}
	sort.Strings(keys)
	var knownList []string
	for _, k := range keys {
		kf := knownSeen[k]
		fmt.Printf("KNOWN-FINDING: property=%s %s %s\n", kf.Property, kf.Signature, kf.WhatFails)
		knownList = append(knownList, fmt.Sprintf("%s x%d", kf.Signature, knownCount[k]))
	}

	gatesOut := map[string]*gate{}
	for name, g := range r.gates {
		g.Got = r.counters[name]
		gatesOut[name] = g
		if g.Got < g.Need {
			r.inconcl = append(r.inconcl, fmt.Sprintf("coverage gate %q: observed %d, need %d", name, g.Got, g.Need))
		}
	}

	cov := map[string]interface{}{
		"evaluations":                   r.evals,
		"distinct_nontrivial":           len(r.distinct),
		"rule":                          r.Rule,
		"samples":                       r.samples,
		"counters":                      r.counters,
		"gates":                         gatesOut,
		"known_findings_reobserved":     knownList,
		"unlisted_violation_signatures": unlistedSigs,
		"inconclusive":                  r.inconcl,
		"diagnostics":                   r.diag,
	}
	if r.Exhaustive {
		cov["exhaustive"] = true
	}
	for k, v := range r.extra {
		cov[k] = v
	}
	if r.samples == nil {
		cov["samples"] = []interface{}{}
	}
	ev := map[string]interface{}{
		"property_id": r.Property,
		"tier":        r.Tier,
		"seed":        r.SeedV,
		"level":       r.Level,
		"coverage":    cov,
		"assumptions": r.Assumptions,
		"wall_s":      time.Since(r.start).Seconds(),
		"violations":  unlisted,
	}
	bz, _ := json.MarshalIndent(ev, "", " ")
	_ = ioutil.WriteFile(filepath.Join(dir, "evidence", r.Property+".json"), bz, 0644)

	code := 0
	switch {
	case unlisted > 0:
		code = 1
	case len(r.inconcl) > 0:
		code = 2
		for _, m := range r.inconcl {
			fmt.Printf("INCONCLUSIVE property=%s %s\n", r.Property, m)
		}
	}
	fmt.Printf("%s %s seed=%d: evaluations=%d distinct_nontrivial=%d known=%d unlisted=%d inconclusive=%d wall=%.1fs exit=%d\n",
		r.Property, r.Tier, r.SeedV, r.evals, len(r.distinct), len(knownSeen), unlisted, len(r.inconcl), time.Since(r.start).Seconds(), code)
	return code
}
