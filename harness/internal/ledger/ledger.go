// Package ledger decodes a committed key/value set into a per-currency,
// per-owner ledger using a prefix table taken from the stores' own key
// builders. A key whose prefix the table does not know is reported, so a new
// store can never silently hold value outside the ledger.
package ledger

import (
	"encoding/base64"
	"encoding/hex"
	"encoding/json"
	"fmt"
	"math/big"
	"sort"
	"strings"

	"olverif/internal/hist"
)

var e18 = new(big.Int).Exp(big.NewInt(10), big.NewInt(18), nil)

// Entry is one decoded monetary record.
type Entry struct {
	Key    string
	Class  string // b, f, stake-effective, stake-bounded, stake-maturing, deleg-active, deleg-pending, delegrw-balance, delegrw-pending, prop-escrow, ...
	Owner  string // 0lt… address string ("" for escrows)
	Cur    string
	Amt    *big.Int
	System bool // counted in the system totals (C02)
	Own    bool // counted in the owner's holdings (C03)
}

type Ledger struct {
	Entries  []Entry
	Total    map[string]*big.Int            // currency -> total value on chain
	Owner    map[string]map[string]*big.Int // owner -> currency -> holdings
	Negative []Entry
	Unknown  []string // keys with an unknown prefix
	Bad      []string // keys whose value could not be decoded
}

// Config carries the addresses that are counters, not value.
type Config struct {
	SupplyCounterAddrs []string // 0lt… of TotalSupplyAddr (eth, btc)
}

func DefaultConfig() *Config {
	return &Config{SupplyCounterAddrs: []string{"0lt" + hex.EncodeToString([]byte("oneledgerSupplyAddress"))}}
}

// nonMonetary prefixes: decoded elsewhere (subsystem monitors), no value.
var nonMonetary = []string{
	"v_", "purged_", "w_", "es__", "g_", "propActive", "propPassed", "propFailed", "propFinalized", "propFinalizeFailed",
	"propVotes_", "d_", "etht_", "ethfailed_", "ethsuccess_", "keeper_", "contracts_", "ri_", "rwaddr_", "rwz_", "rwcum_",
	"st__t_", "st__e_", "propFunds_i_", "delegRwz_total_rewards", "btct_", "extBidConv", "extBidOffer_INACTIVE_",
}

func parseAmount(v []byte) (*big.Int, bool) {
	var str string
	if err := json.Unmarshal(v, &str); err != nil {
		str = strings.Trim(string(v), "\"")
	}
	b, ok := new(big.Int).SetString(str, 10)
	return b, ok
}

func parseCoin(v []byte) (cur string, amt *big.Int, ok bool) {
	var c struct {
		Currency struct {
			Name string `json:"name"`
		} `json:"currency"`
		Amount string `json:"amount"`
	}
	if err := json.Unmarshal(v, &c); err != nil {
		return "", nil, false
	}
	if raw, err := base64.StdEncoding.DecodeString(c.Amount); err == nil {
		if a, ok := parseAmount(raw); ok {
			return c.Currency.Name, a, true
		}
	}
	a, ok2 := new(big.Int).SetString(c.Amount, 10)
	return c.Currency.Name, a, ok2
}

func rawAddr(b string) string { return "0lt" + hex.EncodeToString([]byte(b)) }

// Decode builds the ledger of a state.
func Decode(s hist.State, cfg *Config) *Ledger {
	if cfg == nil {
		cfg = DefaultConfig()
	}
	counter := map[string]bool{}
	for _, a := range cfg.SupplyCounterAddrs {
		counter[a] = true
	}
	l := &Ledger{Total: map[string]*big.Int{}, Owner: map[string]map[string]*big.Int{}}
	add := func(e Entry) {
		l.Entries = append(l.Entries, e)
		if e.Amt.Sign() < 0 {
			l.Negative = append(l.Negative, e)
		}
		if e.System {
			if l.Total[e.Cur] == nil {
				l.Total[e.Cur] = new(big.Int)
			}
			l.Total[e.Cur].Add(l.Total[e.Cur], e.Amt)
		}
		if e.Own && e.Owner != "" {
			if l.Owner[e.Owner] == nil {
				l.Owner[e.Owner] = map[string]*big.Int{}
			}
			if l.Owner[e.Owner][e.Cur] == nil {
				l.Owner[e.Owner][e.Cur] = new(big.Int)
			}
			l.Owner[e.Owner][e.Cur].Add(l.Owner[e.Owner][e.Cur], e.Amt)
		}
	}
	for _, k := range s.Keys() {
		v := s[k]
		switch {
		case strings.HasPrefix(k, "b_"):
			rest := k[2:]
			i := strings.LastIndex(rest, "_")
			if i < 0 {
				l.Bad = append(l.Bad, k)
				continue
			}
			owner, cur := rest[:i], rest[i+1:]
			a, ok := parseAmount(v)
			if !ok {
				l.Bad = append(l.Bad, k)
				continue
			}
			if counter[owner] {
				add(Entry{Key: k, Class: "supply-counter", Owner: owner, Cur: cur, Amt: a})
				continue
			}
			add(Entry{Key: k, Class: "b", Owner: owner, Cur: cur, Amt: a, System: true, Own: true})
		case strings.HasPrefix(k, "f_"):
			a, ok := parseAmount(v)
			if !ok {
				l.Bad = append(l.Bad, k)
				continue
			}
			add(Entry{Key: k, Class: "f", Owner: rawAddr(k[2:]), Cur: "OLT", Amt: a, System: true, Own: true})
		case strings.HasPrefix(k, "st__d_e_"), strings.HasPrefix(k, "st__d_b_"):
			a, ok := parseAmount(v)
			if !ok {
				l.Bad = append(l.Bad, k)
				continue
			}
			cls := "stake-effective"
			if strings.HasPrefix(k, "st__d_b_") {
				cls = "stake-bounded"
			}
			add(Entry{Key: k, Class: cls, Owner: k[8:], Cur: "OLT", Amt: new(big.Int).Mul(a, e18), System: true, Own: true})
		case strings.HasPrefix(k, "st__m_"):
			var mb struct {
				Data []struct {
					Address string `json:"address"`
					Amount  string `json:"amount"`
				} `json:"data"`
			}
			if err := json.Unmarshal(v, &mb); err != nil {
				l.Bad = append(l.Bad, k)
				continue
			}
			for i, d := range mb.Data {
				a, ok := new(big.Int).SetString(d.Amount, 10)
				if !ok {
					l.Bad = append(l.Bad, k)
					continue
				}
				add(Entry{Key: fmt.Sprintf("%s#%d", k, i), Class: "stake-maturing", Owner: d.Address, Cur: "OLT", Amt: new(big.Int).Mul(a, e18), System: true, Own: true})
			}
		case strings.HasPrefix(k, "deleg_a_"):
			cur, a, ok := parseCoin(v)
			if !ok {
				l.Bad = append(l.Bad, k)
				continue
			}
			// mirrored by the delegation pool balance: owner's holding, not system value
			add(Entry{Key: k, Class: "deleg-active", Owner: k[8:], Cur: cur, Amt: a, Own: true})
		case strings.HasPrefix(k, "deleg_p_"):
			cur, a, ok := parseCoin(v)
			if !ok {
				l.Bad = append(l.Bad, k)
				continue
			}
			rest := k[8:]
			i := strings.Index(rest, "_")
			owner := ""
			if i >= 0 {
				owner = rest[i+1:]
			}
			add(Entry{Key: k, Class: "deleg-pending", Owner: owner, Cur: cur, Amt: a, System: true, Own: true})
		case strings.HasPrefix(k, "delegRwz_balance_"):
			a, ok := parseAmount(v)
			if !ok {
				l.Bad = append(l.Bad, k)
				continue
			}
			add(Entry{Key: k, Class: "delegrw-balance", Owner: k[len("delegRwz_balance_"):], Cur: "OLT", Amt: a, System: true, Own: true})
		case strings.HasPrefix(k, "delegRwz_pending_"):
			a, ok := parseAmount(v)
			if !ok {
				l.Bad = append(l.Bad, k)
				continue
			}
			rest := k[len("delegRwz_pending_"):]
			i := strings.Index(rest, "_")
			owner := ""
			if i >= 0 {
				owner = rest[i+1:]
			}
			add(Entry{Key: k, Class: "delegrw-pending", Owner: owner, Cur: "OLT", Amt: a, System: true, Own: true})
		case strings.HasPrefix(k, "extBidOffer_ACTIVE_"):
			// the active offer of a bid conversation: a bid offer (type 1) whose
			// amount is locked (status 1) is escrow debited from the bidder
			var o struct {
				OfferType int `json:"offerType"`
				Amount    struct {
					Currency string `json:"currency"`
					Value    string `json:"value"`
				} `json:"amount"`
				AmountStatus int `json:"amountStatus"`
			}
			if err := json.Unmarshal(v, &o); err != nil {
				l.Bad = append(l.Bad, k)
				continue
			}
			a, ok := new(big.Int).SetString(o.Amount.Value, 10)
			if !ok {
				l.Bad = append(l.Bad, k)
				continue
			}
			if o.OfferType == 1 && o.AmountStatus == 1 {
				add(Entry{Key: k, Class: "bid-escrow", Cur: o.Amount.Currency, Amt: a, System: true})
			} else if a.Sign() < 0 {
				l.Negative = append(l.Negative, Entry{Key: k, Class: "bid-offer", Amt: a})
			}
		case strings.HasPrefix(k, "propFunds_t_"):
			a, ok := parseAmount(v)
			if !ok {
				l.Bad = append(l.Bad, k)
				continue
			}
			add(Entry{Key: k, Class: "prop-escrow", Cur: "OLT", Amt: a, System: true})
		default:
			known := false
			for _, p := range nonMonetary {
				if strings.HasPrefix(k, p) {
					known = true
					break
				}
			}
			if !known {
				l.Unknown = append(l.Unknown, k)
			}
			// view records that hold amounts are still checked for sign
			if strings.HasPrefix(k, "propFunds_i_") || strings.HasPrefix(k, "st__t_") || strings.HasPrefix(k, "st__e_") || strings.HasPrefix(k, "rwz_") || strings.HasPrefix(k, "rwcum_balance_") || strings.HasPrefix(k, "rwcum_withdrawn_") {
				if a, ok := parseAmount(v); ok && a.Sign() < 0 {
					l.Negative = append(l.Negative, Entry{Key: k, Class: "view", Amt: a})
				}
			}
		}
	}
	return l
}

// Get returns an owner's holdings in a currency (0 if none).
func (l *Ledger) Get(owner, cur string) *big.Int {
	if m, ok := l.Owner[owner]; ok {
		if a, ok := m[cur]; ok {
			return a
		}
	}
	return new(big.Int)
}

// Currencies lists every currency seen in either ledger.
func Currencies(a, b *Ledger) []string {
	m := map[string]bool{}
	for c := range a.Total {
		m[c] = true
	}
	for c := range b.Total {
		m[c] = true
	}
	var out []string
	for c := range m {
		out = append(out, c)
	}
	sort.Strings(out)
	return out
}

func TotalOf(l *Ledger, cur string) *big.Int {
	if t, ok := l.Total[cur]; ok {
		return t
	}
	return new(big.Int)
}
