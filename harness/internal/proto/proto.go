// Package proto defines the line protocol between the driver (olmon) and a
// node-in-a-box child process (olbox). One JSON document per line in each
// direction; byte slices travel base64 encoded (encoding/json default).
package proto

// Cmd is one command sent to a box.
type Cmd struct {
	Op    string   `json:"op"` // info | check | block | dump | valset | quit
	Tx    []byte   `json:"tx,omitempty"`
	Block *Recipe  `json:"block,omitempty"`
	Full  bool     `json:"full,omitempty"`  // dump: full dump instead of delta
	Addrs []string `json:"addrs,omitempty"` // evm: hex addresses to read through the EVM state adapter
}

// EvidenceSpec asks the box to include real duplicate-vote evidence against
// a validator (by hex address) for the given height.
type EvidenceSpec struct {
	Validator string `json:"validator"`
	Height    int64  `json:"height"`
}

// Recipe describes one block. The box adds nothing of its own.
type Recipe struct {
	DtMs     int64               `json:"dt_ms"`              // block time = previous block time + DtMs (ignored at height 1)
	Txs      [][]byte            `json:"txs"`                // raw transactions, in order
	Absent   []string            `json:"absent,omitempty"`   // hex addresses of validators absent from LastCommit
	Evidence []EvidenceSpec      `json:"evidence,omitempty"` // duplicate-vote evidence to include
	Inject   map[string][][]byte `json:"inject,omitempty"`   // call boundary -> txs to CheckTx there
	Crash    string              `json:"crash,omitempty"`    // call boundary at which the box SIGKILLs itself
	Dump     bool                `json:"dump,omitempty"`     // attach a delta dump of the committed state
	NoIndex  bool                `json:"no_index,omitempty"` // do not wait for the tx indexer
	// Concurrent: transactions a second goroutine sends to CheckTx through
	// Tendermint's real mempool connection (the shared local-client mutex)
	// while the block is being applied; where they land between the consensus
	// calls is up to the scheduler.
	Concurrent [][]byte `json:"concurrent,omitempty"`
}

// Boundary names used by Inject and Crash:
//   before:<Method>[:k]  after:<Method>[:k]   (k = 0-based DeliverTx index)
//   after:SaveBlock  after:ApplyBlock
// Methods: BeginBlock DeliverTx EndBlock Commit.

type Attr struct {
	K string `json:"k"`
	V string `json:"v"`
}

type Event struct {
	Type  string `json:"type"`
	Attrs []Attr `json:"attrs,omitempty"`
}

type ValUpdate struct {
	PubKeyType string `json:"t"`
	PubKey     string `json:"pk"` // hex
	Power      int64  `json:"p"`
}

// Call is one ABCI call observed at the interposer.
type Call struct {
	M          string      `json:"m"`
	Height     int64       `json:"h,omitempty"`
	TxHash     string      `json:"tx,omitempty"` // sha256 of the raw tx, hex
	Injected   bool        `json:"inj,omitempty"`
	Code       uint32      `json:"code,omitempty"`
	Data       string      `json:"data,omitempty"` // hex
	GasWanted  int64       `json:"gw,omitempty"`
	GasUsed    int64       `json:"gu,omitempty"`
	Log        string      `json:"log,omitempty"`
	Info       string      `json:"info,omitempty"`
	Events     []Event     `json:"ev,omitempty"`
	ValUpdates []ValUpdate `json:"vu,omitempty"`
	AppHash    string      `json:"hash,omitempty"` // Commit.Data / Info.LastBlockAppHash, hex
	InfoHeight int64       `json:"ih,omitempty"`
	RunPull    string      `json:"runpull,omitempty"` // BeginBlock: the reward this node itself pulls (its own long-lived calculator)
	TwinPull   string      `json:"twin,omitempty"`    // BeginBlock: the reward a freshly started node would pull (optional)
}

type KV struct {
	K []byte `json:"k"`
	V []byte `json:"v,omitempty"`
	D bool   `json:"d,omitempty"` // deleted since the last dump
}

type Val struct {
	Address string `json:"a"`
	PubKey  string `json:"pk"`
	Power   int64  `json:"p"`
}

// Resp is one answer from a box.
type Resp struct {
	Op         string               `json:"op"`
	Err        string               `json:"err,omitempty"`          // harness-level failure (box could not do what was asked)
	ApplyErr   string               `json:"apply_err,omitempty"`    // Tendermint refused the block / validator updates
	Height     int64                `json:"height"`                 // Tendermint state height after the command
	AppHash    string               `json:"app_hash,omitempty"`     // Tendermint state app hash, hex
	AppHeight  int64                `json:"app_height,omitempty"`   // application's own committed version
	AppAppHash string               `json:"app_app_hash,omitempty"` // application's own committed hash, hex
	BlockTime  int64                `json:"block_time,omitempty"`   // unix ms of last block
	Proposer   string               `json:"proposer,omitempty"`     // hex address of the proposer of the block just applied
	Calls      []Call               `json:"calls,omitempty"`
	Dump       []KV                 `json:"dump,omitempty"`
	DumpFull   bool                 `json:"dump_full,omitempty"`
	Vals       []Val                `json:"vals,omitempty"`      // current validator set (valset)
	NextVals   []Val                `json:"next_vals,omitempty"` // next validator set
	LastVals   []Val                `json:"last_vals,omitempty"`
	Panicked   bool                 `json:"panicked,omitempty"` // "panic in controller" marker seen on the app's stdout
	IndexWait  bool                 `json:"index_timeout,omitempty"`
	Evm        map[string][2]string `json:"evm,omitempty"` // evm: hex address -> [balance, nonce] as the EVM adapter reads them
}
