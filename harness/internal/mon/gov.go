package mon

import (
	"encoding/binary"
	"encoding/json"
	"fmt"
	"math/big"
	"os"
	"sort"
	"strings"

	"olverif/internal/hist"
)

// Proposal is the persisted proposal record.
type Proposal struct {
	ProposalID      string `json:"proposalId"`
	Type            int    `json:"proposalType"`
	Status          int    `json:"status"`
	Outcome         int    `json:"outcome"`
	Proposer        string `json:"proposer"`
	FundingDeadline int64  `json:"fundingDeadline"`
	FundingGoal     string `json:"fundingGoal"`
	VotingDeadline  int64  `json:"votingDeadline"`
	PassPercent     int    `json:"passPercent"`
	Store           string `json:"-"`
}

var propStores = []string{"propActive", "propPassed", "propFailed", "propFinalized", "propFinalizeFailed"}

// Proposals decodes every proposal record; a proposal found in two stores is
// reported through the dup list.
func Proposals(s hist.State) (map[string]*Proposal, []string) {
	out := map[string]*Proposal{}
	var dup []string
	for k, v := range s {
		for _, st := range propStores {
			if strings.HasPrefix(k, st) && len(k) == len(st)+64 {
				p := &Proposal{}
				if json.Unmarshal(v, p) != nil {
					continue
				}
				p.Store = st
				id := k[len(st):]
				if _, ok := out[id]; ok {
					dup = append(dup, id)
				}
				out[id] = p
			}
		}
	}
	return out, dup
}

const (
	stFunding  = 0x23
	stVoting   = 0x24
	outNo      = 0x29
	outCancel  = 0x30
	outYes     = 0x31
	outInsFund = 0x27
	outInsVote = 0x28
)

// phase maps a record to the lifecycle phase of the statement.
func phase(p *Proposal) string {
	switch p.Store {
	case "propActive":
		if p.Status == stVoting {
			return "voting"
		}
		return "funding"
	case "propPassed":
		return "passed"
	case "propFailed":
		switch p.Outcome {
		case outNo:
			return "failed"
		case outInsVote:
			return "expired"
		case outCancel:
			return "cancelled"
		case outInsFund:
			return "missed"
		}
		return "failed?"
	case "propFinalized", "propFinalizeFailed":
		return "finalised"
	}
	return "?"
}

var forward = map[string]map[string]bool{
	"funding":   {"voting": true, "cancelled": true, "missed": true},
	"voting":    {"passed": true, "failed": true, "expired": true},
	"passed":    {"finalised": true},
	"failed":    {"finalised": true},
	"expired":   {},
	"cancelled": {},
	"missed":    {},
	"finalised": {},
}

type voteRec struct {
	Validator string `json:"validator"`
	Opinion   int    `json:"opinion"`
	Power     int64  `json:"power"`
}

func votesOf(s hist.State, id string) []voteRec {
	var out []voteRec
	pf := "propVotes_" + id + "_"
	for k, v := range s {
		if strings.HasPrefix(k, pf) {
			var r voteRec
			if json.Unmarshal(v, &r) == nil {
				out = append(out, r)
			}
		}
	}
	return out
}

// tally restates the outcome rule with exact rationals: passed iff
// yes/(all-giveup) >= pass%; failed iff 1 - no/(all-giveup) < pass%.
func tally(votes []voteRec, passPercent int) string {
	var all, yes, no, giveup int64
	for _, v := range votes {
		all += v.Power
		switch v.Opinion {
		case 1:
			yes += v.Power
		case 2:
			no += v.Power
		case 3:
			giveup += v.Power
		}
	}
	total := all - giveup
	if total <= 0 {
		if passPercent <= 0 {
			return "passed"
		}
		return "tbd"
	}
	// yes/total >= p/100  <=>  yes*100 >= p*total
	if new(big.Int).Mul(big.NewInt(yes), big.NewInt(100)).Cmp(new(big.Int).Mul(big.NewInt(int64(passPercent)), big.NewInt(total))) >= 0 {
		return "passed"
	}
	// 1 - no/total < p/100  <=>  (total-no)*100 < p*total
	if new(big.Int).Mul(big.NewInt(total-no), big.NewInt(100)).Cmp(new(big.Int).Mul(big.NewInt(int64(passPercent)), big.NewInt(total))) < 0 {
		return "failed"
	}
	return "tbd"
}

// C14Mon follows every proposal and its funds.
type C14Mon struct {
	contributed  map[string]map[string]*big.Int // id -> funder -> nue
	withdrawn    map[string]map[string]*big.Int
	Frankenstein int64
}

func NewC14(fr int64) *C14Mon {
	return &C14Mon{contributed: map[string]map[string]*big.Int{}, withdrawn: map[string]map[string]*big.Int{}, Frankenstein: fr}
}

func add2(m map[string]map[string]*big.Int, a, b string, v *big.Int) {
	if m[a] == nil {
		m[a] = map[string]*big.Int{}
	}
	addTo(m[a], b, v)
}

func optionRecordsChanged(prev, cur hist.State) []string {
	var out []string
	for k, v := range cur {
		if strings.HasPrefix(k, "g_") && !strings.HasPrefix(k, "g_heightindependent") {
			if pv, ok := prev[k]; !ok || string(pv) != string(v) {
				out = append(out, k)
			}
		}
	}
	sort.Strings(out)
	return out
}

func (m *C14Mon) OnBlock(blk *hist.Block) []Finding {
	var out []Finding
	prev, _ := Proposals(blk.Prev)
	cur, dup := Proposals(blk.Cur)
	for _, id := range dup {
		out = append(out, Finding{"C14", "C14/lifecycle/two-records", fmt.Sprintf("block %d: proposal %s has records in two stores", blk.H, id[:10])})
	}
	// this block's successful transactions
	contribNow, withdrawNow := map[string]*big.Int{}, map[string]*big.Int{}
	votedNow := map[string]bool{}
	for _, t := range blk.Txs {
		if t.Call.Code != 0 {
			continue
		}
		p := Payload(t.Bytes)
		id := PString(p, "proposalId")
		switch t.Kind {
		case "PROPOSAL_CREATE":
			a := PAmount(p, "initialFunding")
			add2(m.contributed, id, PString(p, "proposerAddress"), a)
			addTo(contribNow, id, a)
		case "PROPOSAL_FUND":
			a := PAmount(p, "fundValue")
			add2(m.contributed, id, PString(p, "funderAddress"), a)
			addTo(contribNow, id, a)
		case "PROPOSAL_WITHDRAW_FUNDS":
			a := PAmount(p, "withdrawValue")
			f := PString(p, "funderAddress")
			add2(m.withdrawn, id, f, a)
			addTo(withdrawNow, id, a)
			if get(m.withdrawn[id], f).Cmp(get(m.contributed[id], f)) > 0 {
				out = append(out, Finding{"C14", "C14/funds/withdrawn-more-than-contributed", fmt.Sprintf("block %d: funder %s has withdrawn %s from proposal %s, it contributed %s", blk.H, f, get(m.withdrawn[id], f), id[:10], get(m.contributed[id], f))})
			}
			if pp := prev[id]; pp != nil {
				ph := phase(pp)
				if !(ph == "cancelled" || ph == "missed" || (ph == "funding" && blk.H > pp.FundingDeadline)) {
					out = append(out, Finding{"C14", "C14/funds/withdrawn-from-live-proposal", fmt.Sprintf("block %d: funds withdrawn from proposal %s which is in phase %s (funding deadline %d)", blk.H, id[:10], ph, pp.FundingDeadline)})
				}
			}
		case "PROPOSAL_VOTE":
			votedNow[id] = true
			val := PString(p, "validatorAddress")
			found := false
			for _, v := range votesOf(blk.Prev, id) {
				if v.Validator == val {
					found = true
				}
			}
			if !found {
				out = append(out, Finding{"C14", "C14/vote/not-in-snapshot", fmt.Sprintf("block %d: vote by %s on proposal %s succeeded although it is not among the validators snapshotted when voting began", blk.H, val, id[:10])})
			}
		}
	}
	// lifecycle per proposal
	ids := map[string]bool{}
	for id := range prev {
		ids[id] = true
	}
	for id := range cur {
		ids[id] = true
	}
	finalisedConfig := 0
	distributedNow := new(big.Int) // escrow emptied by finalisations of this block
	allowedNow := new(big.Int)     // the validators' part of it
	for id := range ids {
		pp, cp := prev[id], cur[id]
		if pp != nil && cp != nil && phase(pp) == "voting" {
			// once voting has begun, its deadline stands and a recorded opinion stays recorded
			if phase(cp) == "voting" && cp.VotingDeadline != pp.VotingDeadline {
				out = append(out, Finding{"C14", "C14/voting/deadline-moved", fmt.Sprintf("block %d: proposal %s is being voted on and its voting deadline moved from %d to %d", blk.H, id[:10], pp.VotingDeadline, cp.VotingDeadline)})
			}
			now := map[string]voteRec{}
			for _, v := range votesOf(blk.Cur, id) {
				now[v.Validator] = v
			}
			for _, v := range votesOf(blk.Prev, id) {
				if n, ok := now[v.Validator]; v.Opinion != 0 && ok && n.Opinion != v.Opinion {
					out = append(out, Finding{"C14", "C14/voting/recorded-opinion-changed", fmt.Sprintf("block %d: proposal %s: the recorded opinion %d of validator %s reads %d now", blk.H, id[:10], v.Opinion, v.Validator, n.Opinion)})
					break
				}
			}
		}
		if cp == nil {
			out = append(out, Finding{"C14", "C14/lifecycle/record-vanished", fmt.Sprintf("block %d: proposal %s has no record any more", blk.H, id[:10])})
			continue
		}
		to := phase(cp)
		from := "none"
		if pp != nil {
			from = phase(pp)
		} else {
			if to != "funding" && !(to == "voting") {
				out = append(out, Finding{"C14", "C14/lifecycle/skip/none->" + to, fmt.Sprintf("block %d: proposal %s appears directly in phase %s", blk.H, id[:10], to)})
			}
			from = "funding"
			if to == "funding" {
				continue
			}
		}
		if from != to {
			okStep := forward[from][to]
			// two steps in one block are fine if each is: voting -> passed/failed -> finalised
			if !okStep && from == "voting" && to == "finalised" && votedNow[id] {
				okStep = true
			}
			if !okStep && from == "funding" && (to == "passed" || to == "failed") && votedNow[id] {
				okStep = true // funded to the goal and voted through in one block
			}
			if !okStep {
				out = append(out, Finding{"C14", "C14/lifecycle/" + from + "->" + to, fmt.Sprintf("block %d: proposal %s moved from %s to %s", blk.H, id[:10], from, to)})
				continue
			}
			rec := pp
			if rec == nil {
				rec = cp
			}
			out = append(out, Finding{"COUNT", "observed:" + from + "->" + to, ""})
			switch to {
			case "voting":
				funds := amountAt(blk.Cur, "propFunds_t_"+id)
				if funds.Cmp(bigOf(rec.FundingGoal)) < 0 {
					out = append(out, Finding{"C14", "C14/voting-entered/below-goal", fmt.Sprintf("block %d: proposal %s entered voting with funds %s below its goal %s", blk.H, id[:10], funds, rec.FundingGoal)})
				}
				if blk.H > rec.FundingDeadline {
					out = append(out, Finding{"C14", "C14/voting-entered/after-funding-deadline", fmt.Sprintf("block %d: proposal %s entered voting after its funding deadline %d", blk.H, id[:10], rec.FundingDeadline)})
				}
			case "passed", "failed":
				if got := tally(votesOf(blk.Cur, id), rec.PassPercent); got != to {
					out = append(out, Finding{"C14", "C14/outcome/" + to + "-but-votes-say-" + got, fmt.Sprintf("block %d: proposal %s was declared %s, the recorded votes (pass percentage %d) give %s", blk.H, id[:10], to, rec.PassPercent, got)})
				}
			case "expired":
				if blk.H <= rec.VotingDeadline {
					out = append(out, Finding{"C14", "C14/expired-before-deadline", fmt.Sprintf("block %d: proposal %s expired although its voting deadline is %d", blk.H, id[:10], rec.VotingDeadline)})
				}
			case "finalised":
				if cp.Type == 0x20 && from == "passed" && cp.Store == "propFinalized" {
					finalisedConfig++
				}
				if from == "voting" {
					want := "passed"
					if cp.Outcome == outNo {
						want = "failed"
					}
					if got := tally(votesOf(blk.Cur, id), rec.PassPercent); got != want && len(votesOf(blk.Cur, id)) > 0 {
						out = append(out, Finding{"C14", "C14/outcome/" + want + "-but-votes-say-" + got, fmt.Sprintf("block %d: proposal %s was finalised as %s, the recorded votes give %s", blk.H, id[:10], want, got)})
					}
				}
			}
		}
		// funds: exact escrow accounting
		pe, ce := amountAt(blk.Prev, "propFunds_t_"+id), amountAt(blk.Cur, "propFunds_t_"+id)
		want := new(big.Int).Add(pe, get(contribNow, id))
		want.Sub(want, get(withdrawNow, id))
		if to == "finalised" && from != "finalised" {
			distributedNow.Add(distributedNow, pe)
			// (this proposal's validators' part: the percentage its type's option record configures for its outcome)
			part := new(big.Int).Mul(pe, big.NewInt(int64(validatorsPct(blk.Prev, cp.Type, from == "passed")*100)))
			allowedNow.Add(allowedNow, part.Div(part, big.NewInt(10000)))
			// distribution empties the escrow; it may not hand out more than was there
			if ce.Sign() != 0 {
				out = append(out, Finding{"C14", "C14/funds/escrow-left-after-finalisation", fmt.Sprintf("block %d: proposal %s finalised but %s is still in escrow", blk.H, id[:10], ce)})
			}
			// ... and no contributor keeps a record of money that has been paid out
			for key := range blk.Cur {
				if strings.HasPrefix(key, "propFunds_i_"+id+"_") {
					if a := amountAt(blk.Cur, key); a.Sign() != 0 {
						out = append(out, Finding{"C14", "C14/funds/funder-record-left-after-finalisation", fmt.Sprintf("block %d: proposal %s is finalised and its funds are distributed, but %s still records a contribution of %s", blk.H, id[:10], key[len("propFunds_i_")+len(id)+1:], a)})
						break
					}
				}
			}
		} else if ce.Cmp(want) != 0 {
			out = append(out, Finding{"C14", "C14/funds/escrow-accounting", fmt.Sprintf("block %d: escrow of proposal %s is %s; previous %s plus contributions %s minus withdrawals %s gives %s", blk.H, id[:10], ce, pe, get(contribNow, id), get(withdrawNow, id), want)})
		}
	}
	// the validators' share of what was distributed in this block: all validator accounts together never gain more
	// than the configured share of the escrows emptied (validator accounts are paid by nothing else unless a
	// transaction of the block names them)
	if distributedNow.Sign() > 0 {
		share := validatorsShare(blk.Prev)
		gained := new(big.Int)
		named := false
		n := 0
		for va := range Validators(blk.Prev) {
			n++
			if d := new(big.Int).Sub(amountAt(blk.Cur, "b_"+va+"_OLT"), amountAt(blk.Prev, "b_"+va+"_OLT")); d.Sign() > 0 {
				gained.Add(gained, d)
				if os.Getenv("DEBUG_C14") != "" {
					fmt.Printf("DEBUG   h=%d %s +%s active=%v\n", blk.H, va, d, isActive(blk.Prev, va))
				}
			}
			for _, t := range blk.Txs {
				// (staking and voting transactions name the validator and pay nothing into its account)
				if t.Call.Code == 0 && !map[string]bool{"PROPOSAL_VOTE": true, "ALLEGATION_VOTE": true, "ALLEGATION": true, "RELEASE": true, "STAKE": true, "UNSTAKE": true, "WITHDRAW": true, "WITHDRAW_REWARD": true}[t.Kind] {
					if pj, _ := json.Marshal(Payload(t.Bytes)); strings.Contains(string(pj), va) {
						named = true
					}
				}
			}
		}
		// (rounded up, a few units per proposal for the divisions)
		allowed := new(big.Int).Add(allowedNow, big.NewInt(int64(n)+8))
		if os.Getenv("DEBUG_C14") != "" { // triage aid
			fmt.Printf("DEBUG h=%d distributed=%s share=%.2f records=%d gained=%s allowed=%s named=%v\n", blk.H, distributedNow, share, n, gained, allowed, named)
		}
		if share > 0 && !named && gained.Cmp(allowed) > 0 {
			out = append(out, Finding{"C14", "C14/funds/validators-paid-more-than-their-share", fmt.Sprintf("block %d: proposals holding %s in escrow were finalised; the %d validator accounts together gained %s, the validators' share (%.2f %%) is %s", blk.H, distributedNow, n, gained, share, allowed)})
		}
	}
	// a proposal that is still being voted on at the end of a block is one the recorded votes do not decide
	for id, cp := range cur {
		if phase(cp) != "voting" || len(votesOf(blk.Cur, id)) == 0 {
			continue
		}
		if got := tally(votesOf(blk.Cur, id), cp.PassPercent); got != "tbd" {
			out = append(out, Finding{"C14", "C14/outcome/undecided-but-votes-say-" + got, fmt.Sprintf("block %d: proposal %s is still being voted on, the recorded votes (pass percentage %d) give %s", blk.H, id[:10], cp.PassPercent, got)})
		}
	}
	// configuration records change only when a passed config proposal is finalised
	changed := optionRecordsChanged(blk.Prev, blk.Cur)
	if blk.H == m.Frankenstein || blk.H == 1 {
		changed = nil // genesis options and the fork's own staking-option update
	}
	var optChanged []string
	for _, k := range changed {
		if strings.HasSuffix(k, "_defaultOptions") {
			continue
		}
		optChanged = append(optChanged, k)
	}
	if len(optChanged) > finalisedConfig {
		out = append(out, Finding{"C14", "C14/config/changed-without-passed-proposal", fmt.Sprintf("block %d: %d governance option records changed (%q) but only %d passed configuration proposals were finalised in the block", blk.H, len(optChanged), first3(optChanged), finalisedConfig)})
	}
	// refunds must be possible: an honest refund request that was refused
	for _, rj := range blk.Rejected {
		if rj.Kind != "PROPOSAL_WITHDRAW_FUNDS" || rj.Trait != "" {
			continue
		}
		p := Payload(rj.Bytes)
		id, f, a := PString(p, "proposalId"), PString(p, "funderAddress"), PAmount(p, "withdrawValue")
		pp := prev[id]
		if pp == nil || a.Sign() <= 0 {
			continue
		}
		ph := phase(pp)
		if (ph == "cancelled" || ph == "missed") && amountAt(blk.Prev, "propFunds_i_"+id+"_"+f).Cmp(a) >= 0 && len(rj.Signers) == 1 && rj.Signers[0] == f {
			out = append(out, Finding{"C14", "C14/funds/refund-refused", fmt.Sprintf("block %d: funder %s could not withdraw %s of its own contribution from %s proposal %s: %s", blk.H, f, a, ph, id[:10], rj.Meta["check_log"])})
		}
	}
	return out
}

func first3(s []string) []string {
	if len(s) > 3 {
		return s[:3]
	}
	return s
}

// validatorsPct: the validators' percentage of the fund distribution the option record in force configures
// for a proposal type and outcome.
func validatorsPct(s hist.State, typ int, passed bool) float64 {
	luh := uint64(0)
	if b, ok := s["g_proposalOptions_defaultOptions"]; ok && len(b) == 8 {
		luh = binary.LittleEndian.Uint64(b)
	}
	v, ok := s["g_"+string(rune(luh))+"_proposal"]
	if !ok {
		return 100
	}
	var set map[string]json.RawMessage
	if json.Unmarshal(v, &set) != nil {
		return 100
	}
	name := map[int]string{0x20: "configUpdate", 0x21: "codeChange", 0x22: "general"}[typ]
	var o struct {
		P struct {
			Validators float64 `json:"validators"`
		} `json:"passedFundDistribution"`
		F struct {
			Validators float64 `json:"validators"`
		} `json:"failedFundDistribution"`
	}
	if raw, ok := set[name]; !ok || json.Unmarshal(raw, &o) != nil {
		return 100
	}
	if passed {
		return o.P.Validators
	}
	return o.F.Validators
}

// validatorsShare: the largest validators' percentage any proposal type's fund distribution (passed or failed)
// configures in the option record in force.
func validatorsShare(s hist.State) float64 {
	luh := uint64(0)
	if b, ok := s["g_proposalOptions_defaultOptions"]; ok && len(b) == 8 {
		luh = binary.LittleEndian.Uint64(b)
	}
	v, ok := s["g_"+string(rune(luh))+"_proposal"]
	if !ok {
		return 0
	}
	type dist struct {
		Validators float64 `json:"validators"`
	}
	var set map[string]json.RawMessage
	if json.Unmarshal(v, &set) != nil {
		return 0
	}
	max := 0.0
	for _, raw := range set {
		var o struct {
			P dist `json:"passedFundDistribution"`
			F dist `json:"failedFundDistribution"`
		}
		if json.Unmarshal(raw, &o) == nil {
			if o.P.Validators > max {
				max = o.P.Validators
			}
			if o.F.Validators > max {
				max = o.F.Validators
			}
		}
	}
	return max
}
