// Package mon holds the per-block monitors: oracles over the decoded state
// before and after a block and the block's observed results.
package mon

import (
	"encoding/json"
	"fmt"
	"math/big"
	"sort"
	"strings"

	"olverif/internal/hist"
	"olverif/internal/ledger"
)

// Finding is a violation candidate; the check decides how to report it.
type Finding struct {
	Prop string
	Sig  string
	What string
}

const DelegationPool = "0lt3030303030303030303030303030303030303031"

// OkKinds lists the kinds of the transactions that returned code 0.
func OkKinds(blk *hist.Block) string {
	m := map[string]bool{}
	for _, t := range blk.Txs {
		if t.Call.Code == 0 {
			k := t.Kind
			if t.Trait != "" {
				k += "[" + t.Field + ":" + t.Trait + "]"
			}
			m[k] = true
		}
	}
	var ks []string
	for k := range m {
		ks = append(ks, k)
	}
	sort.Strings(ks)
	if len(ks) == 0 {
		return "no-tx"
	}
	return strings.Join(ks, "+")
}

// where names the cause of a ledger violation as specifically as the block
// allows: the single successful transaction (kind.field/trait) if there is
// exactly one, otherwise the set of successful kinds.
func where(blk *hist.Block) string {
	var ok []hist.TxResult
	for _, t := range blk.Txs {
		if t.Call.Code == 0 {
			ok = append(ok, t)
		}
	}
	if len(ok) == 1 {
		t := ok[0]
		if t.Trait != "" {
			return t.Kind + "." + t.Field + "/" + t.Trait
		}
		return t.Kind
	}
	return "block:" + OkKinds(blk)
}

func eventAttr(c hist.Block, typ, key string) (string, bool) {
	for _, e := range c.Begin.Events {
		if e.Type != typ {
			continue
		}
		for _, a := range e.Attrs {
			if a.K == key {
				return a.V, true
			}
		}
	}
	return "", false
}

// Allowance is what the totals of a currency may grow by in this block.
type Allowance map[string]*big.Int

// C02 checks: no stored amount negative; per currency the system total does
// not grow by more than the allowance (delegation rewards reported by the
// block-reward event for OLT; released locks / failed redeems for wrapped
// currencies, supplied by the caller).
func C02(prev, cur *ledger.Ledger, blk *hist.Block, wrapped Allowance) []Finding {
	var out []Finding
	for _, n := range cur.Negative {
		out = append(out, Finding{"C02", "C02/negative/" + n.Class + "/" + where(blk), fmt.Sprintf("block %d: stored amount %s at %q is negative", blk.H, n.Amt, n.Key)})
	}
	for _, c := range ledger.Currencies(prev, cur) {
		d := new(big.Int).Sub(ledger.TotalOf(cur, c), ledger.TotalOf(prev, c))
		allow := new(big.Int)
		if c == "OLT" {
			if v, ok := eventAttr(*blk, "block_rewards", DelegationPool); ok {
				if a, ok := new(big.Int).SetString(strings.TrimSpace(v), 10); ok {
					allow.Add(allow, a)
					// (what accrues under the schedule comes out of the rewards pool: never more than it holds)
					if pool := amountAt(blk.Prev, "b_0lt726577617264706f6f6c_OLT"); a.Cmp(pool) > 0 {
						out = append(out, Finding{"C02", "C02/increase/OLT/delegation-rewards-beyond-the-rewards-pool", fmt.Sprintf("block %d: %s of delegation rewards accrued in the block, the rewards pool holds %s", blk.H, a, pool)})
					}
				}
			}
		}
		if wrapped != nil && wrapped[c] != nil {
			allow.Add(allow, wrapped[c])
		}
		if d.Cmp(allow) > 0 {
			out = append(out, Finding{"C02", "C02/increase/" + c + "/" + where(blk), fmt.Sprintf("block %d: total %s on chain grew by %s, allowance %s (delegation rewards / confirmed locks)", blk.H, c, d, allow)})
		}
	}
	return out
}

// C03 checks that no externally owned account lost holdings in a block it did
// not authorise. eoas = accounts to watch; stakeOf maps validator address ->
// stake address (from the previous state); guilty = validators on which a
// guilty verdict was recorded in this block.
func C03(prev, cur *ledger.Ledger, blk *hist.Block, eoas map[string]bool, stakeOf map[string]string, guilty []string) []Finding {
	auth := map[string]bool{}
	// owners whose only successful transactions in the block are of kinds that cost their signers nothing but
	// the fee: the most such an owner may lose is the sum of the fees it may have been charged
	feeOnly := map[string]bool{}
	feeBound := map[string]*big.Int{}
	for _, t := range blk.Txs {
		if t.Call.Code != 0 {
			continue
		}
		for _, s := range t.Signers {
			for _, who := range []string{s, stakeOf[s]} {
				if who == "" {
					continue
				}
				if !auth[who] {
					feeOnly[who] = true
					feeBound[who] = new(big.Int)
				}
				auth[who] = true
				if feeOnlyKinds[t.Kind] {
					feeBound[who].Add(feeBound[who], maxFee(t.Bytes))
				} else {
					feeOnly[who] = false
				}
			}
		}
	}
	for _, g := range guilty {
		if st, ok := stakeOf[g]; ok {
			auth[st] = true
			feeOnly[st] = false
		}
	}
	var out []Finding
	owners := make([]string, 0, len(eoas))
	for o := range eoas {
		owners = append(owners, o)
	}
	sort.Strings(owners)
	for _, o := range owners {
		if auth[o] && feeOnly[o] {
			curs := map[string]bool{}
			for c := range prev.Owner[o] {
				curs[c] = true
			}
			for c := range cur.Owner[o] {
				curs[c] = true
			}
			for c := range curs {
				a, b := prev.Get(o, c), cur.Get(o, c)
				bound := new(big.Int)
				if c == "OLT" {
					bound = feeBound[o]
				}
				if loss := new(big.Int).Sub(a, b); loss.Cmp(bound) > 0 {
					out = append(out, Finding{"C03", "C03/debit-beyond-fees/" + c, fmt.Sprintf("block %d: holdings of %s in %s fell from %s to %s; the only successful transactions it signed in the block cost their signers nothing but the fee (at most %s in all) and no guilty verdict names it", blk.H, o, c, a, b, bound)})
				}
			}
			continue
		}
		if auth[o] {
			continue
		}
		curs := map[string]bool{}
		for c := range prev.Owner[o] {
			curs[c] = true
		}
		for c := range cur.Owner[o] {
			curs[c] = true
		}
		for c := range curs {
			a, b := prev.Get(o, c), cur.Get(o, c)
			if b.Cmp(a) < 0 {
				out = append(out, Finding{"C03", "C03/debit/" + c + "/" + where(blk), fmt.Sprintf("block %d: holdings of %s in %s fell from %s to %s although it signed nothing in the block and no guilty verdict names it", blk.H, o, c, a, b)})
			}
		}
	}
	return out
}

// feeOnlyKinds: transaction kinds whose handlers take nothing from their signers but the fee.
var feeOnlyKinds = map[string]bool{"PROPOSAL_VOTE": true, "ALLEGATION": true, "ALLEGATION_VOTE": true, "RELEASE": true, "EXPIRE_VOTES": true, "PROPOSAL_FINALIZE": true, "ETH_REPORT_FINALITY_MINT": true}

// maxFee: gas limit times price of a native transaction (the most its fee payer can be charged).
func maxFee(bz []byte) *big.Int {
	var st struct {
		Fee struct {
			Price struct {
				Value string `json:"value"`
			} `json:"price"`
			Gas int64 `json:"gas"`
		} `json:"fee"`
	}
	out := new(big.Int)
	if json.Unmarshal(bz, &st) != nil {
		return out
	}
	if p, ok := new(big.Int).SetString(st.Fee.Price.Value, 10); ok && p.Sign() > 0 && st.Fee.Gas > 0 {
		out.Mul(p, big.NewInt(st.Fee.Gas))
	}
	return out
}
