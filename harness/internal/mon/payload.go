package mon

import (
	"encoding/json"
	"math/big"
	"strings"

	"olverif/internal/hist"
)

// Payload decodes the message payload of a transaction (the inner JSON).
func Payload(bz []byte) map[string]interface{} {
	var st struct {
		Data []byte `json:"data"`
	}
	if json.Unmarshal(bz, &st) != nil {
		return nil
	}
	var p map[string]interface{}
	if json.Unmarshal(st.Data, &p) != nil {
		return nil
	}
	return p
}

// pField finds a payload field case-insensitively.
func pField(p map[string]interface{}, name string) interface{} {
	if v, ok := p[name]; ok {
		return v
	}
	for k, v := range p {
		if strings.EqualFold(k, name) {
			return v
		}
	}
	return nil
}

// PAmount reads an amount-valued payload field ({"currency","value"} or a decimal string).
func PAmount(p map[string]interface{}, name string) *big.Int {
	switch x := pField(p, name).(type) {
	case map[string]interface{}:
		if s, ok := x["value"].(string); ok {
			if b, ok := new(big.Int).SetString(s, 10); ok {
				return b
			}
		}
	case string:
		if b, ok := new(big.Int).SetString(x, 10); ok {
			return b
		}
	}
	return new(big.Int)
}

// PString reads a string-valued payload field.
func PString(p map[string]interface{}, name string) string {
	if s, ok := pField(p, name).(string); ok {
		return s
	}
	return ""
}

// txAmount / txAddr read the facts the monitors need from the transaction
// itself (not from generator metadata).
func txAmount(t hist.TxResult, fields ...string) *big.Int {
	p := Payload(t.Bytes)
	for _, f := range fields {
		if a := PAmount(p, f); a.Sign() != 0 {
			return a
		}
	}
	return new(big.Int)
}

func txAddr(t hist.TxResult, fields ...string) string {
	p := Payload(t.Bytes)
	for _, f := range fields {
		if s := PString(p, f); s != "" {
			return s
		}
	}
	return ""
}
