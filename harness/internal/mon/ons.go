package mon

import (
	"encoding/json"
	"fmt"
	"math/big"
	"strings"

	"olverif/internal/hist"
)

// Domain is the persisted domain record (d_<reversed name>).
type Domain struct {
	Owner       string `json:"a"`
	Beneficiary string `json:"b"`
	Name        string `json:"c"`
	Creation    int64  `json:"d"`
	LastUpdate  int64  `json:"e"`
	Expire      int64  `json:"f"`
	Active      bool   `json:"g"`
	OnSale      bool   `json:"h"`
	SalePrice   []byte `json:"i"`
	URI         string `json:"k"`
	Key         string `json:"-"`
}

func (d *Domain) Price() *big.Int {
	if len(d.SalePrice) == 0 {
		return new(big.Int)
	}
	var s string
	if json.Unmarshal(d.SalePrice, &s) != nil {
		s = strings.Trim(string(d.SalePrice), "\"")
	}
	return bigOf(s)
}

func domains(s hist.State) map[string]*Domain {
	out := map[string]*Domain{}
	for k, v := range s {
		if strings.HasPrefix(k, "d_") {
			d := &Domain{Key: k}
			if json.Unmarshal(v, d) == nil && d.Name != "" {
				out[d.Name] = d
			}
		}
	}
	return out
}

func onsOptions(s hist.State) (base, perBlock *big.Int) {
	var o struct {
		PerBlockFees    string `json:"perBlockFees"`
		BaseDomainPrice string `json:"baseDomainPrice"`
	}
	if b := OptionAt(s, "onsOptions", "onsopt"); b != nil {
		_ = json.Unmarshal(b, &o)
	}
	return bigOf(o.BaseDomainPrice), bigOf(o.PerBlockFees)
}

func parentOf(name string) string {
	if i := strings.Index(name, "."); i >= 0 && strings.Count(name, ".") >= 2 {
		return name[i+1:]
	}
	return ""
}

func floorDiv(a, b *big.Int) int64 {
	if b.Sign() <= 0 || a.Sign() < 0 {
		return -1
	}
	return new(big.Int).Div(a, b).Int64()
}

// C20 checks one block of domain traffic against the statement.
func C20(blk *hist.Block) []Finding {
	var out []Finding
	prev, cur := domains(blk.Prev), domains(blk.Cur)
	// at most one record per name
	byName := map[string]int{}
	for k, v := range blk.Cur {
		if strings.HasPrefix(k, "d_") {
			d := &Domain{}
			if json.Unmarshal(v, d) == nil {
				byName[d.Name]++
			}
		}
	}
	for n, c := range byName {
		if c > 1 {
			out = append(out, Finding{"C20", "C20/two-records", fmt.Sprintf("block %d: name %s has %d records", blk.H, n, c)})
		}
	}
	pBase, pPer := onsOptions(blk.Prev)
	cBase, cPer := onsOptions(blk.Cur)
	// the options change when a passed configuration proposal is finalised: by a PROPOSAL_FINALIZE
	// transaction of the block, or by the block-end hook after every transaction. A transaction delivered
	// before that point is priced with the previous block's options; only later ones may see the new ones.
	finIdx := len(blk.Txs)
	for i, t := range blk.Txs {
		if t.Kind == "PROPOSAL_FINALIZE" && t.Call.Code == 0 && i < finIdx {
			finIdx = i
		}
	}
	basesAt := func(idx int) []*big.Int {
		if idx < finIdx {
			return []*big.Int{pBase}
		}
		return []*big.Int{pBase, cBase}
	}
	persAt := func(idx int) []*big.Int {
		if idx < finIdx {
			return []*big.Int{pPer}
		}
		return []*big.Int{pPer, cPer}
	}
	// successful transactions per name
	type ev struct {
		kind   string
		signer string
		p      map[string]interface{}
		idx    int
	}
	evs := map[string][]ev{}
	signedOrTouched := map[string]int{}
	var payloads []string
	for ti, t := range blk.Txs {
		if t.Call.Code != 0 {
			continue
		}
		p := Payload(t.Bytes)
		if pj, err := json.Marshal(p); err == nil {
			payloads = append(payloads, string(pj))
		}
		for _, s := range t.Signers {
			signedOrTouched[s]++
		}
		if !strings.HasPrefix(t.Kind, "DOMAIN_") {
			continue
		}
		n := PString(p, "name")
		s := ""
		if len(t.Signers) > 0 {
			s = t.Signers[0]
		}
		evs[n] = append(evs[n], ev{t.Kind, s, p, ti})
		if t.Kind == "DOMAIN_SEND" {
			if d := prev[n]; d != nil {
				signedOrTouched[d.Beneficiary]++
			}
		}
	}
	names := map[string]bool{}
	for n := range prev {
		names[n] = true
	}
	for n := range cur {
		names[n] = true
	}
	for n := range names {
		pd, cd := prev[n], cur[n]
		es := evs[n]
		has := func(kind string) *ev {
			for i := range es {
				if es[i].kind == kind {
					return &es[i]
				}
			}
			return nil
		}
		ownerSigned := func(owner string) bool {
			for _, e := range es {
				if e.signer == owner && e.kind != "DOMAIN_PURCHASE" && e.kind != "DOMAIN_CREATE" {
					return true
				}
			}
			return false
		}
		parent := parentOf(n)
		switch {
		case pd == nil && cd != nil:
			// created
			c := has("DOMAIN_CREATE")
			if c == nil {
				out = append(out, Finding{"C20", "C20/created-without-transaction", fmt.Sprintf("block %d: name %s appeared without a successful DOMAIN_CREATE", blk.H, n)})
				continue
			}
			out = append(out, Finding{"COUNT", "observed:create", ""})
			price := PAmount(c.p, "buyingPrice")
			if parent != "" {
				par := prev[parent]
				if par == nil {
					par = cur[parent]
				}
				if par == nil {
					out = append(out, Finding{"C20", "C20/sub-domain/without-parent", fmt.Sprintf("block %d: sub-name %s created although %s does not exist", blk.H, n, parent)})
					continue
				}
				if c.signer != par.Owner && (cur[parent] == nil || c.signer != cur[parent].Owner) {
					out = append(out, Finding{"C20", "C20/sub-domain/created-by-non-owner", fmt.Sprintf("block %d: sub-name %s created by %s, the parent's owner is %s", blk.H, n, c.signer, par.Owner)})
				}
				if cd.Expire != par.Expire && (cur[parent] == nil || cd.Expire != cur[parent].Expire) {
					out = append(out, Finding{"C20", "C20/expiry/sub-domain-differs-from-parent", fmt.Sprintf("block %d: sub-name %s expires at %d, its parent at %d", blk.H, n, cd.Expire, par.Expire)})
				}
			} else {
				ok := false
				for _, b := range basesAt(c.idx) {
					for _, pp := range persAt(c.idx) {
						ext := floorDiv(new(big.Int).Sub(price, b), pp)
						if ext >= 0 && (cd.Expire == blk.H-1+ext || cd.Expire == blk.H+ext) {
							ok = true
						}
					}
				}
				if !ok {
					out = append(out, Finding{"C20", "C20/expiry/create", fmt.Sprintf("block %d: %s created for %s expires at %d; (payment - base price %s) / per-block price %s buys %d blocks from height %d", blk.H, n, price, cd.Expire, pBase, pPer, floorDiv(new(big.Int).Sub(price, pBase), pPer), blk.H-1)})
				}
			}
		case pd != nil && cd == nil:
			// deleted: only sub-names, by the owner's DELETE_SUB or a purchase of the parent
			okDel := false
			if e := has("DOMAIN_DELETE_SUB"); e != nil && e.signer == pd.Owner {
				okDel = true
			}
			if parent != "" {
				for _, e := range evs[parent] {
					if e.kind == "DOMAIN_PURCHASE" {
						okDel = true
					}
					// deleting all sub-names is addressed to the parent, by the parent's owner
					if par := prev[parent]; par != nil && e.kind == "DOMAIN_DELETE_SUB" && e.signer == par.Owner {
						okDel = true
					}
				}
				if par := prev[parent]; par != nil {
					if e := has("DOMAIN_DELETE_SUB"); e != nil && e.signer == par.Owner {
						okDel = true
					}
				}
			}
			if !okDel {
				out = append(out, Finding{"C20", "C20/deleted-without-owner", fmt.Sprintf("block %d: name %s (owner %s) vanished without a delete by its owner or a purchase of its parent", blk.H, n, pd.Owner)})
			}
		case pd != nil && cd != nil:
			changed := pd.Owner != cd.Owner || pd.Beneficiary != cd.Beneficiary || pd.Active != cd.Active || pd.OnSale != cd.OnSale || pd.Price().Cmp(cd.Price()) != 0 || pd.URI != cd.URI
			buy := has("DOMAIN_PURCHASE")
			parentActed := false
			if parent != "" {
				if par := prev[parent]; par != nil && par.Owner == pd.Owner {
					for _, e := range evs[parent] {
						if e.signer == par.Owner {
							parentActed = true
						}
					}
				}
			}
			if changed && buy == nil && !ownerSigned(pd.Owner) && !parentActed {
				out = append(out, Finding{"C20", "C20/changed-without-owner-signature", fmt.Sprintf("block %d: record of %s (owner %s) changed (owner %s->%s, beneficiary %s->%s, active %v->%v, on sale %v->%v) without a successful transaction signed by the owner or a purchase", blk.H, n, pd.Owner, pd.Owner, cd.Owner, pd.Beneficiary, cd.Beneficiary, pd.Active, cd.Active, pd.OnSale, cd.OnSale)})
			}
			if buy != nil {
				out = append(out, Finding{"COUNT", "observed:purchase", ""})
				// the owner may have acted on the name earlier in the same block: a sale (or its
				// cancellation) signed by the owner is folded into the record the purchase meets; after a
				// renewal in the same block the expiry arithmetic of the purchase is not attributable
				pdEff := *pd
				renewedBefore := false
				for _, e := range es {
					if e.idx >= buy.idx || e.signer != pd.Owner {
						continue
					}
					switch e.kind {
					case "DOMAIN_SELL":
						if c, _ := pField(e.p, "cancelSale").(bool); c {
							pdEff.OnSale, pdEff.SalePrice = false, nil
						} else {
							pdEff.OnSale = true
							pdEff.SalePrice, _ = json.Marshal(PAmount(e.p, "price").String())
						}
					case "DOMAIN_RENEW":
						renewedBefore = true
					}
				}
				pd := &pdEff
				offering := PAmount(buy.p, "offering")
				buyer := PString(buy.p, "buyer")
				expired := pd.Expire < blk.H-1 // by the later of the two height readings it is certainly expired
				maybeExpired := pd.Expire < blk.H
				if pd.OnSale && !expired {
					if offering.Cmp(pd.Price()) < 0 {
						out = append(out, Finding{"C20", "C20/purchase/below-asking-price", fmt.Sprintf("block %d: %s bought %s offering %s, the asking price is %s", blk.H, buyer, n, offering, pd.Price())})
					}
					// the previous owner receives the asking price (exact when nothing else touches it in the block)
					mentions := 0
					for _, pj := range payloads {
						if strings.Contains(pj, pd.Owner) {
							mentions++
						}
					}
					// (a proposal finalised in the block distributes its funds to proposer, validators and pools
					// without naming them in any transaction)
					if signedOrTouched[pd.Owner] == 0 && pd.Owner != buyer && mentions == 0 && pd.Beneficiary != pd.Owner+"x" && !proposalFinalised(blk) {
						d := new(big.Int).Sub(amountAt(blk.Cur, "b_"+pd.Owner+"_OLT"), amountAt(blk.Prev, "b_"+pd.Owner+"_OLT"))
						if d.Cmp(pd.Price()) != 0 {
							out = append(out, Finding{"C20", "C20/purchase/seller-not-paid-asking-price", fmt.Sprintf("block %d: %s was sold for %s, the previous owner %s received %s", blk.H, n, pd.Price(), pd.Owner, d)})
						}
					}
					ok := false
					for _, pp := range persAt(buy.idx) {
						ext := floorDiv(new(big.Int).Sub(offering, pd.Price()), pp)
						for _, from := range []int64{pd.Expire, blk.H - 1, blk.H} {
							if ext >= 0 && cd.Expire == from+ext && from >= pd.Expire-0 {
								ok = true
							}
						}
					}
					if !ok && !renewedBefore {
						out = append(out, Finding{"C20", "C20/expiry/purchase", fmt.Sprintf("block %d: %s bought for %s (asking %s): expiry moved from %d to %d; the remainder buys %d blocks", blk.H, n, offering, pd.Price(), pd.Expire, cd.Expire, floorDiv(new(big.Int).Sub(offering, pd.Price()), pPer))})
					}
				} else if maybeExpired {
					okPay := false
					for _, b := range basesAt(buy.idx) {
						if offering.Cmp(b) >= 0 {
							okPay = true
						}
					}
					if !okPay {
						out = append(out, Finding{"C20", "C20/purchase/expired-below-base-price", fmt.Sprintf("block %d: expired name %s bought for %s, the base price is %s", blk.H, n, offering, pBase)})
					}
					ok := false
					for _, b := range basesAt(buy.idx) {
						for _, pp := range persAt(buy.idx) {
							ext := floorDiv(new(big.Int).Sub(offering, b), pp)
							if ext >= 0 && (cd.Expire == blk.H-1+ext || cd.Expire == blk.H+ext) {
								ok = true
							}
						}
					}
					if !ok && !renewedBefore {
						out = append(out, Finding{"C20", "C20/expiry/purchase-expired", fmt.Sprintf("block %d: expired name %s bought for %s: new expiry %d; (payment - base) / per-block buys %d blocks from height %d", blk.H, n, offering, cd.Expire, floorDiv(new(big.Int).Sub(offering, pBase), pPer), blk.H-1)})
					}
				} else {
					out = append(out, Finding{"C20", "C20/purchase/not-for-sale-not-expired", fmt.Sprintf("block %d: %s bought %s although it is neither on sale nor expired (expiry %d)", blk.H, buyer, n, pd.Expire)})
				}
				// the new owner has not listed the name: unless it signed a sale itself in this block, the
				// record it receives is not on sale (sale status changes only by the current owner's signature)
				if cd.OnSale && cd.Owner == buyer {
					listedByBuyer := false
					for _, e := range evs[n] {
						if e.kind == "DOMAIN_SELL" && e.signer == buyer {
							listedByBuyer = true
						}
					}
					if !listedByBuyer {
						out = append(out, Finding{"C20", "C20/purchase/still-on-sale", fmt.Sprintf("block %d: %s was bought by %s and is still listed for sale at %s, the previous owner's asking price", blk.H, n, buyer, cd.Price())})
					}
				}
				if cd.Owner != buyer {
					out = append(out, Finding{"C20", "C20/purchase/owner-not-buyer", fmt.Sprintf("block %d: after the purchase of %s by %s its owner is %s", blk.H, n, buyer, cd.Owner)})
				}
			} else if pd.Expire != cd.Expire && parent != "" && cur[parent] != nil && cd.Expire == cur[parent].Expire {
				// a sub-name expires with its parent: it follows the parent's renewal
			} else if pd.Expire != cd.Expire {
				rn := has("DOMAIN_RENEW")
				if rn == nil {
					out = append(out, Finding{"C20", "C20/expiry/changed-without-payment", fmt.Sprintf("block %d: expiry of %s moved from %d to %d without a renewal or purchase", blk.H, n, pd.Expire, cd.Expire)})
				} else {
					out = append(out, Finding{"COUNT", "observed:renew", ""})
					price := PAmount(rn.p, "buyingPrice")
					ok := false
					for _, pp := range persAt(rn.idx) {
						if ext := floorDiv(price, pp); ext >= 0 && cd.Expire-pd.Expire == ext {
							ok = true
						}
					}
					if !ok {
						out = append(out, Finding{"C20", "C20/expiry/renew", fmt.Sprintf("block %d: %s renewed for %s: expiry moved by %d blocks, the payment buys %d", blk.H, n, price, cd.Expire-pd.Expire, floorDiv(price, pPer))})
					}
					if rn.signer != pd.Owner {
						out = append(out, Finding{"C20", "C20/renewed-by-non-owner", fmt.Sprintf("block %d: %s renewed by %s, its owner is %s", blk.H, n, rn.signer, pd.Owner)})
					}
				}
			}
		}
	}
	// an accepted listing is what the record says afterwards: the last successful sale transaction of the
	// block (if nothing sold or cancelled the name after it) fixes the sale flag and the asking price
	for n, es := range evs {
		cd := cur[n]
		if cd == nil || len(es) == 0 {
			continue
		}
		last := es[len(es)-1]
		if last.kind != "DOMAIN_SELL" {
			continue
		}
		if cancelled, _ := pField(last.p, "cancelSale").(bool); cancelled {
			if cd.OnSale {
				out = append(out, Finding{"C20", "C20/sale/cancel-not-applied", fmt.Sprintf("block %d: the owner cancelled the sale of %s, the record is still on sale", blk.H, n)})
			}
		} else if want := PAmount(last.p, "price"); !cd.OnSale || cd.Price().Cmp(want) != 0 {
			out = append(out, Finding{"C20", "C20/sale/price-not-as-listed", fmt.Sprintf("block %d: the owner listed %s for %s, the record says on sale=%v at %s", blk.H, n, want, cd.OnSale, cd.Price())})
		}
	}
	// a sub-name expires with its parent: in every committed state, whatever happened in the block
	for n, cd := range cur {
		if i := strings.Index(n, "."); i > 0 && strings.Count(n, ".") >= 2 {
			if par := cur[n[i+1:]]; par != nil && cd.Expire != par.Expire {
				out = append(out, Finding{"C20", "C20/expiry/sub-domain-not-with-parent", fmt.Sprintf("block %d: sub-name %s expires at %d, its parent %s at %d", blk.H, n, cd.Expire, n[i+1:], par.Expire)})
			}
		}
	}
	return out
}
