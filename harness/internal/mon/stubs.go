package mon

import "olverif/internal/hist"

// WrappedAllowance returns, per wrapped currency, the amounts of lock trackers
// that became Released and redeem trackers that became Failed in this block.
func WrappedAllowance(blk *hist.Block) Allowance { return wrappedAllowance(blk) }

// GuiltyIn returns validators on which a guilty verdict was recorded in blk.
func GuiltyIn(blk *hist.Block) []string { return guiltyIn(blk) }
