package mon

import (
	"encoding/json"
	"math/big"
	"strings"

	"github.com/ethereum/go-ethereum/core/types"
	"github.com/ethereum/go-ethereum/rlp"

	"olverif/internal/hist"
)

// Tracker is the persisted form of an ethereum tracker.
type Tracker struct {
	Type          int      `json:"Type"`
	State         int      `json:"State"`
	TrackerName   string   `json:"TrackerName"`
	SignedETHTx   []byte   `json:"SignedETHTx"`
	Witnesses     []string `json:"Witnesses"`
	ProcessOwner  string   `json:"ProcessOwner"`
	FinalityVotes []byte   `json:"FinalityVotes"`
	Store         string   `json:"-"`
}

const (
	TrkReleased = 5
	TrkFailed   = 6
)

// Trackers decodes every tracker record of a state, keyed by store+name.
func Trackers(s hist.State) map[string]*Tracker {
	out := map[string]*Tracker{}
	for k, v := range s {
		for _, p := range []string{"etht_", "ethfailed_", "ethsuccess_"} {
			if strings.HasPrefix(k, p) {
				t := &Tracker{}
				if json.Unmarshal(v, t) == nil {
					t.Store = strings.TrimSuffix(p, "_")
					out[t.Store+"/"+t.TrackerName] = t
				}
			}
		}
	}
	return out
}

// TrackerAmount parses the external transaction a tracker stores and returns
// the amount it moves and the wrapped currency.
func TrackerAmount(t *Tracker) (*big.Int, string) {
	tx := &types.Transaction{}
	if err := rlp.DecodeBytes(t.SignedETHTx, tx); err != nil {
		return new(big.Int), ""
	}
	data := tx.Data()
	word := func(i int) *big.Int {
		if len(data) >= 4+32*(i+1) {
			return new(big.Int).SetBytes(data[4+32*i : 4+32*(i+1)])
		}
		return new(big.Int)
	}
	switch t.Type {
	case 1:
		return tx.Value(), "ETH"
	case 2:
		return word(0), "ETH"
	case 3:
		return word(1), "TTC"
	case 4:
		return word(0), "TTC"
	}
	return new(big.Int), ""
}

func isReleased(m map[string]*Tracker, name string) bool {
	if _, ok := m["ethsuccess/"+name]; ok {
		return true
	}
	if t, ok := m["etht/"+name]; ok && t.State == TrkReleased {
		return true
	}
	return false
}

func isFailed(m map[string]*Tracker, name string) bool {
	if _, ok := m["ethfailed/"+name]; ok {
		return true
	}
	if t, ok := m["etht/"+name]; ok && t.State == TrkFailed {
		return true
	}
	return false
}

// wrappedAllowance: lock trackers that became Released and redeem trackers
// that became Failed in this block may create / restore wrapped value.
func wrappedAllowance(blk *hist.Block) Allowance {
	prev, cur := Trackers(blk.Prev), Trackers(blk.Cur)
	al := Allowance{}
	seen := map[string]bool{}
	for _, t := range cur {
		name := t.TrackerName
		if seen[name] {
			continue
		}
		seen[name] = true
		src := t
		if len(src.SignedETHTx) == 0 {
			// a cleaned-up tracker keeps only type, state and name: the stored
			// external transaction is in the previous block's ongoing record
			if pt, ok := prev["etht/"+name]; ok {
				src = pt
			} else if ct, ok := cur["etht/"+name]; ok {
				src = ct
			}
		}
		amt, c := TrackerAmount(src)
		if c == "" {
			continue
		}
		grant := false
		if (t.Type == 1 || t.Type == 3) && isReleased(cur, name) && !isReleased(prev, name) {
			grant = true
		}
		if (t.Type == 2 || t.Type == 4) && isFailed(cur, name) && !isFailed(prev, name) {
			grant = true
		}
		if grant {
			if al[c] == nil {
				al[c] = new(big.Int)
			}
			al[c].Add(al[c], amt)
		}
	}
	return al
}

// guiltyIn: validators whose freeze record with status "byzantine fault" was
// written with this block's height (a guilty verdict recorded in this block).
func guiltyIn(blk *hist.Block) []string {
	var out []string
	for k, v := range blk.Cur {
		if !strings.HasPrefix(k, "es__ssvk_") {
			continue
		}
		var rec struct {
			Address      string `json:"Address"`
			Status       int    `json:"Status"`
			FrozenHeight int64  `json:"FrozenHeight"`
		}
		if json.Unmarshal(v, &rec) != nil {
			continue
		}
		if rec.Status == 2 && rec.FrozenHeight == blk.H {
			if pv, ok := blk.Prev[k]; !ok || string(pv) != string(v) {
				out = append(out, rec.Address)
			}
		}
	}
	return out
}
