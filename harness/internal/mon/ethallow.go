package mon

import "olverif/internal/hist"

func wrappedAllowance(blk *hist.Block) Allowance { return nil }

func guiltyIn(blk *hist.Block) []string { return nil }
