package mon

import (
	"encoding/json"
	"fmt"
	"math/big"
	"sort"
	"strings"

	"olverif/internal/hist"
)

func amountAt(s hist.State, key string) *big.Int {
	v, ok := s[key]
	if !ok {
		return new(big.Int)
	}
	var str string
	if json.Unmarshal(v, &str) != nil {
		str = strings.Trim(string(v), "\"")
	}
	b, ok := new(big.Int).SetString(str, 10)
	if !ok {
		return new(big.Int)
	}
	return b
}

func metaInt(t hist.TxResult, k string) *big.Int {
	b, ok := new(big.Int).SetString(t.Meta[k], 10)
	if !ok {
		return new(big.Int)
	}
	return b
}

// ---------------------------------------------------------------- C11

type unstakeRec struct {
	amt    *big.Int
	height int64
	mature int64 // loosest reading of height + maturity
	strict int64 // strictest reading
}

// C11Mon is the statement-level stake lifecycle accumulator of one history.
type C11Mon struct {
	staked    map[string]*big.Int // delegator -> ever staked (whole OLT), incl. genesis
	withdrawn map[string]*big.Int
	penalty   map[string]*big.Int
	unstakes  map[string][]unstakeRec
	with      map[string]map[string]bool // delegator -> validators it has or had stake with
	cutVal    map[string]string          // delegator -> the validator whose stake the cut was taken from
	penalised map[string]int64           // delegator -> block of the last unexplained cut of its locked amount (a verdict)
	bounded0  map[string]*big.Int        // delegator -> withdrawable amount the history started with
	lag       map[string]int             // validator -> consecutive blocks in which its own record disagreed with the delegation records
	init      bool
}

func NewC11() *C11Mon {
	return &C11Mon{staked: map[string]*big.Int{}, withdrawn: map[string]*big.Int{}, penalty: map[string]*big.Int{}, bounded0: map[string]*big.Int{}, unstakes: map[string][]unstakeRec{}, lag: map[string]int{}}
}

func addTo(m map[string]*big.Int, k string, v *big.Int) {
	if m[k] == nil {
		m[k] = new(big.Int)
	}
	m[k].Add(m[k], v)
}

func get(m map[string]*big.Int, k string) *big.Int {
	if m[k] == nil {
		return new(big.Int)
	}
	return m[k]
}

func (m *C11Mon) note(deleg, val string) {
	if m.with == nil {
		m.with = map[string]map[string]bool{}
	}
	if m.with[deleg] == nil {
		m.with[deleg] = map[string]bool{}
	}
	m.with[deleg][val] = true
}

// validatorsOf: the validators a delegator has (or had) stake with: from the successful STAKE transactions of the
// history and from the delegation records of the dump (genesis stakes).
func (m *C11Mon) validatorsOf(blk *hist.Block, deleg string) []string {
	for _, st := range []hist.State{blk.Prev, blk.Cur} {
		for k := range st {
			if strings.HasPrefix(k, "st__e_") && strings.HasSuffix(k, "_"+deleg) {
				m.note(deleg, strings.TrimSuffix(k[6:], "_"+deleg))
			}
		}
	}
	var out []string
	for v := range m.with[deleg] {
		out = append(out, v)
	}
	sort.Strings(out)
	return out
}

// OnBlock feeds one block and returns violations of the C11 statement.
func (m *C11Mon) OnBlock(blk *hist.Block) []Finding {
	var out []Finding
	if !m.init {
		m.init = true
		for k := range blk.Prev {
			if strings.HasPrefix(k, "st__d_e_") {
				addTo(m.staked, k[8:], amountAt(blk.Prev, k))
			}
			if strings.HasPrefix(k, "st__d_b_") {
				addTo(m.bounded0, k[8:], amountAt(blk.Prev, k))
			}
		}
	}
	po, co := StakingOptions(blk.Prev), StakingOptions(blk.Cur)
	matLoose := min64(po.MaturityTime, co.MaturityTime)
	stakedNow, unstakedNow := map[string]*big.Int{}, map[string]*big.Int{}
	for _, t := range blk.Txs {
		if t.Call.Code != 0 {
			continue
		}
		val := txAddr(t, "ValidatorAddress")
		deleg := txAddr(t, "StakeAddress")
		amt := txAmount(t, "Stake")
		switch t.Kind {
		case "STAKE":
			m.note(deleg, val)
			addTo(m.staked, deleg, amt)
			addTo(stakedNow, deleg, amt)
			if Frozen(blk.Prev, val) && Frozen(blk.Cur, val) {
				out = append(out, Finding{"C11", "C11/frozen/STAKE", fmt.Sprintf("block %d: STAKE on validator %s succeeded although it is frozen before and after the block", blk.H, val)})
			}
		case "UNSTAKE":
			if at, ok := m.penalised[deleg]; ok && at < blk.H && m.cutVal[deleg] == val {
				out = append(out, Finding{"C11", "C11/frozen/UNSTAKE-after-penalty", fmt.Sprintf("block %d: %s unstaked %s although its stake was cut by a verdict in block %d and no release request has succeeded since", blk.H, deleg, amt, at)})
			}
			addTo(unstakedNow, deleg, amt)
			m.unstakes[deleg] = append(m.unstakes[deleg], unstakeRec{amt, blk.H, blk.H + matLoose, blk.H + max64(po.MaturityTime, co.MaturityTime)})
			if Frozen(blk.Prev, val) && Frozen(blk.Cur, val) {
				out = append(out, Finding{"C11", "C11/frozen/UNSTAKE", fmt.Sprintf("block %d: UNSTAKE on validator %s succeeded although it is frozen before and after the block", blk.H, val)})
			}
		case "RELEASE":
			// (the validator's stake address is released with it)
			for d, vs := range m.with {
				if vs[val] && (m.cutVal[d] == val || m.cutVal[d] == "") {
					delete(m.penalised, d)
				}
			}
		case "WITHDRAW":
			if at, ok := m.penalised[deleg]; ok && at < blk.H {
				out = append(out, Finding{"C11", "C11/frozen/WITHDRAW-after-penalty", fmt.Sprintf("block %d: %s withdrew %s although its stake was cut by a verdict in block %d and no release request has succeeded since", blk.H, deleg, amt, at)})
			}
			addTo(m.withdrawn, deleg, amt)
			if Frozen(blk.Prev, val) && Frozen(blk.Cur, val) {
				out = append(out, Finding{"C11", "C11/frozen/WITHDRAW", fmt.Sprintf("block %d: WITHDRAW on validator %s succeeded although it is frozen before and after the block", blk.H, val)})
			}
			// whatever validator address the message names: the delegator's stake was with the validators the
			// records (and the history) connect it to
			for _, v := range m.validatorsOf(blk, deleg) {
				if v != val && Frozen(blk.Prev, v) && Frozen(blk.Cur, v) {
					out = append(out, Finding{"C11", "C11/frozen/WITHDRAW-naming-another-validator", fmt.Sprintf("block %d: %s withdrew %s naming %s as the validator, while validator %s, which its stake is (or was) with, is frozen before and after the block", blk.H, deleg, amt, val, v)})
				}
			}
			matured := new(big.Int)
			for _, u := range m.unstakes[deleg] {
				if u.mature <= blk.H {
					matured.Add(matured, u.amt)
				}
			}
			if get(m.withdrawn, deleg).Cmp(matured) > 0 {
				out = append(out, Finding{"C11", "C11/withdraw/before-maturity", fmt.Sprintf("block %d: %s has withdrawn %s OLT in total, but only %s OLT of its unstakes have reached unstake height + maturity (%d) by this block", blk.H, deleg, get(m.withdrawn, deleg), matured, matLoose)})
			}
		}
	}
	// penalties: decrease of the locked amount not explained by this block's stakes/unstakes
	delegs := map[string]bool{}
	for k := range blk.Prev {
		if strings.HasPrefix(k, "st__d_e_") {
			delegs[k[8:]] = true
		}
	}
	for k := range blk.Cur {
		if strings.HasPrefix(k, "st__d_e_") || strings.HasPrefix(k, "st__d_b_") {
			delegs[k[8:]] = true
		}
	}
	for d := range delegs {
		delta := new(big.Int).Sub(amountAt(blk.Cur, "st__d_e_"+d), amountAt(blk.Prev, "st__d_e_"+d))
		pen := new(big.Int).Sub(get(stakedNow, d), get(unstakedNow, d))
		pen.Sub(pen, delta)
		if pen.Sign() > 0 {
			addTo(m.penalty, d, pen)
			// a cut of the locked amount that no transaction explains is a verdict's penalty: the validator behind
			// it is frozen from this block end on, until a release request succeeds
			if m.penalised == nil {
				m.penalised = map[string]int64{}
			}
			m.penalised[d] = blk.H
			if m.cutVal == nil {
				m.cutVal = map[string]string{}
			}
			m.cutVal[d] = ""
			for _, v := range m.validatorsOf(blk, d) {
				if amountAt(blk.Cur, "st__e_"+v+"_"+d).Cmp(amountAt(blk.Prev, "st__e_"+v+"_"+d)) < 0 {
					m.cutVal[d] = v // (with several candidates the last one; unstakes of the same block are rare)
				}
			}
		}
		bound := new(big.Int).Sub(get(m.staked, d), get(m.penalty, d))
		if get(m.withdrawn, d).Cmp(bound) > 0 {
			out = append(out, Finding{"C11", "C11/withdraw/more-than-staked-minus-penalties", fmt.Sprintf("block %d: %s has withdrawn %s OLT in total, staked %s, penalties %s", blk.H, d, get(m.withdrawn, d), get(m.staked, d), get(m.penalty, d))})
		}
	}
	// the validator's recorded stake equals the sum of its delegators' locked amounts
	sum := map[string]*big.Int{}
	perDeleg := map[string]*big.Int{}
	for k := range blk.Cur {
		if strings.HasPrefix(k, "st__e_") {
			rest := k[6:]
			i := strings.Index(rest, "_")
			if i > 0 {
				addTo(sum, rest[:i], amountAt(blk.Cur, k))
				addTo(perDeleg, rest[i+1:], amountAt(blk.Cur, k))
			}
		}
	}
	// ... and a delegator's locked amount is what it has locked with its validators, taken together
	var ds []string
	for d := range delegs {
		ds = append(ds, d)
	}
	sort.Strings(ds)
	for _, d := range ds {
		if e := amountAt(blk.Cur, "st__d_e_"+d); e.Cmp(get(perDeleg, d)) != 0 {
			out = append(out, Finding{"C11", "C11/delegator-locked-vs-validators", fmt.Sprintf("block %d: delegator %s's locked amount is recorded as %s, the amounts it has locked with its validators add up to %s", blk.H, d, e, get(perDeleg, d))})
		}
		// what the records call withdrawable has been unstaked and has matured
		matured := new(big.Int).Set(get(m.bounded0, d))
		for _, u := range m.unstakes[d] {
			if u.mature <= blk.H {
				matured.Add(matured, u.amt)
			}
		}
		have := new(big.Int).Add(amountAt(blk.Cur, "st__d_b_"+d), get(m.withdrawn, d))
		// ... and the other way round: what was unstaked and has passed its unlock height (strictest reading,
		// one block of slack) is withdrawable or has been withdrawn
		due := new(big.Int).Set(get(m.bounded0, d))
		for _, u := range m.unstakes[d] {
			if u.strict+1 <= blk.H {
				due.Add(due, u.amt)
			}
		}
		if have.Cmp(due) < 0 {
			out = append(out, Finding{"C11", "C11/unlock/not-withdrawable-after-maturity", fmt.Sprintf("block %d: %s has unstaked %s OLT that passed unstake height + maturity more than a block ago; it has withdrawn %s and the records call only %s withdrawable", blk.H, d, due, get(m.withdrawn, d), amountAt(blk.Cur, "st__d_b_"+d))})
		}
		if have.Cmp(matured) > 0 {
			out = append(out, Finding{"C11", "C11/withdrawable/before-maturity", fmt.Sprintf("block %d: %s has withdrawn %s OLT and the records call another %s withdrawable, but only %s OLT of its unstakes have reached unstake height + maturity (%d) by this block", blk.H, d, get(m.withdrawn, d), amountAt(blk.Cur, "st__d_b_"+d), matured, matLoose)})
		}
	}
	var vs []string
	for k := range blk.Cur {
		if strings.HasPrefix(k, "st__t_") {
			vs = append(vs, k[6:])
		}
	}
	sort.Strings(vs)
	recs := Validators(blk.Cur)
	for _, v := range vs {
		tot := amountAt(blk.Cur, "st__t_"+v)
		if tot.Cmp(get(sum, v)) != 0 {
			out = append(out, Finding{"C11", "C11/total-vs-delegators", fmt.Sprintf("block %d: validator %s has recorded stake %s, the sum of its delegators' locked amounts is %s", blk.H, v, tot, get(sum, v))})
		}
		// the validator record itself (the stake that becomes its voting power) follows: a verdict cuts the
		// delegation records at the block end and the validator record at a following block begin (the cut
		// is retried every block while the validator's removal from the set is within its two-block guard),
		// so a difference may last a few blocks, never six
		if r := recs[v]; r != nil {
			if big.NewInt(r.Power).Cmp(get(sum, v)) != 0 {
				m.lag[v]++
				if m.lag[v] >= 6 {
					out = append(out, Finding{"C11", "C11/validator-record-vs-delegators", fmt.Sprintf("block %d: validator %s's own record carries stake %d, the sum of its delegators' locked amounts has been %s for six blocks", blk.H, v, r.Power, get(sum, v))})
				}
			} else {
				m.lag[v] = 0
			}
		} else if get(sum, v).Sign() > 0 {
			// delegators have stake locked with a validator that has no record (so no power, no election)
			m.lag[v]++
			if m.lag[v] >= 6 {
				out = append(out, Finding{"C11", "C11/validator-record-missing", fmt.Sprintf("block %d: delegators have %s locked with validator %s, which has had no validator record for six blocks", blk.H, get(sum, v), v)})
			}
		} else {
			m.lag[v] = 0
		}
	}
	return out
}

// ---------------------------------------------------------------- C12

type obligation struct {
	addr string
	amt  *big.Int
	due  int64
}

// C12Mon checks the delegation pool invariant and matches undelegations and
// reward withdrawals one-to-one against the payments BeginBlock reports.
type C12Mon struct {
	undel      []obligation
	rewards    []obligation
	poolDonors bool // somebody sent to the pool directly
	Maturity   int64
	init       bool
}

func NewC12() *C12Mon { return &C12Mon{Maturity: 4} }

func delegMaturity(s hist.State) int64 {
	var o struct {
		RewardsMaturityTime int64 `json:"rewardsMaturityTime"`
	}
	if b := OptionAt(s, "delegOptions", "networkdelegopt"); b != nil {
		_ = json.Unmarshal(b, &o)
	}
	if o.RewardsMaturityTime == 0 {
		return 4
	}
	return o.RewardsMaturityTime
}

func coinAt(s hist.State, key string) *big.Int {
	v, ok := s[key]
	if !ok {
		return new(big.Int)
	}
	var c struct {
		Amount []byte `json:"amount"`
	}
	if json.Unmarshal(v, &c) != nil {
		return new(big.Int)
	}
	var str string
	if json.Unmarshal(c.Amount, &str) != nil {
		str = strings.Trim(string(c.Amount), "\"")
	}
	b, ok := new(big.Int).SetString(str, 10)
	if !ok {
		return new(big.Int)
	}
	return b
}

// leadingInt parses event values of the form "<decimal> OLT" (the humanised
// coin string: whole units with up to 18 fractional digits) into nue.
func leadingInt(s string) *big.Int {
	s = strings.TrimSpace(s)
	if i := strings.Index(s, " "); i >= 0 {
		s = s[:i]
	}
	neg := strings.HasPrefix(s, "-")
	s = strings.TrimPrefix(s, "-")
	ip, fp := s, ""
	if i := strings.Index(s, "."); i >= 0 {
		ip, fp = s[:i], s[i+1:]
	}
	if len(fp) > 18 {
		return nil
	}
	fp += strings.Repeat("0", 18-len(fp))
	b, ok := new(big.Int).SetString(ip+fp, 10)
	if !ok {
		return nil
	}
	if neg {
		b.Neg(b)
	}
	return b
}

func (m *C12Mon) OnBlock(blk *hist.Block) []Finding {
	var out []Finding
	mat := delegMaturity(blk.Prev)
	if !m.init {
		// pending entries that exist before the first block (a genesis produced
		// by the state-export path carries them) are obligations due at the
		// height their key names
		m.init = true
		for k := range blk.Prev {
			for _, pf := range []string{"deleg_p_", "delegRwz_pending_"} {
				if !strings.HasPrefix(k, pf) {
					continue
				}
				rest := k[len(pf):]
				i := strings.Index(rest, "_")
				if i <= 0 {
					continue
				}
				var due int64
				fmt.Sscan(rest[:i], &due)
				if pf == "deleg_p_" {
					if a := coinAt(blk.Prev, k); a.Sign() > 0 {
						m.undel = append(m.undel, obligation{rest[i+1:], a, due})
					}
				} else if a := amountAt(blk.Prev, k); a.Sign() > 0 {
					m.rewards = append(m.rewards, obligation{rest[i+1:], a, due})
				}
			}
		}
	}
	// 1. payments reported by BeginBlock for this height
	paidUndel := map[string]*big.Int{}
	paidRew := map[string]*big.Int{}
	for _, e := range blk.Begin.Events {
		switch e.Type {
		case "deleg_undelegate":
			for _, a := range e.Attrs {
				if a.K == "height" {
					continue
				}
				if v := leadingInt(a.V); v != nil {
					addTo(paidUndel, a.K, v)
				}
			}
		case "block_rewards":
			for _, a := range e.Attrs {
				if strings.HasPrefix(a.K, "deleg_rewards_mature_") {
					if v := leadingInt(a.V); v != nil {
						addTo(paidRew, strings.TrimPrefix(a.K, "deleg_rewards_mature_"), v)
					}
				}
			}
		}
	}
	match := func(kind string, obs *[]obligation, paid map[string]*big.Int) {
		due := map[string]*big.Int{}
		var rest []obligation
		for _, o := range *obs {
			if o.due == blk.H {
				addTo(due, o.addr, o.amt)
			} else if o.due < blk.H {
				out = append(out, Finding{"C12", "C12/" + kind + "/not-paid-at-maturity", fmt.Sprintf("block %d: %s of %s by %s was due at height %d and has not been paid", blk.H, kind, o.amt, o.addr, o.due)})
			} else {
				rest = append(rest, o)
			}
		}
		*obs = rest
		for a, p := range paid {
			if p.Sign() != 0 {
				out = append(out, Finding{"COUNT", "observed:" + kind + "-payment-matched-against-obligations", ""})
			}
			d := get(due, a)
			if p.Cmp(d) != 0 && p.Sign() != 0 {
				out = append(out, Finding{"C12", "C12/" + kind + "/paid-amount-not-due", fmt.Sprintf("block %d: BeginBlock paid %s to %s for matured %ss, the amount due at exactly this height (height of the request + maturity %d) is %s", blk.H, p, a, kind, mat, d)})
			}
		}
		for a, d := range due {
			if get(paid, a).Cmp(d) != 0 && d.Sign() != 0 {
				if _, reported := paid[a]; !reported {
					out = append(out, Finding{"C12", "C12/" + kind + "/due-not-paid", fmt.Sprintf("block %d: %s of %s by %s is due at this height but BeginBlock reported no payment", blk.H, kind, d, a)})
				}
			}
		}
	}
	match("undelegation", &m.undel, paidUndel)
	match("reward-withdrawal", &m.rewards, paidRew)
	// pending entries of this height must be cleared after the block
	for k := range blk.Cur {
		if strings.HasPrefix(k, fmt.Sprintf("deleg_p_%d_", blk.H)) && coinAt(blk.Cur, k).Sign() != 0 {
			out = append(out, Finding{"C12", "C12/undelegation/pending-not-cleared", fmt.Sprintf("block %d: pending undelegation record %q still holds %s after its maturity block", blk.H, k, coinAt(blk.Cur, k))})
		}
		if strings.HasPrefix(k, fmt.Sprintf("delegRwz_pending_%d_", blk.H)) && amountAt(blk.Cur, k).Sign() != 0 {
			out = append(out, Finding{"C12", "C12/reward-withdrawal/pending-not-cleared", fmt.Sprintf("block %d: pending reward record %q still holds %s after its maturity block", blk.H, k, amountAt(blk.Cur, k))})
		}
	}
	// 2. this block's successful transactions: exact active-set accounting and new obligations
	dActive := map[string]*big.Int{}
	for _, t := range blk.Txs {
		if t.Call.Code != 0 {
			continue
		}
		a := txAddr(t, "delegator", "delegationAddress")
		amt := txAmount(t, "amount")
		switch t.Kind {
		case "ADD_NETWORK_DELEGATE", "REWARDS_REINVEST_NETWORK_DELEGATE":
			addTo(dActive, a, amt)
		case "NETWORK_UNDELEGATE":
			addTo(dActive, a, new(big.Int).Neg(amt))
			m.undel = append(m.undel, obligation{a, amt, blk.H + mat})
		case "REWARDS_WITHDRAW_NETWORK_DELEGATE":
			m.rewards = append(m.rewards, obligation{a, amt, blk.H + mat})
		case "SENDPOOL":
			if strings.Contains(string(t.Bytes), "DelegationPool") {
				m.poolDonors = true
			}
		case "SEND":
			if strings.Contains(t.Note, "pool") {
				m.poolDonors = true
			}
		}
		if t.Trait != "" && strings.Contains(t.Trait, "address=pool") {
			m.poolDonors = true
		}
	}
	// what a delegator takes out of its accrued rewards (withdrawal or reinvestment) leaves its reward balance;
	// a delegator with no active delegation accrues nothing
	rwOut := map[string]*big.Int{}
	for _, t := range blk.Txs {
		if t.Call.Code == 0 && (t.Kind == "REWARDS_WITHDRAW_NETWORK_DELEGATE" || t.Kind == "REWARDS_REINVEST_NETWORK_DELEGATE") {
			addTo(rwOut, txAddr(t, "delegator", "delegationAddress"), txAmount(t, "amount"))
		}
	}
	for a, o := range rwOut {
		pb, cb := amountAt(blk.Prev, "delegRwz_balance_"+a), amountAt(blk.Cur, "delegRwz_balance_"+a)
		accrued := new(big.Int).Add(new(big.Int).Sub(cb, pb), o)
		if accrued.Sign() < 0 {
			continue // (more left the balance than the transactions took: not this rule's business)
		}
		if coinAt(blk.Prev, "deleg_a_"+a).Sign() == 0 && accrued.Sign() != 0 {
			out = append(out, Finding{"C12", "C12/reward-balance/not-reduced-by-what-was-taken", fmt.Sprintf("block %d: %s took %s out of its accrued rewards (withdrawal / reinvestment); its reward balance went from %s to %s although it has no active delegation that could have accrued the difference %s", blk.H, a, o, pb, cb, accrued)})
		}
	}
	addrs := map[string]bool{}
	for k := range blk.Prev {
		if strings.HasPrefix(k, "deleg_a_") {
			addrs[k[8:]] = true
		}
	}
	for k := range blk.Cur {
		if strings.HasPrefix(k, "deleg_a_") {
			addrs[k[8:]] = true
		}
	}
	sumActive := new(big.Int)
	for a := range addrs {
		cur := coinAt(blk.Cur, "deleg_a_"+a)
		sumActive.Add(sumActive, cur)
		want := new(big.Int).Add(coinAt(blk.Prev, "deleg_a_"+a), get(dActive, a))
		if cur.Cmp(want) != 0 {
			out = append(out, Finding{"C12", "C12/active-set/not-updated-by-transactions", fmt.Sprintf("block %d: active delegation of %s is %s after the block; previous %s plus this block's delegate/reinvest/undelegate transactions gives %s (an undelegated amount must leave the active set immediately)", blk.H, a, cur, coinAt(blk.Prev, "deleg_a_"+a), want)})
		}
	}
	pool := amountAt(blk.Cur, "b_"+DelegationPool+"_OLT")
	if pool.Cmp(sumActive) < 0 {
		out = append(out, Finding{"C12", "C12/pool/below-active-delegations", fmt.Sprintf("block %d: delegation pool balance %s is below the sum of active delegations %s", blk.H, pool, sumActive)})
	} else if !m.poolDonors && pool.Cmp(sumActive) != 0 {
		out = append(out, Finding{"C12", "C12/pool/differs-from-active-delegations", fmt.Sprintf("block %d: delegation pool balance %s differs from the sum of active delegations %s although nobody sent to the pool directly", blk.H, pool, sumActive)})
	}
	return out
}
