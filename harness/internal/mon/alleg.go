package mon

import (
	"encoding/json"
	"fmt"
	"math/big"
	"sort"
	"strings"
	"time"

	"olverif/internal/hist"
)

type evidenceOpts struct {
	PenaltyBasePercentage   int64 `json:"penaltyBasePercentage"`
	PenaltyBaseDecimals     int64 `json:"penaltyBaseDecimals"`
	PenaltyBountyPercentage int64 `json:"penaltyBountyPercentage"`
	PenaltyBountyDecimals   int64 `json:"penaltyBountyDecimals"`
	ValidatorReleaseTime    int64 `json:"validatorReleaseTime"`
	ValidatorVotePercentage int64 `json:"validatorVotePercentage"`
	ValidatorVoteDecimals   int64 `json:"validatorVoteDecimals"`
	AllegationPercentage    int64 `json:"allegationPercentage"`
	AllegationDecimals      int64 `json:"allegationDecimals"`
}

func evidenceOptions(s hist.State) *evidenceOpts {
	o := &evidenceOpts{}
	if b := OptionAt(s, "evidenceOptions", "evidenceopt"); b != nil {
		_ = json.Unmarshal(b, o)
	}
	return o
}

type allegReq struct {
	ID               string `json:"ID"`
	ReporterAddress  string `json:"ReporterAddress"`
	MaliciousAddress string `json:"MaliciousAddress"`
	Status           int    `json:"Status"`
	Votes            []struct {
		Address string `json:"Address"`
		Choice  int    `json:"Choice"`
	} `json:"Votes"`
}

func requests(s hist.State) map[string]*allegReq {
	out := map[string]*allegReq{}
	for k, v := range s {
		if strings.HasPrefix(k, "es__ark_") {
			r := &allegReq{}
			if json.Unmarshal(v, r) == nil {
				out[r.ID] = r
			}
		}
	}
	return out
}

func isActive(s hist.State, addr string) bool {
	var rec struct {
		IsActive bool `json:"isActive"`
	}
	if b, ok := s["es__vss_"+addr]; ok {
		_ = json.Unmarshal(b, &rec)
	}
	return rec.IsActive
}

type freezeRec struct {
	Address      string     `json:"Address"`
	Status       int        `json:"Status"`
	FrozenHeight int64      `json:"FrozenHeight"`
	FrozenAt     *time.Time `json:"FrozenAt"`
	ReleaseAt    *time.Time `json:"ReleaseAt"`
}

func freezeOf(s hist.State, addr string) *freezeRec {
	b, ok := s["es__ssvk_"+addr]
	if !ok {
		return nil
	}
	r := &freezeRec{}
	if json.Unmarshal(b, r) != nil {
		return nil
	}
	return r
}

const bountyPool = "0lt6f6e656c6564676572426f756e747950726f6772616d" // "oneledgerBountyProgram"

// C19 checks one block of allegation traffic and verdicts.
// C19Mon adds, to the per-block rules of C19, what has to be followed over several blocks: the stake a guilty
// validator is left with is also the stake its own record (its power once it is released) carries.
type C19Mon struct {
	guilty map[string]bool
	lag    map[string]int
}

func NewC19() *C19Mon { return &C19Mon{guilty: map[string]bool{}, lag: map[string]int{}} }

func (m *C19Mon) OnBlock(blk *hist.Block) []Finding {
	out := C19(blk)
	for _, g := range GuiltyIn(blk) {
		m.guilty[g] = true
	}
	recs := Validators(blk.Cur)
	var gs []string
	for g := range m.guilty {
		gs = append(gs, g)
	}
	sort.Strings(gs)
	for _, g := range gs {
		r := recs[g]
		if r == nil {
			continue
		}
		// (the cut reaches the validator's own record at a following block begin and is retried for a few
		// blocks while the validator's removal from the set is guarded: never six blocks)
		if r.Power != stakeTotal(blk.Cur, g) {
			m.lag[g]++
			if m.lag[g] >= 6 {
				out = append(out, Finding{"C19", "C19/penalty/validator-record-not-cut", fmt.Sprintf("block %d: validator %s was found guilty; its stake after the cut is %d, its own record has carried %d for six blocks", blk.H, g, stakeTotal(blk.Cur, g), r.Power)})
			}
		} else {
			m.lag[g] = 0
		}
	}
	return out
}

func C19(blk *hist.Block) []Finding {
	var out []Finding
	opt := evidenceOptions(blk.Prev)
	prevR, curR := requests(blk.Prev), requests(blk.Cur)
	// votes of this block, per request; only active validators may open or vote
	type vote struct {
		addr   string
		choice int
	}
	newVotes := map[string][]vote{}
	opened := map[string]*allegReq{}
	sendpoolBounty := new(big.Int)
	stakeTouched := map[string]bool{}
	for _, t := range blk.Txs {
		if t.Call.Code != 0 {
			continue
		}
		p := Payload(t.Bytes)
		switch t.Kind {
		case "ALLEGATION":
			who := PString(p, "ValidatorAddress")
			if !isActive(blk.Prev, who) && !isActive(blk.Cur, who) {
				out = append(out, Finding{"C19", "C19/non-active/ALLEGATION", fmt.Sprintf("block %d: allegation opened by %s, which is not an active validator before or after the block", blk.H, who)})
			}
			// (a validator found guilty and not released has dropped out, whatever its status flag says)
			if f := freezeOf(blk.Prev, who); f != nil && Frozen(blk.Prev, who) && Frozen(blk.Cur, who) && f.Status == 2 && f.FrozenHeight < blk.H-1 {
				out = append(out, Finding{"C19", "C19/frozen/ALLEGATION", fmt.Sprintf("block %d: allegation opened by %s although it was found guilty at height %d and has not been released", blk.H, who, f.FrozenHeight)})
			}
			opened[PString(p, "RequestID")] = &allegReq{ID: PString(p, "RequestID"), MaliciousAddress: PString(p, "MaliciousAddress")}
		case "ALLEGATION_VOTE":
			who := PString(p, "Address")
			if !isActive(blk.Prev, who) && !isActive(blk.Cur, who) {
				out = append(out, Finding{"C19", "C19/non-active/ALLEGATION_VOTE", fmt.Sprintf("block %d: allegation vote by %s, which is not an active validator before or after the block", blk.H, who)})
			}
			// (a validator found guilty and not released has dropped out, whatever its status flag still says
			// until the election catches up)
			if f := freezeOf(blk.Prev, who); f != nil && Frozen(blk.Prev, who) && Frozen(blk.Cur, who) && f.Status == 2 {
				out = append(out, Finding{"C19", "C19/frozen/ALLEGATION_VOTE", fmt.Sprintf("block %d: allegation vote by %s succeeded although it was found guilty and has not been released", blk.H, who)})
			}
			ch, _ := pField(p, "Choice").(float64)
			id := PString(p, "RequestID")
			newVotes[id] = append(newVotes[id], vote{who, int(ch)})
		case "SENDPOOL":
			if PString(p, "PoolName") == "BountyPool" {
				sendpoolBounty.Add(sendpoolBounty, PAmount(p, "Amount"))
			}
		case "STAKE", "UNSTAKE", "WITHDRAW":
			v := PString(p, "ValidatorAddress")
			stakeTouched[v] = true
			if f := freezeOf(blk.Prev, v); f != nil && Frozen(blk.Prev, v) && Frozen(blk.Cur, v) && f.Status == 2 {
				out = append(out, Finding{"C19", "C19/frozen/" + t.Kind, fmt.Sprintf("block %d: %s on validator %s succeeded although it was found guilty and has not been released", blk.H, t.Kind, v)})
			}
		case "RELEASE":
			v := PString(p, "ValidatorAddress")
			if f := freezeOf(blk.Prev, v); f != nil && f.Status == 2 && f.FrozenAt != nil {
				notBefore := f.FrozenAt.AddDate(0, 0, int(opt.ValidatorReleaseTime))
				now := time.Unix(0, blk.TimeMs*int64(time.Millisecond)).UTC()
				if !now.After(notBefore) {
					out = append(out, Finding{"C19", "C19/release/before-release-time", fmt.Sprintf("block %d (time %s): guilty validator %s was released although it was frozen at %s and the release time is %d days", blk.H, now.Format(time.RFC3339), v, f.FrozenAt.Format(time.RFC3339), opt.ValidatorReleaseTime)})
				}
			}
		}
	}
	// records must not count a validator twice
	for id, r := range curR {
		seen := map[string]bool{}
		for _, v := range r.Votes {
			if seen[v.Address] {
				out = append(out, Finding{"C19", "C19/counted-twice", fmt.Sprintf("block %d: allegation %s records two votes of %s", blk.H, id, v.Address)})
			}
			seen[v.Address] = true
		}
	}
	// verdicts: requests that existed (or were opened) and are gone / closed now
	active := 0
	for _, u := range blk.End.ValUpdates {
		if u.Power > 0 {
			active++
		}
	}
	required := int64(0)
	if opt.ValidatorVoteDecimals > 0 {
		n := int64(active) * opt.ValidatorVotePercentage
		required = (n + opt.ValidatorVoteDecimals - 1) / opt.ValidatorVoteDecimals // ceil
	}
	cands := map[string]*allegReq{}
	for id, r := range prevR {
		cands[id] = r
	}
	for id, r := range opened {
		if _, ok := cands[id]; !ok {
			cands[id] = r
		}
	}
	penaltyBounty := new(big.Int)
	guiltyNow := map[string]bool{}
	for id, r := range cands {
		cr, still := curR[id]
		if still && cr.Status <= 1 {
			continue // still voting
		}
		// tally: recorded votes + this block's successful votes, one per distinct active validator
		yes, no := 0, 0
		seen := map[string]bool{}
		count := func(addr string, choice int) {
			if seen[addr] {
				return
			}
			seen[addr] = true
			if choice == 1 {
				yes++
			} else if choice == 2 {
				no++
			}
		}
		for _, v := range r.Votes {
			count(v.Address, v.Choice)
		}
		for _, v := range newVotes[id] {
			count(v.addr, v.choice)
		}
		mal := r.MaliciousAddress
		f := freezeOf(blk.Cur, mal)
		guilty := f != nil && f.Status == 2 && f.FrozenHeight == blk.H && !sameFreeze(blk.Prev, blk.Cur, mal)
		if required <= 0 {
			continue
		}
		// yes/required > pct/dec  <=>  yes*dec > pct*required
		yesCross := int64(yes)*opt.AllegationDecimals > opt.AllegationPercentage*required
		noCross := int64(no)*opt.AllegationDecimals > (opt.AllegationDecimals-opt.AllegationPercentage)*required
		if guilty {
			guiltyNow[mal] = true
			out = append(out, Finding{"COUNT", "observed:verdict-guilty", ""})
			if !yesCross {
				out = append(out, Finding{"C19", "C19/verdict/guilty-below-share", fmt.Sprintf("block %d: %s declared guilty on allegation %s with %d yes votes of distinct active validators; %d active, required %d, configured share %d/%d", blk.H, mal, id, yes, active, required, opt.AllegationPercentage, opt.AllegationDecimals)})
			}
			// exactly the configured percentage of the stake, rounded
			if !stakeTouched[mal] {
				ps, cs := stakeTotal(blk.Prev, mal), stakeTotal(blk.Cur, mal)
				num := new(big.Int).Mul(big.NewInt(ps), big.NewInt(opt.PenaltyBasePercentage))
				den := big.NewInt(opt.PenaltyBaseDecimals)
				// round half up
				q := new(big.Int).Add(new(big.Int).Mul(num, big.NewInt(2)), den)
				q.Div(q, new(big.Int).Mul(den, big.NewInt(2)))
				if ps-cs != q.Int64() {
					out = append(out, Finding{"C19", "C19/penalty/not-configured-percentage", fmt.Sprintf("block %d: guilty validator %s lost %d of its stake %d; %d/%d of it is %d", blk.H, mal, ps-cs, ps, opt.PenaltyBasePercentage, opt.PenaltyBaseDecimals, q.Int64())})
				}
				pb := new(big.Int).Mul(big.NewInt(ps-cs), e18)
				pb.Mul(pb, big.NewInt(opt.PenaltyBountyPercentage))
				pb.Div(pb, big.NewInt(opt.PenaltyBountyDecimals))
				penaltyBounty.Add(penaltyBounty, pb)
			} else {
				penaltyBounty.Add(penaltyBounty, new(big.Int).Mul(big.NewInt(stakeTotal(blk.Prev, mal)), e18))
			}
		} else if !still {
			out = append(out, Finding{"COUNT", "observed:verdict-innocent-or-closed", ""})
			// the request is gone without a guilty freeze: declared innocent (or withdrawn as a duplicate)
			if !noCross && !duplicateOf(cands, r) && !(f != nil && Frozen(blk.Cur, mal)) {
				out = append(out, Finding{"C19", "C19/verdict/innocent-below-share", fmt.Sprintf("block %d: allegation %s against %s was closed as innocent with %d no votes of distinct active validators; %d active, required %d, configured share %d/%d", blk.H, id, mal, no, active, required, opt.AllegationDecimals-opt.AllegationPercentage, opt.AllegationDecimals)})
			}
		}
	}
	// at most the penalty's configured share goes to the bounty program
	dB := new(big.Int).Sub(amountAt(blk.Cur, "b_"+bountyPool+"_OLT"), amountAt(blk.Prev, "b_"+bountyPool+"_OLT"))
	dB.Sub(dB, sendpoolBounty)
	if len(guiltyNow) > 0 && dB.Cmp(penaltyBounty) > 0 {
		out = append(out, Finding{"C19", "C19/bounty/more-than-penalty-share", fmt.Sprintf("block %d: the bounty program received %s from this block's guilty verdicts, the configured share of the penalties is %s", blk.H, dB, penaltyBounty)})
	}
	// a guilty validator that has not been released gets no positive-power update
	prevVals := Validators(blk.Prev)
	byPub := map[string]*ValRecord{}
	for _, v := range prevVals {
		byPub[v.PubHex()] = v
	}
	for _, u := range blk.End.ValUpdates {
		if u.Power <= 0 {
			continue
		}
		if rec := byPub[u.PubKey]; rec != nil {
			if f := freezeOf(blk.Prev, rec.Address); f != nil && f.Status == 2 && Frozen(blk.Prev, rec.Address) {
				out = append(out, Finding{"C19", "C19/guilty-still-elected", fmt.Sprintf("block %d: %s is elected with power %d although it was found guilty at height %d and has not been released", blk.H, rec.Address, u.Power, f.FrozenHeight)})
			}
		}
	}
	return out
}

func sameFreeze(prev, cur hist.State, addr string) bool {
	a, ok1 := prev["es__ssvk_"+addr]
	b, ok2 := cur["es__ssvk_"+addr]
	return ok1 && ok2 && string(a) == string(b)
}

func duplicateOf(all map[string]*allegReq, r *allegReq) bool {
	for id, o := range all {
		if id != r.ID && o.MaliciousAddress == r.MaliciousAddress {
			return true
		}
	}
	return false
}
