package mon

import (
	"encoding/json"
	"fmt"
	"math/big"
	"strings"

	"olverif/internal/hist"
	"olverif/internal/proto"
)

func feeTotal(s hist.State) *big.Int {
	t := new(big.Int)
	for k := range s {
		if strings.HasPrefix(k, "f_") {
			t.Add(t, amountAt(s, k))
		}
	}
	return t
}

func keeperNonce(s hist.State, raw string) uint64 {
	v, ok := s["keeper_"+raw]
	if !ok {
		return 0
	}
	var rec struct {
		Nonce uint64 `json:"sequence"`
	}
	_ = json.Unmarshal(v, &rec)
	return rec.Nonce
}

func rawOf(olt string) string {
	h := strings.TrimPrefix(olt, "0lt")
	b := make([]byte, len(h)/2)
	fmt.Sscanf(h, "%x", &b)
	return string(b)
}

// txFee returns gasUsed * gas price of a delivered transaction.
func txFee(t hist.TxResult) *big.Int {
	var st struct {
		Fee struct {
			Price struct {
				Value string `json:"value"`
			} `json:"price"`
		} `json:"fee"`
	}
	_ = json.Unmarshal(t.Bytes, &st)
	return new(big.Int).Mul(big.NewInt(t.Call.GasUsed), bigOf(st.Fee.Price.Value))
}

// C17 checks the per-block consequences of OLVM transactions. It is exact
// for blocks with a single OLVM transaction (accounting histories); in mixed
// blocks it checks the fee pool and the pre-check clause.
func C17(blk *hist.Block) []Finding {
	var out []Finding
	// the fee records grow by exactly gasUsed * price of every executed transaction
	wantFees := new(big.Int)
	var olvm []hist.TxResult
	feeless := map[string]bool{"ETH_REPORT_FINALITY_MINT": true, "EXPIRE_VOTES": true, "PROPOSAL_FINALIZE": true, "ERC20_REDEEM": true}
	for _, t := range blk.Txs {
		if t.Kind == "OLVM" {
			olvm = append(olvm, t)
		}
		if t.Call.Code == 0 && !feeless[t.Kind] {
			wantFees.Add(wantFees, txFee(t))
		}
	}
	if len(olvm) == 0 {
		return nil
	}
	dFees := new(big.Int).Sub(feeTotal(blk.Cur), feeTotal(blk.Prev))
	// ONS purchases / proposal finalisations also pay into the fee pool: only a shortfall or an
	// excess in a block without such kinds is attributable
	otherPayers := false
	for _, t := range blk.Txs {
		if strings.HasPrefix(t.Kind, "DOMAIN_") || strings.HasPrefix(t.Kind, "PROPOSAL_") || strings.HasPrefix(t.Kind, "BID_") || t.Kind == "SENDPOOL" {
			otherPayers = true
		}
	}
	if !otherPayers && dFees.Cmp(wantFees) != 0 && !proposalFinalised(blk) {
		out = append(out, Finding{"C17", "C17/fee-pool/not-gas-used-times-price", fmt.Sprintf("block %d: fee records grew by %s, gas used times price of the executed transactions is %s", blk.H, dFees, wantFees)})
	}
	out = append(out, simpleBlock(blk)...)
	// a transaction made for another network is refused
	for _, t := range olvm {
		if t.Meta["foreign_chain"] != "" && t.Call.Code == 0 {
			out = append(out, Finding{"C17", "C17/precheck/foreign-chain-id-executed", fmt.Sprintf("block %d: OLVM transaction of %s made for chain id %s (payload and signature) was executed", blk.H, t.Meta["from"], t.Meta["foreign_chain"])})
		}
	}
	// a successful deployment leaves the new contract with what its address held before plus the endowment
	for _, t := range olvm {
		if c := t.Meta["contract"]; c != "" && t.Meta["create"] != "" && t.Call.Code == 0 && len(olvm) == 1 {
			if _, deployed := blk.Cur["keeper_"+rawOf(c)]; !deployed || !keeperHasCode(blk.Cur, rawOf(c)) {
				continue
			}
			named := false
			for _, o := range blk.Txs {
				if o.Kind != "OLVM" && o.Call.Code == 0 {
					if pj, _ := json.Marshal(Payload(o.Bytes)); strings.Contains(string(pj), c) {
						named = true
					}
				}
			}
			want := new(big.Int).Add(amountAt(blk.Prev, "b_"+c+"_OLT"), bigOf(t.Meta["value"]))
			if got := amountAt(blk.Cur, "b_"+c+"_OLT"); !named && got.Cmp(want) != 0 {
				out = append(out, Finding{"C17", "C17/deployment/contract-balance", fmt.Sprintf("block %d: contract %s deployed with an endowment of %s at an address that held %s: it holds %s", blk.H, c, t.Meta["value"], amountAt(blk.Prev, "b_"+c+"_OLT"), got)})
			}
		}
	}
	senders := map[string]int{}
	for _, t := range olvm {
		senders[t.Meta["from"]]++
	}
	for _, t := range olvm {
		from := t.Meta["from"]
		if senders[from] != 1 || from == "" {
			continue
		}
		value := bigOf(t.Meta["value"])
		pb, cb := amountAt(blk.Prev, "b_"+from+"_OLT"), amountAt(blk.Cur, "b_"+from+"_OLT")
		dS := new(big.Int).Sub(cb, pb)
		pn, cn := keeperNonce(blk.Prev, rawOf(from)), keeperNonce(blk.Cur, rawOf(from))
		// nobody else may have touched the sender in this block (credits from other OLVM txs)
		touched := false
		for _, o := range olvm {
			if o.Meta["from"] != from && (o.Meta["to"] == from || strings.Contains(o.Meta["data"], strings.TrimPrefix(from, "0lt"))) {
				touched = true
			}
		}
		// ... nor a native transaction (those blocks are left to the exact accounting of simpleBlock)
		for _, o := range blk.Txs {
			if o.Kind != "OLVM" && o.Call.Code == 0 {
				if pj, _ := json.Marshal(Payload(o.Bytes)); strings.Contains(string(pj), from) {
					touched = true
				}
			}
		}
		if touched {
			continue
		}
		if t.Call.Code != 0 {
			// failed its consensus pre-checks: nothing changes
			if dS.Sign() != 0 || pn != cn {
				out = append(out, Finding{"C17", "C17/precheck-failure/changed-state", fmt.Sprintf("block %d: OLVM transaction of %s failed (code %d: %s) but its balance changed by %s and its nonce from %d to %d", blk.H, from, t.Call.Code, cut(t.Call.Log, 80), dS, pn, cn)})
			}
			continue
		}
		fee := txFee(t)
		if c := t.Meta["payout"]; c != "" {
			// the called contract hands its whole balance to the caller: it ends at zero, the caller gains that much less the fee
			had := amountAt(blk.Prev, "b_"+c+"_OLT")
			if left := amountAt(blk.Cur, "b_"+c+"_OLT"); left.Sign() != 0 || dS.Cmp(new(big.Int).Sub(had, fee)) != 0 {
				if len(olvm) == 1 {
					out = append(out, Finding{"C17", "C17/contract-payout/not-one-ledger", fmt.Sprintf("block %d: contract %s held %s and paid out everything to %s: it holds %s afterwards, the caller's balance moved by %s (fee %s)", blk.H, c, had, from, left, dS, fee)})
				}
			}
			if cn != pn+1 {
				out = append(out, Finding{"C17", "C17/nonce/not-raised-by-one", fmt.Sprintf("block %d: executed OLVM transaction of %s (nonce %s) moved its nonce from %d to %d", blk.H, from, t.Meta["nonce"], pn, cn)})
			}
			continue
		}
		lo := new(big.Int).Neg(new(big.Int).Add(fee, value))
		hi := new(big.Int).Neg(fee)
		if t.Meta["to"] == from {
			lo = hi
		}
		if dS.Cmp(lo) != 0 && dS.Cmp(hi) != 0 {
			out = append(out, Finding{"C17", "C17/sender-debit/not-gas-used-times-price-plus-value", fmt.Sprintf("block %d: sender %s was debited %s; gas used %d times price gives %s, value %s", blk.H, from, new(big.Int).Neg(dS), t.Call.GasUsed, fee, value)})
		}
		if cn != pn+1 {
			out = append(out, Finding{"C17", "C17/nonce/not-raised-by-one", fmt.Sprintf("block %d: executed OLVM transaction of %s (nonce %s) moved its nonce from %d to %d", blk.H, from, t.Meta["nonce"], pn, cn)})
		}
		// plain transfer to another account: the recipient gets exactly what the sender lost beyond the fee
		if to := t.Meta["to"]; to != "" && to != from && t.Meta["data"] == "" && len(olvm) == 1 {
			moved := new(big.Int).Sub(new(big.Int).Neg(dS), fee)
			dT := new(big.Int).Sub(amountAt(blk.Cur, "b_"+to+"_OLT"), amountAt(blk.Prev, "b_"+to+"_OLT"))
			if dT.Cmp(moved) != 0 {
				out = append(out, Finding{"C17", "C17/recipient-credit/not-value-moved", fmt.Sprintf("block %d: plain OLVM transfer moved %s out of %s beyond the fee, the recipient %s received %s", blk.H, moved, from, to, dT)})
			}
		}
	}
	return out
}

func proposalFinalised(blk *hist.Block) bool {
	for k := range blk.Cur {
		if strings.HasPrefix(k, "propFinalized") {
			if _, ok := blk.Prev[k]; !ok {
				return true
			}
		}
	}
	return false
}

func cut(s string, n int) string {
	if len(s) > n {
		return s[:n]
	}
	return s
}

// C17View compares the balance/nonce the EVM adapter reads with the native
// records of the dump.
func C17View(s hist.State, evm map[string][2]string, h int64) []Finding {
	var out []Finding
	for hexAddr, bn := range evm {
		olt := "0lt" + strings.ToLower(hexAddr)
		native := amountAt(s, "b_"+olt+"_OLT")
		if native.String() != bn[0] {
			out = append(out, Finding{"C17", "C17/one-ledger/evm-view-differs", fmt.Sprintf("height %d: account %s holds %s OLT in the native balance record, the EVM adapter reads %s", h, olt, native, bn[0])})
		}
		if n := fmt.Sprint(keeperNonce(s, rawOf(olt))); n != bn[1] {
			out = append(out, Finding{"C17", "C17/one-ledger/nonce-view-differs", fmt.Sprintf("height %d: account %s has nonce %s in its account record, the EVM adapter reads %s", h, olt, n, bn[1])})
		}
	}
	return out
}

// simpleBlock: when every executed transaction of the block is a native OLT transfer or a plain EVM transfer
// between externally owned accounts, each account's OLT delta is predicted exactly from the transactions
// (amounts, values and gasUsed x price), whatever their order: the EVM and the native ledger are one ledger.
// SimpleBlock is the exact per-account accounting of blocks that carry only native OLT transfers and plain EVM
// transfers (see simpleBlock); exported for the ledger checks.
func SimpleBlock(blk *hist.Block) []Finding { return simpleBlock(blk) }

func simpleBlock(blk *hist.Block) []Finding {
	want := map[string]*big.Int{}
	n := 0
	for _, t := range blk.Txs {
		if t.Call.Code != 0 {
			continue
		}
		switch {
		case t.Kind == "SEND":
			p := Payload(t.Bytes)
			am, _ := pField(p, "amount").(map[string]interface{})
			if am == nil || am["currency"] != "OLT" {
				return nil
			}
			a := PAmount(p, "amount")
			addTo(want, PString(p, "from"), new(big.Int).Neg(new(big.Int).Add(a, txFee(t))))
			addTo(want, PString(p, "to"), a)
		case t.Kind == "OLVM" && t.Meta["data"] == "" && t.Meta["to"] != "" && t.Meta["create"] == "":
			if _, isContract := blk.Prev["keeper_"+rawOf(t.Meta["to"])]; isContract && keeperHasCode(blk.Prev, rawOf(t.Meta["to"])) {
				return nil
			}
			if strings.HasPrefix(strings.TrimPrefix(t.Meta["to"], "0lt"), "00000000000000000000000000000000000000") {
				// a precompiled contract: code runs there as well (and may fail)
				return nil
			}
			v := bigOf(t.Meta["value"])
			addTo(want, t.Meta["from"], new(big.Int).Neg(new(big.Int).Add(v, txFee(t))))
			addTo(want, t.Meta["to"], v)
			n++
		default:
			return nil
		}
	}
	if n == 0 {
		return nil
	}
	var out []Finding
	out = append(out, Finding{"COUNT", "observed:simple-mixed-blocks", ""})
	// block hooks pay matured undelegations and rewards into balances: accounts the block's own events name
	// are left out
	hookText := ""
	for _, c := range []proto.Call{blk.Begin, blk.End} {
		for _, e := range c.Events {
			for _, kv := range e.Attrs {
				hookText += kv.K + "=" + kv.V + ";"
			}
		}
	}
	for a, w := range want {
		if strings.Contains(hookText, a) || strings.Contains(strings.ToLower(hookText), strings.TrimPrefix(a, "0lt")) {
			continue
		}
		d := new(big.Int).Sub(amountAt(blk.Cur, "b_"+a+"_OLT"), amountAt(blk.Prev, "b_"+a+"_OLT"))
		if d.Cmp(w) != 0 {
			out = append(out, Finding{"C17", "C17/one-ledger/account-delta-differs", fmt.Sprintf("block %d (only native and plain EVM transfers): OLT balance of %s changed by %s, the executed transactions give %s", blk.H, a, d, w)})
		}
	}
	return out
}

func keeperHasCode(s hist.State, raw string) bool {
	v, ok := s["keeper_"+raw]
	if !ok {
		return false
	}
	var rec struct {
		CodeHash []byte `json:"codeHash"`
	}
	_ = json.Unmarshal(v, &rec)
	empty := "c5d2460186f7233c927e7db2dcc703c0e500b653ca82273b7bfad8045d85a470"
	return len(rec.CodeHash) > 0 && fmt.Sprintf("%x", rec.CodeHash) != empty
}
