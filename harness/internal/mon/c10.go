package mon

import (
	"encoding/base64"
	"encoding/binary"
	"encoding/hex"
	"encoding/json"
	"fmt"
	"sort"
	"strings"

	"olverif/internal/hist"
	"olverif/internal/proto"
)

// ValRecord is the persisted validator record (v_<raw address>).
type ValRecord struct {
	Address      string `json:"address"`
	StakeAddress string `json:"stakeAddress"`
	PubKey       struct {
		KeyType string `json:"keyType"`
		Data    string `json:"data"` // base64
	} `json:"pubKey"`
	Power int64  `json:"power"`
	Name  string `json:"name"`
}

func (v *ValRecord) PubHex() string {
	b, err := base64.StdEncoding.DecodeString(v.PubKey.Data)
	if err != nil {
		return ""
	}
	return hex.EncodeToString(b)
}

// Validators decodes all v_ records keyed by address string.
func Validators(s hist.State) map[string]*ValRecord {
	out := map[string]*ValRecord{}
	for k, v := range s {
		if !strings.HasPrefix(k, "v_") {
			continue
		}
		r := &ValRecord{}
		if json.Unmarshal(v, r) == nil && r.Address != "" {
			out[r.Address] = r
		}
	}
	return out
}

// StakingOpts is the governance staking option record in force in a state.
type StakingOpts struct {
	MinSelfDelegationAmount string `json:"minSelfDelegationAmount"`
	TopValidatorCount       int64  `json:"topValidatorCount"`
	MaturityTime            int64  `json:"maturityTime"`
}

// OptionAt reads the governance option record `name` (e.g. "stakingopt") that
// is in force in a state: the store keeps one record per update height and a
// last-update-height pointer per option family.
func OptionAt(s hist.State, luhKey, name string) []byte {
	luh := uint64(0)
	if b, ok := s["g_"+luhKey+"_defaultOptions"]; ok && len(b) == 8 {
		luh = binary.LittleEndian.Uint64(b)
	}
	if v, ok := s["g_"+string(rune(luh))+"_"+name]; ok {
		return v
	}
	return nil
}

func StakingOptions(s hist.State) *StakingOpts {
	o := &StakingOpts{}
	if b := OptionAt(s, "stakingOptions", "stakingopt"); b != nil {
		_ = json.Unmarshal(b, o)
	}
	return o
}

func (o *StakingOpts) Min() int64 {
	var n int64
	fmt.Sscan(o.MinSelfDelegationAmount, &n)
	return n
}

// Frozen reports whether a validator has a freeze record that is in force.
func Frozen(s hist.State, addr string) bool {
	b, ok := s["es__ssvk_"+addr]
	if !ok {
		return false
	}
	var r struct {
		FrozenAt  *string `json:"FrozenAt"`
		ReleaseAt *string `json:"ReleaseAt"`
	}
	if json.Unmarshal(b, &r) != nil {
		return false
	}
	if r.ReleaseAt == nil {
		return true
	}
	if r.FrozenAt == nil {
		return false
	}
	return !(*r.ReleaseAt > *r.FrozenAt)
}

func stakeTotal(s hist.State, addr string) int64 {
	v, ok := s["st__t_"+addr]
	if !ok {
		return 0
	}
	var str string
	if json.Unmarshal(v, &str) != nil {
		return 0
	}
	var n int64
	fmt.Sscan(str, &n)
	return n
}

func min64(a, b int64) int64 {
	if a < b {
		return a
	}
	return b
}
func max64(a, b int64) int64 {
	if a > b {
		return a
	}
	return b
}

// C10 checks the validator updates of one block against the previous block's
// records (strict clauses) and the staking rule (comparative clauses excuse a
// candidate that is ineligible in the previous or the current dump).
func C10(blk *hist.Block) []Finding {
	var out []Finding
	prevVals, curVals := Validators(blk.Prev), Validators(blk.Cur)
	po, co := StakingOptions(blk.Prev), StakingOptions(blk.Cur)
	minLoose := min64(po.Min(), co.Min()) // a validator must reach at least the lower reading
	topLoose := max64(po.TopValidatorCount, co.TopValidatorCount)
	byPub := map[string]*ValRecord{}
	for _, v := range prevVals {
		byPub[v.PubHex()] = v
	}
	elected := map[string]int64{}
	positives := 0
	seen := map[string]bool{}
	for _, u := range blk.End.ValUpdates {
		if seen[u.PubKey] {
			out = append(out, Finding{"C10", "C10/duplicate-key", fmt.Sprintf("block %d: validator updates name public key %s twice", blk.H, u.PubKey[:12])})
		}
		seen[u.PubKey] = true
		if u.Power < 0 {
			out = append(out, Finding{"C10", "C10/negative-power", fmt.Sprintf("block %d: update with negative power %d", blk.H, u.Power)})
		}
		if u.Power <= 0 {
			continue
		}
		positives++
		rec := byPub[u.PubKey]
		if rec == nil {
			out = append(out, Finding{"C10", "C10/elected/unknown-in-previous-records", fmt.Sprintf("block %d: positive-power update for public key %s that has no validator record in the previous block's state", blk.H, u.PubKey[:12])})
			continue
		}
		elected[rec.Address] = u.Power
		if rec.Power < minLoose && stakeTotal(blk.Prev, rec.Address) < minLoose {
			out = append(out, Finding{"C10", "C10/elected/below-minimum", fmt.Sprintf("block %d: %s elected with power %d although its stake in the previous block's records (%d) is below the minimum self-delegation %d", blk.H, rec.Address, u.Power, rec.Power, minLoose)})
		}
		if Frozen(blk.Prev, rec.Address) {
			out = append(out, Finding{"C10", "C10/elected/frozen", fmt.Sprintf("block %d: %s elected with power %d although it is frozen in the previous block's records", blk.H, rec.Address, u.Power)})
		}
		if u.Power != rec.Power && u.Power != stakeTotal(blk.Prev, rec.Address) {
			out = append(out, Finding{"C10", "C10/elected/power-differs-from-stake", fmt.Sprintf("block %d: %s elected with power %d, its stake in the previous block's records is %d", blk.H, rec.Address, u.Power, rec.Power)})
		}
	}
	if int64(positives) > topLoose && topLoose > 0 {
		out = append(out, Finding{"C10", "C10/more-than-top-count", fmt.Sprintf("block %d: %d positive-power updates, configured top count %d", blk.H, positives, topLoose)})
	}
	// preference: no elected validator has less stake than an eligible non-elected one
	if blk.H > 1 && len(elected) > 0 {
		minElected := int64(-1)
		var minAddr string
		for a, p := range elected {
			if minElected < 0 || p < minElected {
				minElected, minAddr = p, a
			}
		}
		minStrict := max64(po.Min(), co.Min())
		for a, rec := range prevVals {
			if _, ok := elected[a]; ok {
				continue
			}
			cv := curVals[a]
			if rec.Power < minStrict || Frozen(blk.Prev, a) || Frozen(blk.Cur, a) || cv == nil {
				continue // ineligible in one of the two readings
			}
			if int64(positives) < min64(po.TopValidatorCount, co.TopValidatorCount) {
				out = append(out, Finding{"C10", "C10/eligible-not-elected/seats-free", fmt.Sprintf("block %d: %s (stake %d, eligible in both readings) got no positive update although only %d of %d seats were filled", blk.H, a, rec.Power, positives, min64(po.TopValidatorCount, co.TopValidatorCount))})
			} else if rec.Power > minElected {
				out = append(out, Finding{"C10", "C10/eligible-not-elected/higher-stake", fmt.Sprintf("block %d: %s (stake %d) not elected while %s with lower stake %d is", blk.H, a, rec.Power, minAddr, minElected)})
			}
		}
	}
	return out
}

// Election computes, from a dump, the set the staking rule elects: eligible
// validators (stake >= minimum, not frozen) by descending stake, top count.
// It returns the elected set and the lowest elected / highest non-elected
// eligible stake so that ties at the boundary can be accepted either way.
func Election(s hist.State) (elected map[string]int64, boundaryTie map[string]bool) {
	opt := StakingOptions(s)
	type cand struct {
		addr  string
		power int64
		pub   string
	}
	var cs []cand
	for a, v := range Validators(s) {
		if v.Power >= opt.Min() && !Frozen(s, a) && v.Power > 0 {
			cs = append(cs, cand{a, v.Power, v.PubHex()})
		}
	}
	sort.Slice(cs, func(i, j int) bool {
		if cs[i].power != cs[j].power {
			return cs[i].power > cs[j].power
		}
		return cs[i].addr < cs[j].addr
	})
	elected = map[string]int64{}
	boundaryTie = map[string]bool{}
	n := int(opt.TopValidatorCount)
	for i, c := range cs {
		if i < n {
			elected[c.pub] = c.power
		}
	}
	if n > 0 && len(cs) > n && cs[n-1].power == cs[n].power {
		p := cs[n].power
		for _, c := range cs {
			if c.power == p {
				boundaryTie[c.pub] = true
			}
		}
	}
	return
}

// C10Converged compares Tendermint's validator set with the election from the
// dump after a quiet tail (called by the check once stakes stopped changing
// for five blocks).
func C10Converged(s hist.State, vals []proto.Val, h int64) []Finding {
	elected, tie := Election(s)
	var out []Finding
	if len(elected) == 0 && len(tie) == 0 {
		// nobody is electable: the set cannot follow the election, it may never be emptied (first clause of
		// the statement; Tendermint's acceptance of every update is checked block by block)
		if len(vals) == 0 {
			out = append(out, Finding{"C10", "C10/not-converged/empty-set", fmt.Sprintf("height %d: Tendermint's validator set is empty", h)})
		}
		return append(out, Finding{"COUNT", "observed:convergence-with-empty-election", ""})
	}
	tm := map[string]int64{}
	for _, v := range vals {
		// Tendermint's amino-encoded ed25519 pubkey: 5 prefix bytes + 32 key bytes
		pk := v.PubKey
		if len(pk) == 74 {
			pk = pk[10:]
		}
		tm[pk] = v.Power
	}
	for pk, p := range elected {
		if tie[pk] {
			continue
		}
		if tp, ok := tm[pk]; !ok {
			out = append(out, Finding{"C10", "C10/not-converged/elected-missing", fmt.Sprintf("height %d, five quiet blocks: validator %s (stake %d) is elected by the staking rule but not in Tendermint's set", h, pk[:12], p)})
		} else if tp != p {
			out = append(out, Finding{"C10", "C10/not-converged/power", fmt.Sprintf("height %d, five quiet blocks: validator %s has power %d in Tendermint's set, stake %d in the records", h, pk[:12], tp, p)})
		}
	}
	for pk, p := range tm {
		if _, ok := elected[pk]; !ok && !tie[pk] {
			out = append(out, Finding{"C10", "C10/not-converged/extra-member", fmt.Sprintf("height %d, five quiet blocks: Tendermint's set contains %s (power %d) which the staking rule does not elect", h, pk[:12], p)})
		}
	}
	return out
}

// Contention reports how many validators are eligible in a dump and the top count.
func Contention(s hist.State) (eligible int, top int64) {
	opt := StakingOptions(s)
	for a, v := range Validators(s) {
		if v.Power >= opt.Min() && !Frozen(s, a) && v.Power > 0 {
			eligible++
		}
	}
	return eligible, opt.TopValidatorCount
}
