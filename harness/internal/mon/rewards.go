package mon

import (
	"encoding/json"
	"fmt"
	"math/big"
	"strconv"
	"strings"

	"olverif/internal/hist"
)

var e18 = new(big.Int).Exp(big.NewInt(10), big.NewInt(18), nil)

type rewardYear struct {
	Distributed   string `json:"Distributed"`
	TillLastCycle string `json:"TillLastCycle"`
}

func rewardYears(s hist.State) []rewardYear {
	var r struct {
		Years []rewardYear `json:"Years"`
	}
	if b, ok := s["rwcum_ydist"]; ok {
		_ = json.Unmarshal(b, &r)
	}
	return r.Years
}

type rewardOpts struct {
	RewardInterval        int64    `json:"rewardInterval"`
	YearBlockRewardShares []string `json:"yearBlockRewardShares"`
	BurnoutRate           string   `json:"burnoutRate"`
	RewardPoolAddress     string   `json:"rewardPoolAddress"`
}

func rewardOptions(s hist.State) *rewardOpts {
	o := &rewardOpts{}
	if b := OptionAt(s, "rewardsOptions", "reward"); b != nil {
		_ = json.Unmarshal(b, o)
	}
	return o
}

func bigOf(s string) *big.Int {
	b, ok := new(big.Int).SetString(s, 10)
	if !ok {
		return new(big.Int)
	}
	return b
}

// C13Mon: block rewards within the consumed amount and the schedule;
// validators never withdraw more than has matured.
type C13Mon struct {
	withdrawn map[string]*big.Int // validator -> nue withdrawn
	// what the genesis records as withdrawn already, per validator (a chain started from a dumped state)
	genesisWithdrawn map[string]*big.Int
}

func NewC13() *C13Mon { return &C13Mon{withdrawn: map[string]*big.Int{}} }

// NewC13FromGenesis also reads, from the genesis application state, what validators had withdrawn before.
func NewC13FromGenesis(appState []byte) *C13Mon {
	m := NewC13()
	var st struct {
		Rewards struct {
			Cumu struct {
				Withdrawn []struct {
					Address string `json:"address"`
					Amount  string `json:"amount"`
				} `json:"withdrawnAmounts"`
			} `json:"cumuState"`
		} `json:"rewards"`
	}
	if json.Unmarshal(appState, &st) == nil {
		m.genesisWithdrawn = map[string]*big.Int{}
		for _, w := range st.Rewards.Cumu.Withdrawn {
			m.genesisWithdrawn[w.Address] = bigOf(w.Amount)
		}
	}
	return m
}

func sumPrefix(s hist.State, prefix string, filter func(k string) bool) *big.Int {
	t := new(big.Int)
	for k := range s {
		if strings.HasPrefix(k, prefix) && (filter == nil || filter(k)) {
			t.Add(t, amountAt(s, k))
		}
	}
	return t
}

func (m *C13Mon) OnBlock(blk *hist.Block) []Finding {
	var out []Finding
	// credited to validators: increments of reward chunks
	credV := new(big.Int).Sub(sumPrefix(blk.Cur, "rwz_", nil), sumPrefix(blk.Prev, "rwz_", nil))
	// credited to delegators: increments of reward balances, corrected by what this block's
	// successful withdrawals and reinvestments took out
	credD := new(big.Int).Sub(sumPrefix(blk.Cur, "delegRwz_balance_", nil), sumPrefix(blk.Prev, "delegRwz_balance_", nil))
	for _, t := range blk.Txs {
		if t.Call.Code != 0 {
			continue
		}
		switch t.Kind {
		case "REWARDS_WITHDRAW_NETWORK_DELEGATE", "REWARDS_REINVEST_NETWORK_DELEGATE":
			credD.Add(credD, txAmount(t, "amount"))
		case "WITHDRAW_REWARD":
			addTo(m.withdrawn, txAddr(t, "validatorAddress"), new(big.Int).Mul(txAmount(t, "withdrawAmount"), e18))
		}
	}
	credited := new(big.Int).Add(credV, credD)
	consumed := new(big.Int).Sub(amountAt(blk.Cur, "rwcum_tdist"), amountAt(blk.Prev, "rwcum_tdist"))
	if credited.Cmp(consumed) > 0 {
		out = append(out, Finding{"C13", "C13/credited-exceeds-consumed", fmt.Sprintf("block %d: rewards credited to validators (%s) and delegators (%s) exceed the amount accounted as pulled/consumed for the block (%s)", blk.H, credV, credD, consumed)})
	}
	// the amount a freshly started node would pull for this block (the box's read-only twin calculator,
	// recorded just before BeginBlock): by the restart clause it is THE amount pulled for the block
	if blk.Begin.TwinPull != "" && !strings.HasPrefix(blk.Begin.TwinPull, "error") {
		pulled := bigOf(blk.Begin.TwinPull)
		if credited.Cmp(pulled) > 0 {
			out = append(out, Finding{"C13", "C13/credited-exceeds-pulled", fmt.Sprintf("block %d: rewards credited to validators (%s) and delegators (%s) exceed the amount pulled for the block (%s)", blk.H, credV, credD, pulled)})
		}
		if consumed.Cmp(pulled) > 0 {
			out = append(out, Finding{"C13", "C13/consumed-exceeds-pulled", fmt.Sprintf("block %d: %s is booked as distributed for the block, more than the amount pulled (%s)", blk.H, consumed, pulled)})
		}
		out = append(out, Finding{"COUNT", "observed:blocks-with-pulled-amount", ""})
		// the node's own long-lived calculator (with whatever it has cached since it started) and a fresh one
		// must pull the same amount: the per-block amount does not depend on when the node was started
		if blk.Begin.RunPull != "" && blk.Begin.RunPull != blk.Begin.TwinPull {
			out = append(out, Finding{"C13", "C13/restart/pulled-amount-depends-on-process-lifetime", fmt.Sprintf("block %d: this node pulls %s for the block, a node started right now would pull %s", blk.H, blk.Begin.RunPull, blk.Begin.TwinPull)})
		}
	}
	// schedule bound: what was left of the year when the cycle began
	py, cy := rewardYears(blk.Prev), rewardYears(blk.Cur)
	opt := rewardOptions(blk.Prev)
	yearHit := -1
	for i := range cy {
		if i < len(py) && bigOf(cy[i].Distributed).Cmp(bigOf(py[i].Distributed)) > 0 {
			yearHit = i
		}
	}
	if consumed.Sign() > 0 {
		if yearHit >= 0 && yearHit < len(opt.YearBlockRewardShares) {
			left := new(big.Int).Sub(bigOf(opt.YearBlockRewardShares[yearHit]), bigOf(py[yearHit].TillLastCycle))
			if consumed.Cmp(left) > 0 {
				out = append(out, Finding{"C13", "C13/exceeds-year-left", fmt.Sprintf("block %d: %s consumed, but only %s was left of reward year %d when the calculation cycle began", blk.H, consumed, left, yearHit+1)})
			}
		} else if yearHit < 0 && len(py) > 0 {
			// after the schedule: burnout rate capped by the rewards pool
			pool := amountAt(blk.Prev, "b_0lt"+fmt.Sprintf("%x", []byte(opt.RewardPoolAddress))+"_OLT")
			bound := bigOf(opt.BurnoutRate)
			if pool.Cmp(bound) < 0 {
				bound = pool
			}
			if consumed.Cmp(bound) > 0 {
				out = append(out, Finding{"C13", "C13/exceeds-burnout", fmt.Sprintf("block %d: %s consumed after the schedule is over, burnout rate capped by the pool is %s", blk.H, consumed, bound)})
			}
		}
	}
	// what a validator has withdrawn is on record as withdrawn: the genesis figure plus this chain's successful
	// withdrawals
	for v, g := range m.genesisWithdrawn {
		want := new(big.Int).Add(g, get(m.withdrawn, v))
		if got := amountAt(blk.Cur, "rwcum_withdrawn_"+v); got.Cmp(want) != 0 {
			out = append(out, Finding{"C13", "C13/withdrawn-total-not-on-record", fmt.Sprintf("block %d: validator %s is on record with %s withdrawn; the genesis state says %s and this chain's successful withdrawals add %s", blk.H, v, got, g, get(m.withdrawn, v))})
			break
		}
	}
	// what has matured for a validator (its matured balance plus what it has withdrawn) never exceeds the reward
	// chunks on its record: a chunk matures once
	seen := map[string]bool{}
	for k := range blk.Cur {
		if !strings.HasPrefix(k, "rwz_") {
			continue
		}
		v := k[4:]
		if j := strings.LastIndex(v, "_"); j > 0 {
			v = v[:j]
		}
		if seen[v] {
			continue
		}
		seen[v] = true
		maturedEver := new(big.Int).Add(amountAt(blk.Cur, "rwcum_balance_"+v), amountAt(blk.Cur, "rwcum_withdrawn_"+v))
		if chunks := sumPrefix(blk.Cur, "rwz_"+v+"_", nil); maturedEver.Cmp(chunks) > 0 {
			out = append(out, Finding{"C13", "C13/matured-exceeds-credited", fmt.Sprintf("block %d: validator %s has a matured balance of %s and has withdrawn %s; all reward chunks on its record sum to %s", blk.H, v, amountAt(blk.Cur, "rwcum_balance_"+v), amountAt(blk.Cur, "rwcum_withdrawn_"+v), chunks)})
		}
	}
	// withdrawals never exceed what has matured: chunks with index <= H/interval - 1
	hasIntervals := false
	for k := range blk.Cur {
		if strings.HasPrefix(k, "ri_") {
			hasIntervals = true
			break
		}
	}
	if !hasIntervals && opt.RewardInterval > 0 {
		lim := blk.H/opt.RewardInterval - 1
		for v, w := range m.withdrawn {
			matured := sumPrefix(blk.Cur, "rwz_"+v+"_", func(k string) bool {
				idx, err := strconv.ParseInt(k[strings.LastIndex(k, "_")+1:], 10, 64)
				return err == nil && idx <= lim
			})
			if w.Cmp(matured) > 0 {
				out = append(out, Finding{"C13", "C13/withdrawn-exceeds-matured", fmt.Sprintf("block %d: validator %s has withdrawn %s in total, the reward chunks matured by this height (index <= %d) sum to %s", blk.H, v, w, lim, matured)})
			}
		}
	}
	return out
}

// RewardEvent renders the block_rewards event of a block (restart comparison).
func RewardEvent(blk *hist.Block) string {
	for _, e := range blk.Begin.Events {
		if e.Type == "block_rewards" {
			var parts []string
			for _, a := range e.Attrs {
				parts = append(parts, a.K+"="+a.V)
			}
			return strings.Join(parts, ";")
		}
	}
	return ""
}
