package mon

import (
	"encoding/base64"
	"fmt"
	"math/big"
	"sort"
	"strings"

	ethcmn "github.com/ethereum/go-ethereum/common"
	ethcrypto "github.com/ethereum/go-ethereum/crypto"
	"github.com/ethereum/go-ethereum/rlp"

	"olverif/internal/hist"
)

const supplyCounter = "0lt6f6e656c6564676572537570706c7941646472657373" // "oneledgerSupplyAddress"

var wrapped = []string{"ETH", "TTC"}

func need(n int) int { return n*2/3 + 1 }

// wrappedHoldings returns owner -> amount for a wrapped currency (supply counter excluded).
func wrappedHoldings(s hist.State, cur string) (map[string]*big.Int, *big.Int) {
	out := map[string]*big.Int{}
	counter := new(big.Int)
	suffix := "_" + cur
	for k := range s {
		if strings.HasPrefix(k, "b_") && strings.HasSuffix(k, suffix) {
			owner := k[2 : len(k)-len(suffix)]
			a := amountAt(s, k)
			if owner == supplyCounter {
				counter = a
				continue
			}
			out[owner] = a
		}
	}
	return out, counter
}

func trackerOf(m map[string]*Tracker, name string) *Tracker {
	for _, st := range []string{"etht", "ethsuccess", "ethfailed"} {
		if t, ok := m[st+"/"+name]; ok {
			return t
		}
	}
	return nil
}

// C15 checks one block of lock/redeem/report traffic against the statement.
// C15Mon adds what has to be followed over several blocks: a tracker that reached its final state (minted,
// or failed and refunded) is moved out of the ongoing store by the block-end clean-up within a few blocks — that
// move is what makes a later resubmission of the same external transaction refusable for good.
type C15Mon struct{ lag map[string]int }

func NewC15() *C15Mon { return &C15Mon{lag: map[string]int{}} }

func (m *C15Mon) OnBlock(blk *hist.Block) []Finding {
	out := C15(blk)
	cur := Trackers(blk.Cur)
	seen := map[string]bool{}
	var ks []string
	for k := range cur {
		ks = append(ks, k)
	}
	sort.Strings(ks)
	for _, k := range ks {
		t := cur[k]
		if strings.HasPrefix(k, "etht/") && (t.State == TrkReleased || t.State == TrkFailed) {
			seen[k] = true
			m.lag[k]++
			if m.lag[k] == 6 {
				out = append(out, Finding{"C15", "C15/lifecycle/finished-tracker-not-archived", fmt.Sprintf("block %d: tracker %s has been in its final state %d in the ongoing store for six blocks", blk.H, cut(t.TrackerName, 12), t.State)})
			}
		}
	}
	for k := range m.lag {
		if !seen[k] {
			delete(m.lag, k)
		}
	}
	return out
}

func C15(blk *hist.Block) []Finding {
	var out []Finding
	prevT, curT := Trackers(blk.Prev), Trackers(blk.Cur)
	// (5) the supply counter equals the wrapped tokens in circulation
	for _, c := range wrapped {
		hold, counter := wrappedHoldings(blk.Cur, c)
		sum := new(big.Int)
		for _, a := range hold {
			sum.Add(sum, a)
		}
		if sum.Cmp(counter) != 0 {
			out = append(out, Finding{"C15", "C15/supply-counter/" + c, fmt.Sprintf("block %d: wrapped %s in circulation is %s, the supply counter says %s", blk.H, c, sum, counter)})
		}
	}
	// (3) one external transaction never backs two trackers
	names := map[string][]string{}
	for k, t := range curT {
		names[t.TrackerName] = append(names[t.TrackerName], strings.SplitN(k, "/", 2)[0])
	}
	for n, st := range names {
		if len(st) > 1 {
			sort.Strings(st)
			out = append(out, Finding{"C15", "C15/two-trackers/" + strings.Join(st, "+"), fmt.Sprintf("block %d: external transaction %s backs trackers in stores %v at the same time", blk.H, n[:12], st)})
		}
	}
	// (3b) ... whatever bytes follow it in the submitted form: the external transaction is the first RLP value
	byTx := map[string][]string{}
	for _, t := range curT {
		if _, _, rest, err := rlp.Split(t.SignedETHTx); err == nil && len(t.SignedETHTx) > len(rest) {
			h := ethcrypto.Keccak256Hash(t.SignedETHTx[:len(t.SignedETHTx)-len(rest)]).Hex()
			byTx[h] = append(byTx[h], t.TrackerName)
		}
	}
	for h, ns := range byTx {
		sort.Strings(ns)
		distinct := 0
		for i := range ns {
			if i == 0 || ns[i] != ns[i-1] {
				distinct++
			}
		}
		if distinct > 1 {
			out = append(out, Finding{"C15", "C15/two-trackers/same-ethereum-transaction-other-bytes", fmt.Sprintf("block %d: the Ethereum transaction %s backs %d trackers with different names (%v): the submitted forms differ only in bytes after the transaction", blk.H, h[:12], distinct, ns)})
		}
	}
	// replay this block's reports on the previous vote slots
	type vstate struct {
		witnesses []string
		votes     []byte
		typ       int
		owner     string
		src       *Tracker
		decided   bool
	}
	vs := map[string]*vstate{}
	load := func(name string) *vstate {
		if v, ok := vs[name]; ok {
			return v
		}
		var t *Tracker
		if pt, ok := prevT["etht/"+name]; ok {
			t = pt
		}
		v := &vstate{}
		if t != nil {
			v.witnesses, v.votes, v.typ, v.owner, v.src = t.Witnesses, append([]byte{}, t.FinalityVotes...), t.Type, t.ProcessOwner, t
		}
		vs[name] = v
		return v
	}
	redeemedBy := map[string]map[string]*big.Int{} // currency -> owner -> amount debited by redeems in this block
	for _, t := range blk.Txs {
		if t.Call.Code != 0 {
			continue
		}
		p := Payload(t.Bytes)
		switch t.Kind {
		case "ETH_LOCK", "ERC20_LOCK", "ETH_REDEEM", "ERC20_REDEEM":
			raw, _ := base64.StdEncoding.DecodeString(PString(p, "ETHTxn"))
			name := ethcmn.BytesToHash(raw).Hex()
			owner := PString(p, "Locker")
			typ := 1
			switch t.Kind {
			case "ERC20_LOCK":
				typ = 3
			case "ETH_REDEEM":
				typ, owner = 2, PString(p, "Owner")
			case "ERC20_REDEEM":
				typ, owner = 4, PString(p, "Owner")
			}
			if old := trackerOf(prevT, name); old != nil && !(old.Store == "ethfailed" && (typ == 1)) {
				out = append(out, Finding{"C15", "C15/duplicate-submission-accepted/" + t.Kind + "/" + old.Store, fmt.Sprintf("block %d: %s for external transaction %s succeeded although a tracker for it already exists in store %s", blk.H, t.Kind, name[:12], old.Store)})
			}
			// a (new) tracker starts with empty slots and the recorded witnesses
			tr := &Tracker{Type: typ, TrackerName: name, SignedETHTx: raw, ProcessOwner: owner}
			if ct, ok := curT["etht/"+name]; ok {
				tr.Witnesses = ct.Witnesses
			}
			vs[name] = &vstate{witnesses: tr.Witnesses, votes: make([]byte, len(tr.Witnesses)), typ: typ, owner: owner, src: tr}
			if typ == 2 || typ == 4 {
				amt, c := TrackerAmount(tr)
				if redeemedBy[c] == nil {
					redeemedBy[c] = map[string]*big.Int{}
				}
				addTo(redeemedBy[c], owner, amt)
			}
		case "SEND":
			// users may move wrapped tokens among themselves
			am, _ := pField(p, "amount").(map[string]interface{})
			if am != nil {
				c, _ := am["currency"].(string)
				if c == "ETH" || c == "TTC" {
					a := PAmount(p, "amount")
					if redeemedBy[c] == nil {
						redeemedBy[c] = map[string]*big.Int{}
					}
					addTo(redeemedBy[c], PString(p, "from"), a)
					addTo(redeemedBy[c], PString(p, "to"), new(big.Int).Neg(a))
				}
			}
		case "ETH_REPORT_FINALITY_MINT":
			name := PString(p, "TrackerName")
			v := load(name)
			if v.src == nil || v.decided {
				continue
			}
			idxF, _ := pField(p, "VoteIndex").(float64)
			idx := int(idxF)
			who := PString(p, "ValidatorAddress")
			success, _ := pField(p, "Success").(bool)
			if idx >= 0 && idx < len(v.witnesses) && v.witnesses[idx] == who && v.votes[idx] == 0 {
				// only the matching witness fills its own, still empty slot
				already := false
				for i, w := range v.witnesses {
					if w == who && v.votes[i] != 0 {
						already = true
					}
				}
				if !already {
					if success {
						v.votes[idx] = 1
					} else {
						v.votes[idx] = 2
					}
				}
			}
			y, n := 0, 0
			for _, b := range v.votes {
				if b == 1 {
					y++
				} else if b == 2 {
					n++
				}
			}
			if y >= need(len(v.witnesses)) || n >= need(len(v.witnesses)) {
				v.decided = true
			}
		}
	}
	// expected credits per currency and owner
	expect := map[string]map[string]*big.Int{}
	credit := func(c, owner string, a *big.Int) {
		if expect[c] == nil {
			expect[c] = map[string]*big.Int{}
		}
		addTo(expect[c], owner, a)
	}
	allNames := map[string]bool{}
	for _, t := range prevT {
		allNames[t.TrackerName] = true
	}
	for _, t := range curT {
		allNames[t.TrackerName] = true
	}
	for name := range allNames {
		v := load(name)
		y, n := 0, 0
		for _, b := range v.votes {
			if b == 1 {
				y++
			} else if b == 2 {
				n++
			}
		}
		// the stored vote slots must be what the legitimate reports produce
		if ct, ok := curT["etht/"+name]; ok && v.src != nil && !v.decided && len(ct.FinalityVotes) == len(v.votes) && ct.State < TrkReleased {
			if string(ct.FinalityVotes) != string(v.votes) {
				out = append(out, Finding{"C15", "C15/vote-slots/changed-illegitimately", fmt.Sprintf("block %d: tracker %s stores vote slots %v; the reports of recorded witnesses (own slot, first vote only) give %v", blk.H, name[:12], ct.FinalityVotes, v.votes)})
			}
		}
		newlyReleased := isReleased(curT, name) && !isReleased(prevT, name)
		newlyFailed := isFailed(curT, name) && !isFailed(prevT, name)
		if v.src == nil {
			continue
		}
		amt, c := TrackerAmount(v.src)
		if newlyReleased {
			out = append(out, Finding{"COUNT", fmt.Sprintf("observed:released-type-%d", v.typ), ""})
			if y < need(len(v.witnesses)) {
				out = append(out, Finding{"C15", "C15/released-below-threshold", fmt.Sprintf("block %d: tracker %s (type %d) was released with %d success reports of %d recorded witnesses (more than two thirds = %d needed)", blk.H, name[:12], v.typ, y, len(v.witnesses), need(len(v.witnesses)))})
			}
			if v.typ == 1 || v.typ == 3 {
				credit(c, v.owner, amt)
			}
		}
		if newlyFailed {
			out = append(out, Finding{"COUNT", fmt.Sprintf("observed:failed-type-%d", v.typ), ""})
			if n < need(len(v.witnesses)) {
				out = append(out, Finding{"C15", "C15/failed-below-threshold", fmt.Sprintf("block %d: tracker %s (type %d) was failed with %d failure reports of %d recorded witnesses (%d needed)", blk.H, name[:12], v.typ, n, len(v.witnesses), need(len(v.witnesses)))})
			}
			if v.typ == 2 {
				credit(c, v.owner, amt)
			}
		}
	}
	// every change of a wrapped balance is explained by a mint, a refund or a redeem of that owner
	for _, c := range wrapped {
		ph, _ := wrappedHoldings(blk.Prev, c)
		ch, _ := wrappedHoldings(blk.Cur, c)
		owners := map[string]bool{}
		for o := range ph {
			owners[o] = true
		}
		for o := range ch {
			owners[o] = true
		}
		for o := range expect[c] {
			owners[o] = true
		}
		for o := range owners {
			delta := new(big.Int).Sub(get(ch, o), get(ph, o))
			want := new(big.Int).Sub(get(expect[c], o), get(redeemedBy[c], o))
			if delta.Cmp(want) != 0 {
				sig := "C15/wrapped-balance/" + c + "/"
				switch {
				case delta.Cmp(want) > 0 && get(expect[c], o).Sign() == 0:
					sig += "credit-without-confirmed-lock-or-refund"
				case delta.Cmp(want) < 0 && get(expect[c], o).Sign() > 0:
					sig += "mint-or-refund-not-credited-to-submitter"
				default:
					sig += "amount-differs"
				}
				out = append(out, Finding{"C15", sig, fmt.Sprintf("block %d: wrapped %s balance of %s changed by %s; confirmed locks / refunds of this block credit it %s and its redeems debit it %s", blk.H, c, o, delta, get(expect[c], o), get(redeemedBy[c], o))})
			}
		}
	}
	return out
}
