package gen

import (
	"crypto/sha256"
	"encoding/binary"
	"encoding/hex"
	"encoding/json"
	"fmt"
	"math/big"
	"strings"

	govact "github.com/Oneledger/protocol/action/governance"
	"github.com/Oneledger/protocol/data/balance"
	"github.com/Oneledger/protocol/data/governance"

	"olverif/internal/hist"
	"olverif/internal/txb"
	"olverif/internal/world"
)

// Governance drives proposals through every lifecycle branch: pass, fail by
// votes, cancel, miss the funding goal, expire in voting, config update.
type Governance struct {
	n         int
	props     []*prop
	Tag       string
	Strangers bool // outsiders send expire/finalize transactions at any time; late-comers vote
}

type prop struct {
	id        string
	typ       governance.ProposalType
	proposer  *world.Account
	plan      string // pass | fail | cancel | miss | expire | config
	lateAt    int64
	lateVoted bool
	triedW    bool
	recreated bool
	funders   []*world.Account
	created   int64
	fundDl    int64
	done      bool
}

func (g *Governance) Name() string { return "governance" }

func PropID(tag string) string {
	h := sha256.Sum256([]byte(tag))
	return hex.EncodeToString(h[:])
}

// ProposalRecord is the subset of a stored proposal the scripts and monitors read.
type ProposalRecord struct {
	ProposalID      string `json:"proposalId"`
	Type            int    `json:"proposalType"`
	Status          int    `json:"status"`
	Outcome         int    `json:"outcome"`
	Proposer        string `json:"proposer"`
	FundingDeadline int64  `json:"fundingDeadline"`
	FundingGoal     string `json:"fundingGoal"`
	VotingDeadline  int64  `json:"votingDeadline"`
	PassPercentage  int    `json:"passPercent"`
	ConfigUpdate    string `json:"governanceStateUpdate"`
}

var PropStores = []string{"propActive", "propPassed", "propFailed", "propFinalized", "propFinalizeFailed"}

// FindProposal looks a proposal up in every store prefix.
func FindProposal(s hist.State, id string) (store string, rec *ProposalRecord) {
	for _, st := range PropStores {
		if v, ok := s[st+id]; ok {
			r := &ProposalRecord{}
			_ = json.Unmarshal(v, r)
			return st, r
		}
	}
	return "", nil
}

// propOptionOf reads the proposal options in force for a proposal type from the dump.
func propOptionOf(s hist.State, typ governance.ProposalType) *governance.ProposalOption {
	luh := uint64(0)
	if b, ok := s["g_proposalOptions_defaultOptions"]; ok && len(b) == 8 {
		luh = binary.LittleEndian.Uint64(b)
	}
	v, ok := s["g_"+string(rune(luh))+"_proposal"]
	if !ok {
		return nil
	}
	set := &governance.ProposalOptionSet{}
	if json.Unmarshal(v, set) != nil {
		return nil
	}
	switch typ {
	case governance.ProposalTypeConfigUpdate:
		return &set.ConfigUpdate
	case governance.ProposalTypeCodeChange:
		return &set.CodeChange
	}
	return &set.General
}

func (g *Governance) create(c *Ctx, p *prop, cfg string) hist.TxSpec {
	goal, _ := balance.NewAmountFromString(c.W.P.PropFundingGoal, 10)
	optVoting := c.W.P.VotingDeadline
	pass := 51
	if o := propOptionOf(c.S, p.typ); o != nil {
		// (the options in force, which configuration proposals of this history may have changed)
		optVoting, pass = o.VotingDeadline, o.PassPercentage
	}
	msg := &govact.CreateProposal{
		ProposalID:      governance.ProposalID(p.id),
		ProposalType:    p.typ,
		Headline:        "h " + p.plan,
		Description:     "d " + p.plan,
		Proposer:        p.proposer.Addr,
		InitialFunding:  txb.Amt("OLT", c.W.P.PropInitialFund),
		FundingDeadline: p.fundDl,
		FundingGoal:     goal,
		VotingDeadline:  p.fundDl + optVoting,
		PassPercentage:  pass,
		ConfigUpdate:    cfg,
	}
	sp := Build(c, "PROPOSAL_CREATE", msg, "create ("+p.plan+")", p.proposer)
	sp.Meta = map[string]string{"proposal": p.id, "amount": c.W.P.PropInitialFund, "funder": p.proposer.Addr.String()}
	return sp
}

func (g *Governance) fund(c *Ctx, p *prop, who *world.Account, amt string, note string) hist.TxSpec {
	sp := Build(c, "PROPOSAL_FUND", &govact.FundProposal{ProposalId: governance.ProposalID(p.id), FunderAddress: who.Addr, FundValue: txb.Amt("OLT", amt)}, note, who)
	sp.Meta = map[string]string{"proposal": p.id, "amount": amt, "funder": who.Addr.String()}
	return sp
}

func (g *Governance) vote(c *Ctx, p *prop, v *world.Validator, op governance.VoteOpinion) hist.TxSpec {
	sp := Build(c, "PROPOSAL_VOTE", &govact.VoteProposal{ProposalID: governance.ProposalID(p.id), Address: v.Stake.Addr, ValidatorAddress: v.ValAddr, Opinion: op}, fmt.Sprintf("vote %d by %s (%s)", op, v.Name, p.plan), &v.Stake, ConsAccount(v))
	sp.Meta = map[string]string{"proposal": p.id, "validator": v.ValAddr.String(), "opinion": fmt.Sprint(int(op))}
	return sp
}

func (g *Governance) withdrawFunds(c *Ctx, p *prop, who *world.Account, benef *world.Account, amt string, note string) hist.TxSpec {
	sp := Build(c, "PROPOSAL_WITHDRAW_FUNDS", &govact.WithdrawFunds{ProposalID: governance.ProposalID(p.id), Funder: who.Addr, WithdrawValue: txb.Amt("OLT", amt), Beneficiary: benef.Addr}, note, who)
	sp.Meta = map[string]string{"proposal": p.id, "amount": amt, "funder": who.Addr.String(), "beneficiary": benef.Addr.String()}
	return sp
}

func remaining(c *Ctx, p *prop) string {
	goal := world.BigFromString(c.W.P.PropFundingGoal)
	cur := AmountAt(c.S, "propFunds_t_"+p.id)
	rem := goal.Sub(goal, cur)
	if rem.Sign() <= 0 {
		return "1"
	}
	return rem.String()
}

func (g *Governance) newBatch(c *Ctx) []hist.TxSpec {
	us := c.W.Users
	var out []hist.TxSpec
	// ("config0": a configuration change the option validation must refuse at creation — were it admitted, it
	// would be funded, voted through and finalised like any other)
	plans := []string{"pass", "fail", "cancel", "miss", "expire", "config", "giveup1", "giveup2", "config0"}
	for i, pl := range plans {
		p := &prop{id: PropID(fmt.Sprintf("%s/%s/%d/%d", g.Tag, pl, c.H, i)), plan: pl, proposer: us[3+i%2], created: c.H, fundDl: c.H + 5, typ: governance.ProposalTypeGeneral}
		cfg := ""
		if pl == "config" {
			p.typ = governance.ProposalTypeConfigUpdate
			vals := []string{"onsOptions.perBlockFees:200000000000000", "onsOptions.baseDomainPrice:900000000000000000000", "feeOption.minFeeDecimal:10", "onsOptions.perBlockFees:100000000000000"}
			if len(c.W.P.PerBlockFees) > 18 {
				// (a world whose per-block price does not fit 64 bits keeps prices of that size)
				vals = []string{"onsOptions.perBlockFees:20000000000000000000", "onsOptions.baseDomainPrice:900000000000000000000", "feeOption.minFeeDecimal:10", "onsOptions.perBlockFees:10000000000000000000"}
			}
			if c.W.P.ProdGov {
				// (the option validation looks at the whole option set: these keys can only be changed where the
				// deadlines are inside its ranges)
				vals = []string{"propOptions.configUpdate.passPercentage:60", "propOptions.general.passPercentage:55", "propOptions.codeChange.passPercentage:52", "propOptions.configUpdate.votingDeadline:10001", "propOptions.codeChange.fundingDeadline:10002", "propOptions.general.votingDeadline:75001", "propOptions.configUpdate.passPercentage:51", "propOptions.general.fundingDeadline:75002", "propOptions.codeChange.votingDeadline:150001", "propOptions.configUpdate.fundingDeadline:10003"}
			}
			cfg = vals[(g.n/20+int(c.W.P.VotingDeadline))%len(vals)]
		}
		if pl == "config0" {
			p.typ = governance.ProposalTypeConfigUpdate
			cfg = "onsOptions.perBlockFees:0"
		}
		if pl == "pass" && c.R.Intn(2) == 0 {
			p.typ = governance.ProposalTypeCodeChange
		}
		g.props = append(g.props, p)
		out = append(out, g.create(c, p, cfg))
	}
	return out
}

func (g *Governance) Plan(c *Ctx) []hist.TxSpec {
	g.n++
	var out []hist.TxSpec
	us := c.W.Users
	if g.n%20 == 1 {
		return g.newBatch(c)
	}
	var genVals []*world.Validator
	for _, v := range c.W.Vals {
		if v.InGenesis {
			genVals = append(genVals, v)
		}
	}
	for _, p := range g.props {
		if p.done {
			continue
		}
		store, rec := FindProposal(c.S, p.id)
		if rec == nil {
			continue
		}
		age := c.H - p.created
		if g.Strangers && c.R.Intn(4) == 0 {
			// an arbitrary account tries to expire / finalise the proposal, whatever its phase
			u := us[c.R.Intn(len(us))]
			if c.R.Intn(2) == 0 {
				sp := BuildFee(c, "EXPIRE_VOTES", &govact.ExpireVotes{ProposalID: governance.ProposalID(p.id), ValidatorAddress: u.Addr}, txb.Fee("1000000000", 400000), "expire by an outsider ("+store+")", u)
				sp.Meta = map[string]string{"proposal": p.id}
				out = append(out, sp)
			} else {
				sp := BuildFee(c, "PROPOSAL_FINALIZE", &govact.FinalizeProposal{ProposalID: governance.ProposalID(p.id), ValidatorAddress: u.Addr}, txb.Fee("1000000000", 400000), "finalize by an outsider ("+store+")", u)
				sp.Meta = map[string]string{"proposal": p.id}
				out = append(out, sp)
			}
		}
		if g.Strangers && store == "propActive" && rec.Status == int(governance.ProposalStatusVoting) && c.R.Intn(5) == 0 {
			// a validator that was not in the snapshot (staked later) tries to vote
			for _, v := range c.W.Vals {
				if !v.InGenesis {
					out = append(out, g.vote(c, p, v, governance.OPIN_POSITIVE))
					break
				}
			}
		}
		switch p.plan {
		case "pass", "fail", "config", "config0", "expire", "giveup1", "giveup2":
			if store == "propActive" && rec.Status == int(governance.ProposalStatusFunding) {
				switch age {
				case 1:
					out = append(out, g.fund(c, p, us[5%len(us)], "2000000000", "partial funding"))
				case 2:
					out = append(out, g.fund(c, p, us[4], remaining(c, p), "fund to the goal ("+p.plan+")"))
				}
			} else if store == "propActive" && rec.Status == int(governance.ProposalStatusVoting) {
				if p.plan == "expire" {
					// a minority votes, then nothing: must expire after the deadline
					if age == 4 {
						out = append(out, g.vote(c, p, genVals[0], governance.OPIN_POSITIVE))
					}
					if age == 5 {
						// the funding deadline has not passed yet, a vote has been cast: funding is over all the same
						out = append(out, g.fund(c, p, us[5%len(us)], "3", "fund a proposal that is being voted on, at its funding deadline (must fail)"))
					}
					out = append(out, g.lateVoter(c, p)...)
					// an outsider asks for the expiry one block before the deadline, in the block whose height
					// is the deadline, and later: only after the deadline has passed may it succeed
					if c.H == rec.VotingDeadline-1 || c.H == rec.VotingDeadline {
						u := us[2%len(us)]
						sp := BuildFee(c, "EXPIRE_VOTES", &govact.ExpireVotes{ProposalID: governance.ProposalID(p.id), ValidatorAddress: u.Addr}, txb.Fee("1000000000", 400000), fmt.Sprintf("expiry requested by an outsider at height %d, voting deadline %d", c.H, rec.VotingDeadline), u)
						sp.Meta = map[string]string{"proposal": p.id}
						out = append(out, sp)
					}
					continue
				}
				if p.plan == "giveup1" || p.plan == "giveup2" {
					// the strongest validator gives up, the next one (giveup2: the next two) votes no, nobody else
					// votes: the no share counts among those who did not give up
					if age == 4 {
						cancel := Build(c, "PROPOSAL_CANCEL", &govact.CancelProposal{ProposalId: governance.ProposalID(p.id), Proposer: p.proposer.Addr, Reason: "too late"}, "cancel by the proposer while the proposal is being voted on (must fail)", p.proposer)
						cancel.Meta = map[string]string{"proposal": p.id}
						out = append(out, cancel)
						out = append(out, g.vote(c, p, genVals[len(genVals)-1], governance.OPIN_GIVEUP))
					}
					if age == 5 {
						out = append(out, g.vote(c, p, genVals[len(genVals)-2], governance.OPIN_NEGATIVE))
					}
					if age == 6 && p.plan == "giveup2" && len(genVals) > 2 {
						out = append(out, g.vote(c, p, genVals[len(genVals)-3], governance.OPIN_NEGATIVE))
					}
					continue
				}
				op := governance.OPIN_POSITIVE
				if p.plan == "fail" {
					op = governance.OPIN_NEGATIVE
				}
				if age == 4 || age == 6 {
					// the goal was met: nothing may leave escrow before finalisation
					out = append(out, g.withdrawFunds(c, p, us[4], us[4], "7", "withdraw while voting (must fail)"))
				}
				if age == 4 {
					// the funding deadline has not passed yet, votes have been cast: funding is over all the same
					out = append(out, g.fund(c, p, us[5%len(us)], "3", "fund a proposal that is being voted on (must fail)"))
				}
				// one or two validators vote per block, biggest first
				idx := int(age-3) * 2
				for k := idx; k < idx+2 && k >= 0 && k < len(genVals); k++ {
					v := genVals[len(genVals)-1-k]
					o := op
					if k == 2 && p.plan == "pass" {
						o = governance.OPIN_GIVEUP
					}
					out = append(out, g.vote(c, p, v, o))
				}
			} else if store == "propFinalized" || store == "propFinalizeFailed" {
				if !p.recreated {
					// the finished proposal's id is used for a new proposal: ids are used once
					p.recreated = true
					q := *p
					q.fundDl = c.H + 5
					q.typ = governance.ProposalTypeGeneral
					out = append(out, g.create(c, &q, ""))
					out[len(out)-1].Note = "create a proposal under the id of a finalised one (must fail)"
					continue
				}
				p.done = true
			} else if store == "propFailed" && rec.Outcome == int(governance.ProposalOutcomeInsufficientVotes) {
				// expired with its goal met: the funds stay in escrow
				if !p.triedW {
					p.triedW = true
					out = append(out, g.withdrawFunds(c, p, us[4], us[4], "9", "withdraw from an expired proposal that met its goal (must fail)"))
				} else {
					p.done = true
				}
			} else if (store == "propPassed" || store == "propFailed") && !p.triedW {
				// decided, not finalised yet
				p.triedW = true
				if store == "propPassed" && p.plan == "config" {
					// somebody submits the finalisation as an ordinary transaction: every node's mempool
					// check sees it before the block does
					u := us[2%len(us)]
					sp := BuildFee(c, "PROPOSAL_FINALIZE", &govact.FinalizeProposal{ProposalID: governance.ProposalID(p.id), ValidatorAddress: u.Addr}, txb.Fee("1000000000", 400000), "finalisation of a passed configuration proposal submitted as a transaction", u)
					sp.Meta = map[string]string{"proposal": p.id}
					out = append(out, sp)
				}
				out = append(out, g.withdrawFunds(c, p, us[4], us[4], "11", "withdraw from a decided proposal before finalisation (must fail)"))
			}
		case "cancel":
			if store == "propActive" && age == 1 {
				out = append(out, g.fund(c, p, us[5%len(us)], "1500000000", "fund before cancel"))
			}
			if store == "propActive" && age == 2 {
				out = append(out, Build(c, "PROPOSAL_CANCEL", &govact.CancelProposal{ProposalId: governance.ProposalID(p.id), Proposer: p.proposer.Addr, Reason: "changed my mind"}, "cancel", p.proposer))
				out[len(out)-1].Meta = map[string]string{"proposal": p.id}
			}
			if store == "propFailed" {
				// funders take their money back, in two steps for the first
				f := us[5%len(us)]
				if !p.triedW {
					// ... after trying to take out more than they put in (less than the proposal holds in total)
					p.triedW = true
					out = append(out, g.withdrawFunds(c, p, f, f, "2000000000", "withdraw more than the own contribution (must fail)"))
					continue
				}
				mine := AmountAt(c.S, "propFunds_i_"+p.id+"_"+f.Addr.String())
				if mine.Sign() > 0 {
					half := mine.String()
					if age%2 == 0 && mine.Cmp(world.BigFromString("2")) > 0 {
						half = mine.Rsh(mine, 1).String()
					}
					out = append(out, g.withdrawFunds(c, p, f, f, half, "withdraw after cancel"))
				} else if pm := AmountAt(c.S, "propFunds_i_"+p.id+"_"+p.proposer.Addr.String()); pm.Sign() > 0 {
					out = append(out, g.withdrawFunds(c, p, p.proposer, us[0], pm.String(), "proposer withdraws to a beneficiary"))
				} else {
					p.done = true
				}
			}
		case "miss":
			if store == "propActive" && age == 1 {
				out = append(out, g.fund(c, p, us[4], "1234567890", "fund a little (will miss)"))
			}
			if c.H == p.fundDl+1 && store == "propActive" {
				cancel := Build(c, "PROPOSAL_CANCEL", &govact.CancelProposal{ProposalId: governance.ProposalID(p.id), Proposer: p.proposer.Addr, Reason: "too late"}, "cancel by the proposer after the funding deadline (must fail)", p.proposer)
				cancel.Meta = map[string]string{"proposal": p.id}
				out = append(out, cancel)
			}
			if c.H > p.fundDl {
				f := us[4]
				mine := AmountAt(c.S, "propFunds_i_"+p.id+"_"+f.Addr.String())
				if mine.Sign() > 0 {
					out = append(out, g.withdrawFunds(c, p, f, f, mine.String(), "withdraw after missed goal"))
				} else if pm := AmountAt(c.S, "propFunds_i_"+p.id+"_"+p.proposer.Addr.String()); pm.Sign() > 0 {
					out = append(out, g.withdrawFunds(c, p, p.proposer, p.proposer, pm.String(), "proposer withdraws after missed goal"))
				} else {
					p.done = true
				}
			} else if age == 3 {
				// too early: must fail
				out = append(out, g.withdrawFunds(c, p, us[4], us[4], "5", "withdraw before the funding deadline (must fail)"))
			}
		}
	}
	return out
}

// lateVoter lets a candidate stake in after the voting of p began and vote three blocks later: it is not
// among the validators snapshotted for p, so its vote must be refused.
func (g *Governance) lateVoter(c *Ctx, p *prop) []hist.TxSpec {
	var out []hist.TxSpec
	var late *world.Validator
	for _, v := range c.W.Vals {
		if !v.InGenesis {
			late = v
		}
	}
	if late == nil {
		return nil
	}
	if p.lateAt == 0 {
		p.lateAt = c.H
		if StakeOf(c.S, late.ValAddr).Sign() == 0 {
			out = append(out, (&Staking{}).stake(c, late, c.W.P.MinSelfDelegation+777, "a candidate stakes in after voting began"))
		}
	} else if c.H >= p.lateAt+3 && !p.lateVoted {
		p.lateVoted = true
		sp := g.vote(c, p, late, governance.OPIN_POSITIVE)
		sp.Note = "vote by a validator that joined after the snapshot (must fail)"
		out = append(out, sp)
	}
	return out
}

func (g *Governance) Observe(c *Ctx, blk *hist.Block) {}

var _ = strings.Split

// ConfigProposalBlocks builds, for a chain at height h, the blocks that carry a configuration proposal with
// the given update through its life: creation, funding to the goal, yes votes of every genesis validator, and
// three empty blocks for the finalisation. Used as prelude of probes: if the option validation refuses the
// proposal at creation, the later transactions simply fail.
func ConfigProposalBlocks(w *world.World, s hist.State, h int64, tag, update string) [][][]byte {
	us := w.Users
	id := PropID("cfgprobe/" + tag + "/" + update + fmt.Sprint(h))
	goal, _ := balance.NewAmountFromString(w.P.PropFundingGoal, 10)
	optVoting, pass := w.P.VotingDeadline, 51
	if o := propOptionOf(s, governance.ProposalTypeConfigUpdate); o != nil {
		optVoting, pass = o.VotingDeadline, o.PassPercentage
	}
	fundDl := h + 1 + 5
	proposer := us[3%len(us)]
	create := txb.Tx(&govact.CreateProposal{ProposalID: governance.ProposalID(id), ProposalType: governance.ProposalTypeConfigUpdate, Headline: "h " + tag, Description: "d " + update, Proposer: proposer.Addr,
		InitialFunding: txb.Amt("OLT", w.P.PropInitialFund), FundingDeadline: fundDl, FundingGoal: goal, VotingDeadline: fundDl + optVoting, PassPercentage: pass, ConfigUpdate: update}, txb.DefaultFee(), "cfgprobe-create-"+tag+fmt.Sprint(h), proposer)
	fund := txb.Tx(&govact.FundProposal{ProposalId: governance.ProposalID(id), FunderAddress: us[4%len(us)].Addr, FundValue: txb.Amt("OLT", new(big.Int).Sub(world.BigFromString(w.P.PropFundingGoal), world.BigFromString(w.P.PropInitialFund)).String())}, txb.DefaultFee(), "cfgprobe-fund-"+tag+fmt.Sprint(h), us[4%len(us)])
	var votes [][]byte
	for _, v := range w.Vals {
		if v.InGenesis {
			votes = append(votes, txb.Tx(&govact.VoteProposal{ProposalID: governance.ProposalID(id), Address: v.Stake.Addr, ValidatorAddress: v.ValAddr, Opinion: governance.OPIN_POSITIVE}, txb.DefaultFee(), "cfgprobe-vote-"+tag+v.Name+fmt.Sprint(h), &v.Stake, ConsAccount(v)))
		}
	}
	return [][][]byte{{create}, {fund}, votes, {}, {}, {}}
}

// FailingFeeConfigCreate: a configuration proposal that would raise the minimum fee is created under an id
// that is taken already (so it fails, after its options were looked at), and right behind it comes an ordinary
// transfer paying the fee price that is the minimum today.
func FailingFeeConfigCreate(c *Ctx, tag string) []hist.TxSpec {
	us := c.W.Users
	id := PropID("c06fee/" + tag)
	goal, _ := balance.NewAmountFromString(c.W.P.PropFundingGoal, 10)
	optVoting, pass := c.W.P.VotingDeadline, 51
	if o := propOptionOf(c.S, governance.ProposalTypeConfigUpdate); o != nil {
		optVoting, pass = o.VotingDeadline, o.PassPercentage
	}
	proposer := us[3%len(us)]
	msg := &govact.CreateProposal{ProposalID: governance.ProposalID(id), ProposalType: governance.ProposalTypeConfigUpdate, Headline: "h fee", Description: "d fee", Proposer: proposer.Addr,
		InitialFunding: txb.Amt("OLT", c.W.P.PropInitialFund), FundingDeadline: c.H + 5, FundingGoal: goal, VotingDeadline: c.H + 5 + optVoting, PassPercentage: pass, ConfigUpdate: "feeOption.minFeeDecimal:8"}
	note := "create a configuration proposal that raises the minimum fee"
	if _, rec := FindProposal(c.S, id); rec != nil {
		note = "create a configuration proposal that raises the minimum fee, under an id that is taken (must fail)"
	}
	create := Build(c, "PROPOSAL_CREATE", msg, note, proposer)
	create.Meta = map[string]string{"proposal": id, "amount": c.W.P.PropInitialFund, "funder": proposer.Addr.String()}
	send := Build(c, "SEND", txb.Send(us[2].Addr, us[1].Addr, "OLT", "3"), "transfer at today's minimum fee price right behind the proposal", us[2])
	return []hist.TxSpec{create, send}
}
