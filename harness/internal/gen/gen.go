// Package gen holds the workload generators: subsystem scripts that plan the
// transactions of the next block from the committed state, a seeded PRNG and
// the results of what they planned before. A script always starts with a
// directed part that performs each of its transaction kinds (so coverage gates
// are met by construction) and continues with seeded random traffic.
package gen

import (
	"encoding/base64"
	"encoding/json"
	"fmt"
	"math/big"
	"math/rand"
	"strings"

	"github.com/Oneledger/protocol/action"
	"github.com/Oneledger/protocol/data/keys"

	"olverif/internal/hist"
	"olverif/internal/txb"
	"olverif/internal/world"
)

// Ctx is what a script sees when it plans block H.
type Ctx struct {
	W      *world.World
	R      *rand.Rand
	H      int64      // height being planned
	S      hist.State // committed state after block H-1
	Memo   *txb.Memo
	TimeMs int64                         // time of block H-1
	Vals   []string                      // 0lt addresses of validators currently in Tendermint's set (may be nil)
	FeeFn  func(kind string) *action.Fee // optional fee override (nil result = default)
}

// Script plans transactions block by block.
type Script interface {
	Name() string
	Plan(c *Ctx) []hist.TxSpec
	Observe(c *Ctx, blk *hist.Block)
}

// Spec is a convenience constructor.
func Spec(kind string, bytes []byte, note string, signers ...string) hist.TxSpec {
	return hist.TxSpec{Kind: kind, Bytes: bytes, Note: note, Signers: signers}
}

func addrs(as ...*world.Account) []string {
	var out []string
	for _, a := range as {
		out = append(out, a.Addr.String())
	}
	return out
}

// ConsAccount turns a validator's consensus key into a signing account.
func ConsAccount(v *world.Validator) *world.Account {
	priv, err := keys.GetPrivateKeyFromBytes(v.Cons[:], keys.ED25519)
	if err != nil {
		panic(err)
	}
	h, _ := priv.GetHandler()
	return &world.Account{Name: v.Name + ".cons", Priv: priv, Pub: h.PubKey(), Addr: v.ValAddr}
}

// Build makes a signed transaction and its spec in one go.
func Build(c *Ctx, kind string, msg action.Msg, note string, signers ...*world.Account) hist.TxSpec {
	fee := txb.DefaultFee()
	if c.FeeFn != nil {
		if f := c.FeeFn(kind); f != nil {
			sp := BuildFee(c, kind, msg, *f, note, signers...)
			sp.Trait = fmt.Sprintf("gas=%d", f.Gas)
			sp.Field = "fee"
			return sp
		}
	}
	return BuildFee(c, kind, msg, fee, note, signers...)
}

func BuildFee(c *Ctx, kind string, msg action.Msg, fee action.Fee, note string, signers ...*world.Account) hist.TxSpec {
	bz := txb.Tx(msg, fee, c.Memo.Next(), signers...)
	return hist.TxSpec{Kind: kind, Bytes: bz, Note: note, Signers: addrs(signers...)}
}

// --- reading the committed state -----------------------------------------

// BalanceOf reads b_<addr>_<cur> from a state (0 if absent).
func BalanceOf(s hist.State, addr keys.Address, cur string) *big.Int {
	return AmountAt(s, "b_"+addr.String()+"_"+cur)
}

// AmountAt parses a JSON-string-wrapped decimal at key (0 if absent/bad).
func AmountAt(s hist.State, key string) *big.Int {
	v, ok := s[key]
	if !ok {
		return new(big.Int)
	}
	return ParseAmount(v)
}

func ParseAmount(v []byte) *big.Int {
	var str string
	if err := json.Unmarshal(v, &str); err != nil {
		str = strings.Trim(string(v), "\"")
	}
	b, ok := new(big.Int).SetString(str, 10)
	if !ok {
		return new(big.Int)
	}
	return b
}

func pick(r *rand.Rand, n int) int {
	if n <= 0 {
		return 0
	}
	return r.Intn(n)
}

var e18 = new(big.Int).Exp(big.NewInt(10), big.NewInt(18), nil)

// OLT converts whole OLT to nue as a decimal string.
func OLT(n int64) string {
	return new(big.Int).Mul(big.NewInt(n), e18).String()
}

// coinAmountAt parses a persisted balance.Coin record and returns its amount.
func coinAmountAt(s hist.State, key string) *big.Int {
	v, ok := s[key]
	if !ok {
		return new(big.Int)
	}
	return ParseCoin(v)
}

// ParseCoin extracts the amount of a persisted balance.Coin.
func ParseCoin(v []byte) *big.Int {
	var c struct {
		Amount string `json:"amount"`
	}
	if err := json.Unmarshal(v, &c); err != nil {
		return new(big.Int)
	}
	// the amount travels as base64 of the JSON string form of the number
	if raw, err := base64.StdEncoding.DecodeString(c.Amount); err == nil {
		return ParseAmount(raw)
	}
	b, ok := new(big.Int).SetString(c.Amount, 10)
	if !ok {
		return new(big.Int)
	}
	return b
}

// KeeperNonce reads the EVM account record of an address.
func KeeperNonce(s hist.State, addr keys.Address) (uint64, bool) {
	v, ok := s["keeper_"+string(addr)]
	if !ok {
		return 0, false
	}
	var rec struct {
		Nonce uint64 `json:"sequence"`
	}
	if err := json.Unmarshal(v, &rec); err != nil {
		return 0, false
	}
	return rec.Nonce, true
}
