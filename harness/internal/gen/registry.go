package gen

// ByNames instantiates scripts by name.
func ByNames(names []string) []Script {
	var out []Script
	for _, n := range names {
		switch n {
		case "transfers":
			out = append(out, &Transfers{})
		case "staking":
			out = append(out, &Staking{})
		case "delegation-drain":
			out = append(out, &Delegation{Drain: true})
		case "delegation":
			out = append(out, &Delegation{})
		case "valrewards":
			out = append(out, &ValRewards{})
		case "governance-strangers":
			out = append(out, &Governance{Tag: "gs", Strangers: true})
		case "governance":
			out = append(out, &Governance{Tag: "g"})
		case "eth-hostile":
			out = append(out, &Eth{Tag: "eh", Liars: true, Dupes: true})
		case "eth":
			out = append(out, &Eth{Tag: "e"})
		case "evidence":
			out = append(out, &Evidence{Tag: "ev"})
		case "olvm-one":
			out = append(out, &OLVM{OneTx: true})
		case "olvm-mixed":
			out = append(out, &OLVM{Mixed: true})
		case "olvm":
			out = append(out, &OLVM{})
		case "staking-exit":
			out = append(out, &Staking{Exit: true})
		case "stakingb":
			out = append(out, &Staking{Boundary: true})
		case "ons":
			out = append(out, &ONS{Tag: "o"})
		case "bid":
			out = append(out, &Bid{Tag: "b"})
		}
	}
	return out
}
