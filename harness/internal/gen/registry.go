package gen

// ByNames instantiates scripts by name.
func ByNames(names []string) []Script {
	var out []Script
	for _, n := range names {
		switch n {
		case "transfers":
			out = append(out, &Transfers{})
		case "staking":
			out = append(out, &Staking{})
		case "delegation":
			out = append(out, &Delegation{})
		case "valrewards":
			out = append(out, &ValRewards{})
		case "governance":
			out = append(out, &Governance{Tag: "g"})
		case "stakingb":
			out = append(out, &Staking{Boundary: true})
		}
	}
	return out
}
