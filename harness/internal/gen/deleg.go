package gen

import (
	"fmt"
	"math/big"
	"sort"

	netdel "github.com/Oneledger/protocol/action/network_delegation"
	rew "github.com/Oneledger/protocol/action/rewards"

	"olverif/internal/hist"
	"olverif/internal/txb"
	"olverif/internal/world"
)

// Delegation: ADD_NETWORK_DELEGATE, NETWORK_UNDELEGATE, reward withdraw and
// reinvest by several delegators, several operations per block and delegator.
type Delegation struct {
	Drain     bool // every delegator leaves the pool while a reward withdrawal is pending
	lastWhole string
	n         int
}

func (d *Delegation) Name() string { return "delegation" }

func ActiveDeleg(s hist.State, a *world.Account) *big.Int {
	return coinAmountAt(s, "deleg_a_"+a.Addr.String())
}

func DelegRewardBalance(s hist.State, a *world.Account) *big.Int {
	return AmountAt(s, "delegRwz_balance_"+a.Addr.String())
}

func (d *Delegation) Plan(c *Ctx) []hist.TxSpec {
	d.n++
	us := c.W.Users
	var out []hist.TxSpec
	del := func(a *world.Account, amt string, note string) {
		sp := Build(c, "ADD_NETWORK_DELEGATE", &netdel.AddNetworkDelegation{DelegationAddress: a.Addr, Amount: txb.Amt("OLT", amt)}, note, a)
		sp.Meta = map[string]string{"delegator": a.Addr.String(), "amount": amt}
		out = append(out, sp)
	}
	undel := func(a *world.Account, amt string, note string) {
		sp := Build(c, "NETWORK_UNDELEGATE", &netdel.Undelegate{Delegator: a.Addr, Amount: txb.Amt("OLT", amt)}, note, a)
		sp.Meta = map[string]string{"delegator": a.Addr.String(), "amount": amt}
		out = append(out, sp)
	}
	wd := func(a *world.Account, amt string, note string) {
		sp := Build(c, "REWARDS_WITHDRAW_NETWORK_DELEGATE", &netdel.Withdraw{Delegator: a.Addr, Amount: txb.Amt("OLT", amt)}, note, a)
		sp.Meta = map[string]string{"delegator": a.Addr.String(), "amount": amt}
		out = append(out, sp)
	}
	ri := func(a *world.Account, amt string, note string) {
		sp := Build(c, "REWARDS_REINVEST_NETWORK_DELEGATE", &netdel.Reinvest{Delegator: a.Addr, Amount: txb.Amt("OLT", amt)}, note, a)
		sp.Meta = map[string]string{"delegator": a.Addr.String(), "amount": amt}
		out = append(out, sp)
	}
	if d.Drain {
		// a reward withdrawal is pending while every delegator takes everything out: the delegation pool is
		// empty at the block in which the withdrawal matures
		switch d.n {
		case 1:
			del(us[0], OLT(2000000), "delegate")
			del(us[1], OLT(500000), "delegate")
		case 4, 16, 28:
			// (both withdrawals mature in the same block; the delegator whose address sorts last asks for less)
			ws := []*world.Account{us[0], us[1]}
			sort.Slice(ws, func(i, j int) bool { return ws[i].Addr.String() < ws[j].Addr.String() })
			for k, u := range ws {
				if b := DelegRewardBalance(c.S, u); b.Sign() > 0 {
					wd(u, new(big.Int).Div(b, big.NewInt(int64(2+7*k))).String(), "withdraw part of the accrued rewards (everybody leaves the pool before it matures)")
				}
			}
		case 5, 17, 29:
			for _, u := range []*world.Account{us[0], us[1]} {
				if act := ActiveDeleg(c.S, u); act.Sign() > 0 {
					undel(u, act.String(), "undelegate everything")
				}
			}
		case 11, 23, 35:
			del(us[0], OLT(1000000), "delegate again")
			del(us[1], OLT(300000), "delegate again")
		}
		return out
	}
	switch d.n {
	case 3:
		del(us[2], OLT(90000), "delegate")
		del(us[3], OLT(80000), "delegate")
		return out
	case 6:
		// one zero-amount undelegation next to real ones in the same block; the zero one comes from the
		// delegator whose address sorts first, so that every other pending entry of the block sorts after it
		ds := []*world.Account{us[0], us[1], us[2], us[3]}
		sort.Slice(ds, func(i, j int) bool { return ds[i].Addr.String() < ds[j].Addr.String() })
		undel(ds[0], "0", "undelegate nothing (amount 0)")
		for _, u := range ds[1:] {
			if act := ActiveDeleg(c.S, u); act.Sign() > 0 {
				undel(u, OLT(25), "undelegate in the block of somebody's zero-amount undelegation")
			}
		}
		return out
	case 1:
		del(us[0], OLT(2000000), "delegate")
		del(us[1], OLT(500000), "delegate")
		del(us[0], OLT(1), "second delegation in the same block")
		return out
	case 2:
		undel(us[0], OLT(700), "undelegate")
		undel(us[0], OLT(300), "second undelegation, same block")
		undel(us[1], OLT(40), "undelegate")
		return out
	case 4:
		// a withdrawal of nothing by the delegator whose address sorts first, in front of the real ones of the block
		{
			ds := []*world.Account{us[0], us[1], us[2], us[3]}
			sort.Slice(ds, func(i, j int) bool { return ds[i].Addr.String() < ds[j].Addr.String() })
			wd(ds[0], "0", "withdraw no rewards (amount 0) in the block of other delegators' withdrawals")
			for _, u := range ds[1:] {
				if u != us[0] {
					if b := DelegRewardBalance(c.S, u); b.Sign() > 0 {
						if part := new(big.Int).Div(b, big.NewInt(5)); part.Sign() > 0 {
							wd(u, part.String(), "withdraw a fifth of the accrued rewards")
						}
					}
				}
			}
		}
		if b := DelegRewardBalance(c.S, us[0]); b.Sign() > 0 {
			half := new(big.Int).Div(b, big.NewInt(2))
			if half.Sign() > 0 {
				wd(us[0], half.String(), "withdraw half the accrued rewards")
			}
		}
		// ... and a reinvestment of more than has accrued, and one by somebody who has no rewards at all
		if b := DelegRewardBalance(c.S, us[2]); true {
			ri(us[2], new(big.Int).Add(b, big.NewInt(1000000)).String(), "reinvest more than the accrued rewards (must fail)")
			ri(us[5%len(us)], "777", "reinvest by an account without rewards (must fail)")
		}
		if b := DelegRewardBalance(c.S, us[1]); b.Sign() > 0 {
			ri(us[1], new(big.Int).Div(b, big.NewInt(3)).String(), "reinvest a third of the accrued rewards")
		}
		return out
	}
	if d.n == 5 || d.n == 7 || d.n == 8 {
		// further reward withdrawals of the same delegator while the first one is still maturing (one, three
		// and four blocks after it): each has its own maturity height
		if b := DelegRewardBalance(c.S, us[0]); b.Sign() > 0 {
			if part := new(big.Int).Div(b, big.NewInt(int64(3+d.n))); part.Sign() > 0 {
				wd(us[0], part.String(), "another reward withdrawal while an earlier one is still maturing")
			}
		}
		return out
	}
	if !d.Drain && len(us) > 3 {
		// a delegator leaves the pool (its rewards stop accruing), then withdraws exactly everything that has
		// accrued, then asks for the same amount again
		switch d.n {
		case 9:
			if act := ActiveDeleg(c.S, us[3]); act.Sign() > 0 {
				undel(us[3], act.String(), "undelegate exactly everything (the rewards stop accruing)")
			}
			return out
		case 10, 11:
			if ActiveDeleg(c.S, us[3]).Sign() == 0 {
				if b := DelegRewardBalance(c.S, us[3]); b.Sign() > 0 {
					wd(us[3], b.String(), "withdraw exactly the whole accrued reward balance")
				} else if d.n == 11 && d.lastWhole != "" {
					wd(us[3], d.lastWhole, "withdraw the same amount again after everything was withdrawn (must fail)")
				}
				if b := DelegRewardBalance(c.S, us[3]); b.Sign() > 0 {
					d.lastWhole = b.String()
				}
			}
			return out
		}
	}
	if d.n < 4 || c.R.Intn(2) == 0 {
		return out
	}
	k := 1 + c.R.Intn(2)
	for i := 0; i < k; i++ {
		a := us[pick(c.R, 4)]
		act := ActiveDeleg(c.S, a)
		rb := DelegRewardBalance(c.S, a)
		switch c.R.Intn(6) {
		case 0, 1:
			del(a, fmt.Sprint(1+c.R.Int63n(1e18)), "delegate")
		case 2, 3:
			if act.Sign() > 0 {
				amt := new(big.Int).Rand(c.R, act)
				amt.Add(amt, big.NewInt(1))
				if c.R.Intn(6) == 0 {
					amt.Add(act, big.NewInt(1)) // one more than active: must fail
				}
				undel(a, amt.String(), "undelegate")
			}
		case 4:
			if rb.Sign() > 0 {
				amt := new(big.Int).Rand(c.R, rb)
				amt.Add(amt, big.NewInt(1))
				if c.R.Intn(6) == 0 {
					amt.Add(rb, big.NewInt(1))
				}
				wd(a, amt.String(), "withdraw rewards")
			}
		case 5:
			if rb.Sign() > 0 {
				amt := new(big.Int).Rand(c.R, rb)
				amt.Add(amt, big.NewInt(1))
				ri(a, amt.String(), "reinvest rewards")
			}
		}
	}
	return out
}

func (d *Delegation) Observe(c *Ctx, blk *hist.Block) {}

// ValRewards: validators withdraw matured block rewards.
type ValRewards struct{ n int }

func (v *ValRewards) Name() string { return "valrewards" }

func (v *ValRewards) Plan(c *Ctx) []hist.TxSpec {
	v.n++
	var out []hist.TxSpec
	for i, val := range c.W.Vals {
		if !val.InGenesis {
			continue
		}
		matured := AmountAt(c.S, "rwcum_balance_"+val.ValAddr.String())
		whole := new(big.Int).Div(matured, e18)
		if whole.Sign() <= 0 {
			continue
		}
		if !(v.n%4 == i%4) {
			continue
		}
		amt := new(big.Int).Rand(c.R, whole)
		amt.Add(amt, big.NewInt(1))
		if c.R.Intn(5) == 0 {
			amt.Add(whole, big.NewInt(1)) // more than matured: must fail
		}
		sp := Build(c, "WITHDRAW_REWARD", &rew.Withdraw{ValidatorAddress: val.ValAddr, SignerAddress: val.Stake.Addr, WithdrawAmount: txb.Amt("OLT", amt.String())}, "withdraw validator rewards", &val.Stake)
		sp.Meta = map[string]string{"validator": val.ValAddr.String(), "amount": amt.String()}
		out = append(out, sp)
	}
	return out
}

func (v *ValRewards) Observe(c *Ctx, blk *hist.Block) {}
