package gen

import (
	"encoding/binary"
	"encoding/json"
	"fmt"
	"math/big"
	"strings"

	onsact "github.com/Oneledger/protocol/action/ons"
	"github.com/Oneledger/protocol/data/ons"

	"olverif/internal/hist"
	"olverif/internal/txb"
	"olverif/internal/world"
)

// ONS drives the domain-name subsystem: create (short- and long-lived names,
// sub-domains), update, sale / cancelled sale / sale, purchase at exactly the
// asking price, renew, send-to-name, delete-sub, purchase of an expired name;
// then seeded traffic by owners and strangers on existing and missing names.
type ONS struct {
	n     int
	cnt   int
	done  [12]bool
	track [12]int
	Tag   string
	// top-level names this script created (or tried to), in creation order
	names              []string
	relisted, lowOffer bool
	g                  int // progress of the gamma track (sub-domain created in the block of its parent's purchase)
}

func (o *ONS) Name() string { return "ons" }

// ---- reading the committed state ----------------------------------------

// DomainKey is the state key of a domain record: the store prefix followed by
// the reversed name (data/ons/types.go toKey).
func DomainKey(name string) string {
	r := []rune(name)
	for i, j := 0, len(r)-1; i < j; i, j = i+1, j-1 {
		r[i], r[j] = r[j], r[i]
	}
	return "d_" + string(r)
}

// DomainRecord is the persisted form of a domain (data/ons/domain_data.go).
type DomainRecord struct {
	Owner       string `json:"a"`
	Beneficiary string `json:"b"`
	Name        string `json:"c"`
	Creation    int64  `json:"d"`
	LastUpdate  int64  `json:"e"`
	Expire      int64  `json:"f"`
	Active      bool   `json:"g"`
	OnSale      bool   `json:"h"`
	SalePrice   []byte `json:"i"` // JSON string with the decimal price (base64 in the record)
	URI         string `json:"k"`
}

// Price is the asking price (0 when not on sale).
func (d *DomainRecord) Price() *big.Int {
	if len(d.SalePrice) == 0 {
		return new(big.Int)
	}
	return ParseAmount(d.SalePrice)
}

// FindDomain reads a domain record from a state (nil if absent).
func FindDomain(s hist.State, name string) *DomainRecord {
	v, ok := s[DomainKey(name)]
	if !ok {
		return nil
	}
	r := &DomainRecord{}
	if err := json.Unmarshal(v, r); err != nil {
		return nil
	}
	return r
}

// ONSOptions reads the governance-controlled base price and per-block fee that
// are in force (they may be changed by a config-update proposal); the genesis
// values are the fallback.
func ONSOptions(c *Ctx) (base, perBlock *big.Int) {
	base = world.BigFromString(c.W.P.BaseDomainPrice)
	perBlock = world.BigFromString(c.W.P.PerBlockFees)
	luh, ok := c.S["g_onsOptions_defaultOptions"]
	if !ok || len(luh) != 8 {
		return
	}
	h := int64(binary.LittleEndian.Uint64(luh))
	v, ok := c.S["g_"+string(rune(h))+"_onsopt"]
	if !ok {
		return
	}
	var opt struct {
		PerBlockFees    string `json:"perBlockFees"`
		BaseDomainPrice string `json:"baseDomainPrice"`
	}
	if json.Unmarshal(v, &opt) != nil {
		return
	}
	if b, ok := new(big.Int).SetString(opt.BaseDomainPrice, 10); ok && b.Sign() > 0 {
		base = b
	}
	if p, ok := new(big.Int).SetString(opt.PerBlockFees, 10); ok && p.Sign() > 0 {
		perBlock = p
	}
	return
}

// priceFor = base + blocks*perBlock: what a top-level name living `blocks`
// blocks costs (action/ons/create.go calculateExpiry).
func priceFor(c *Ctx, blocks int64) string {
	base, pb := ONSOptions(c)
	return new(big.Int).Add(base, new(big.Int).Mul(pb, big.NewInt(blocks))).String()
}

func blocksFee(c *Ctx, blocks int64) string {
	_, pb := ONSOptions(c)
	return new(big.Int).Mul(pb, big.NewInt(blocks)).String()
}

func userByAddr(c *Ctx, addr string) *world.Account {
	for _, u := range c.W.Users {
		if u.Addr.String() == addr {
			return u
		}
	}
	return nil
}

// ---- transaction builders -----------------------------------------------

func onsCreate(c *Ctx, who, benef *world.Account, name, price, uri, note string) hist.TxSpec {
	msg := &onsact.DomainCreate{Owner: who.Addr, Name: ons.Name(name), Uri: uri, BuyingPrice: txb.Amt("OLT", price)}
	meta := map[string]string{"name": name, "price": price, "owner": who.Addr.String(), "beneficiary": who.Addr.String(), "uri": uri}
	if benef != nil {
		msg.Beneficiary = benef.Addr
		meta["beneficiary"] = benef.Addr.String()
	}
	sp := Build(c, "DOMAIN_CREATE", msg, note, who)
	sp.Meta = meta
	return sp
}

func onsUpdate(c *Ctx, who, benef *world.Account, name string, active bool, uri, note string) hist.TxSpec {
	msg := &onsact.DomainUpdate{Owner: who.Addr, Name: ons.Name(name), Active: active, Uri: uri}
	meta := map[string]string{"name": name, "owner": who.Addr.String(), "beneficiary": "", "active": fmt.Sprint(active), "uri": uri}
	if benef != nil {
		msg.Beneficiary = benef.Addr
		meta["beneficiary"] = benef.Addr.String()
	}
	sp := Build(c, "DOMAIN_UPDATE", msg, note, who)
	sp.Meta = meta
	return sp
}

func onsSell(c *Ctx, who *world.Account, name, price string, cancel bool, note string) hist.TxSpec {
	msg := &onsact.DomainSale{Name: ons.Name(name), OwnerAddress: who.Addr, Price: txb.Amt("OLT", price), CancelSale: cancel}
	sp := Build(c, "DOMAIN_SELL", msg, note, who)
	sp.Meta = map[string]string{"name": name, "owner": who.Addr.String(), "price": price, "cancel": fmt.Sprint(cancel)}
	return sp
}

func onsPurchase(c *Ctx, who, account *world.Account, name, offering, note string) hist.TxSpec {
	msg := &onsact.DomainPurchase{Name: ons.Name(name), Buyer: who.Addr, Offering: txb.Amt("OLT", offering)}
	meta := map[string]string{"name": name, "buyer": who.Addr.String(), "price": offering, "beneficiary": ""}
	if account != nil {
		msg.Account = account.Addr
		meta["beneficiary"] = account.Addr.String()
	}
	sp := Build(c, "DOMAIN_PURCHASE", msg, note, who)
	sp.Meta = meta
	return sp
}

func onsSend(c *Ctx, who *world.Account, name, amount, note string) hist.TxSpec {
	msg := &onsact.DomainSend{From: who.Addr, Name: ons.Name(name), Amount: txb.Amt("OLT", amount)}
	sp := Build(c, "DOMAIN_SEND", msg, note, who)
	sp.Meta = map[string]string{"name": name, "from": who.Addr.String(), "amount": amount}
	// who receives it if the transaction succeeds: the beneficiary on record
	if d := FindDomain(c.S, name); d != nil {
		sp.Meta["beneficiary"] = d.Beneficiary
	}
	return sp
}

func onsRenew(c *Ctx, who *world.Account, name, price, note string) hist.TxSpec {
	msg := &onsact.RenewDomain{Owner: who.Addr, Name: ons.Name(name), BuyingPrice: txb.Amt("OLT", price)}
	sp := Build(c, "DOMAIN_RENEW", msg, note, who)
	sp.Meta = map[string]string{"name": name, "owner": who.Addr.String(), "price": price}
	return sp
}

func onsDeleteSub(c *Ctx, who *world.Account, name, note string) hist.TxSpec {
	msg := &onsact.DeleteSub{Name: ons.Name(name), Owner: who.Addr}
	sp := Build(c, "DOMAIN_DELETE_SUB", msg, note, who)
	sp.Meta = map[string]string{"name": name, "owner": who.Addr.String()}
	return sp
}

// ---- the directed part ----------------------------------------------------

func (o *ONS) alpha() string { return "alpha" + o.Tag + ".ol" }
func (o *ONS) beta() string  { return "beta" + o.Tag + ".ol" }
func (o *ONS) sub() string   { return "sub." + o.beta() }

// alphaLife is how many blocks the short-lived name is paid for.
const alphaLife = 16

// changeable: a change of d is admitted into block c.H. The handlers demand
// header height >= lastUpdateHeight+1, and admission (CheckTx) still runs
// under the header of block c.H-1.
func changeable(c *Ctx, d *DomainRecord) bool {
	return d != nil && d.LastUpdate+1 <= c.H-1
}

// directed plays every step whose precondition is visible in the committed
// state, each once: three tracks (the short-lived alpha, the traded beta,
// their sub-domains) advance side by side. Steps marked "must fail" are put
// into the block without admission now and then, so that the failing path of
// DeliverTx runs as well.
func (o *ONS) directed(c *Ctx) (out []hist.TxSpec) {
	us := c.W.Users
	alpha, beta, sub := o.alpha(), o.beta(), o.sub()
	salpha := "s." + alpha
	a, b := FindDomain(c.S, alpha), FindDomain(c.S, beta)
	version := c.H - 1 // ctx.State.Version() while block H executes
	add := func(sp hist.TxSpec) { out = append(out, sp) }
	forced := func(sp hist.TxSpec) { sp.Force = true; out = append(out, sp) }
	once := func(step int, when bool) bool {
		if o.done[step] || !when {
			return false
		}
		for i := 0; i < step; i++ {
			// a step never overtakes an earlier step of its own track
			if !o.done[i] && o.track[i] == o.track[step] {
				return false
			}
		}
		o.done[step] = true
		return true
	}
	if once(0, true) {
		o.names = append(o.names, beta)
		add(onsCreate(c, us[0], nil, alpha, priceFor(c, alphaLife), "", fmt.Sprintf("create a name that lives %d blocks", alphaLife)))
		add(onsCreate(c, us[1], us[1], beta, priceFor(c, 100000), "https://beta.example/", "create a long-lived name"))
	}
	if once(1, a != nil && b != nil) {
		add(onsCreate(c, us[0], nil, salpha, priceFor(c, 1), "", "owner creates a sub-domain"))
		add(onsCreate(c, us[1], us[4], sub, priceFor(c, 1), "", "owner creates a sub-domain"))
		forced(onsCreate(c, us[3], nil, "x."+beta, priceFor(c, 1), "", "stranger creates a sub-domain (must fail)"))
	}
	// --- track alpha
	if once(2, changeable(c, a)) {
		add(onsUpdate(c, us[0], us[5], alpha, true, "ipfs://alpha", "owner sets beneficiary and uri"))
		add(onsUpdate(c, us[2], us[2], alpha, true, "", "stranger updates (must fail)"))
	}
	if once(3, changeable(c, a) && a.Beneficiary == us[5].Addr.String()) {
		add(onsSend(c, us[4], alpha, OLT(3), "send OLT to a name"))
		add(onsDeleteSub(c, us[0], salpha, "owner deletes a sub-domain"))
		// listed at a price nobody pays: the name will expire while it is on sale
		add(onsSell(c, us[0], alpha, OLT(900000), false, "owner lists the short-lived name (it expires while listed)"))
	}
	if once(4, a != nil && version == a.Expire) {
		forced(onsPurchase(c, us[3], us[3], alpha, priceFor(c, 5), "purchase in the last block before expiry (must fail)"))
	}
	if once(5, a != nil && version > a.Expire) {
		base, _ := ONSOptions(c)
		add(onsRenew(c, us[0], alpha, blocksFee(c, 20), "renew an expired name (must fail)"))
		add(onsPurchase(c, us[3], us[3], alpha, base.String(), "purchase an expired name at the base price"))
		// in the same block, after the purchase: somebody offers the previous owner's stale asking price
		add(onsPurchase(c, us[2], us[2], alpha, OLT(900000), "offer the previous owner's asking price for a name that was just bought (must fail)"))
		o.names = append(o.names, alpha)
	}
	// --- track beta
	if once(6, changeable(c, b) && !b.OnSale) {
		add(onsSell(c, us[1], beta, OLT(500), false, "owner puts the name on sale"))
		add(onsSell(c, us[3], alpha, OLT(5), false, "stranger puts a name on sale (must fail)"))
	}
	if once(7, changeable(c, b) && b.OnSale) {
		add(onsSend(c, us[3], beta, OLT(1), "send to a name on sale (must fail)"))
		add(onsSell(c, us[1], beta, OLT(500), true, "owner cancels the sale"))
	}
	if once(8, changeable(c, b) && !b.OnSale) {
		add(onsSell(c, us[1], beta, OLT(400), false, "owner puts the name on sale again"))
	}
	if once(9, b != nil && b.OnSale) {
		price := b.Price()
		below := new(big.Int).Sub(price, big.NewInt(1))
		forced(onsPurchase(c, us[3], us[3], beta, below.String(), "offer one nue below the asking price (must fail)"))
		add(onsPurchase(c, us[2], us[5], beta, price.String(), "purchase at exactly the asking price"))
	}
	if once(10, changeable(c, b) && b.Owner == us[2].Addr.String()) {
		forced(onsRenew(c, us[1], beta, blocksFee(c, 50), "previous owner renews (must fail)"))
		add(onsRenew(c, us[2], beta, blocksFee(c, 50), "new owner renews for 50 blocks"))
		if FindDomain(c.S, sub) == nil {
			add(onsCreate(c, us[2], us[4], sub, priceFor(c, 1), "", "new owner creates the sub-domain again"))
		}
	}
	if once(11, changeable(c, b) && changeable(c, FindDomain(c.S, sub))) {
		add(onsSend(c, us[3], beta, OLT(2), "send OLT to the purchased name"))
		add(onsSend(c, us[0], sub, OLT(1), "send OLT to a sub-domain"))
		forced(onsDeleteSub(c, us[1], sub, "previous owner deletes the sub-domain (must fail)"))
		add(onsDeleteSub(c, us[2], sub, "owner deletes the sub-domain"))
	}
	return out
}

// ---- random traffic ---------------------------------------------------------

func (o *ONS) newName() string {
	o.cnt++
	n := fmt.Sprintf("n%s%d.ol", o.Tag, o.cnt)
	o.names = append(o.names, n)
	return n
}

// pickName returns a name to operate on: mostly one the script created, now
// and then one that was never created, or a sub-name of a created one.
func (o *ONS) pickName(c *Ctx) string {
	top := o.names[pick(c.R, len(o.names))]
	if n := len(o.names); n > 8 && c.R.Intn(3) != 0 {
		// mostly the recent ones, so that a name sees more than one operation
		top = o.names[n-8+pick(c.R, 8)]
	}
	switch c.R.Intn(12) {
	case 0:
		return fmt.Sprintf("ghost%s%d.ol", o.Tag, c.R.Intn(5))
	case 1, 2, 3:
		return fmt.Sprintf("s%d.%s", c.R.Intn(2), top)
	}
	return top
}

// actor is the owner on record (if it is one of ours) three times out of
// four, otherwise anybody.
func (o *ONS) actor(c *Ctx, d *DomainRecord) *world.Account {
	us := c.W.Users
	if d != nil && c.R.Intn(4) != 0 {
		if u := userByAddr(c, d.Owner); u != nil {
			return u
		}
	}
	return us[pick(c.R, len(us))]
}

func (o *ONS) randomCreate(c *Ctx, who *world.Account) hist.TxSpec {
	base, _ := ONSOptions(c)
	price := priceFor(c, int64(5+c.R.Intn(80)))
	uri, note := "", "create"
	nn := o.newName()
	switch c.R.Intn(10) {
	case 0:
		price, note = base.String(), "create at exactly the base price (must fail)"
	case 1:
		price, note = new(big.Int).Add(base, big.NewInt(1)).String(), "create one nue above the base price (no lifetime)"
	case 2:
		uri, note = "gopher://"+nn, "create with a bad uri (must fail)"
	case 3:
		nn, note = fmt.Sprintf("n%s%d.com", o.Tag, o.cnt), "create under a foreign first-level domain (must fail)"
		o.names[len(o.names)-1] = nn
	case 4:
		uri = "https://" + nn + "/"
	}
	return onsCreate(c, who, nil, nn, price, uri, note)
}

func (o *ONS) random(c *Ctx) []hist.TxSpec {
	var out []hist.TxSpec
	us := c.W.Users
	base, pb := ONSOptions(c)
	version := c.H - 1
	mul := func(n int) *big.Int { return new(big.Int).Mul(pb, big.NewInt(int64(n))) }
	k := 1 + c.R.Intn(3)
	for i := 0; i < k; i++ {
		other := us[pick(c.R, len(us))]
		if len(o.names) < 3 || c.R.Intn(6) == 0 {
			out = append(out, o.randomCreate(c, other))
			continue
		}
		name := o.pickName(c)
		isSub := ons.Name(name).IsSub()
		d := FindDomain(c.S, name)
		parent := d
		if isSub {
			pn, _ := ons.Name(name).GetParentName()
			parent = FindDomain(c.S, pn.String())
		}
		who := o.actor(c, parent)
		onSale := d != nil && d.OnSale && version <= d.Expire
		expired := d != nil && version > d.Expire
		op := c.R.Intn(16)
		switch {
		case d == nil && isSub && c.R.Intn(4) != 0:
			op = 0
		case onSale && c.R.Intn(2) == 0:
			op = 15
		case expired && !isSub && c.R.Intn(2) == 0:
			op = 15
		}
		switch op {
		case 0, 1:
			// create: a sub-name (by the parent's owner or not) or a name again
			switch {
			case isSub:
				// a sub-domain costs more than the base price, whatever more
				out = append(out, onsCreate(c, who, other, name, new(big.Int).Add(base, big.NewInt(int64(c.R.Intn(4)))).String(), "", "create sub-domain"))
			case d != nil:
				out = append(out, onsCreate(c, who, nil, name, priceFor(c, 30), "", "create a name again (must fail)"))
			default:
				out = append(out, onsCreate(c, other, nil, name, priceFor(c, 30), "", "create"))
			}
		case 2, 3, 4:
			var benef *world.Account
			active := c.R.Intn(3) != 0
			if !active || c.R.Intn(5) != 0 {
				benef = other
			}
			uri := ""
			switch c.R.Intn(8) {
			case 0, 1, 2:
				uri = "https://" + name + "/"
			case 3:
				uri = "mailto:" + name // not an accepted scheme: must fail
			}
			out = append(out, onsUpdate(c, who, benef, name, active, uri, "update"))
		case 5, 6:
			price := new(big.Int).Mul(big.NewInt(1+c.R.Int63n(900)), e18)
			cancel := d != nil && d.OnSale && c.R.Intn(2) == 0
			if c.R.Intn(8) == 0 {
				price = new(big.Int).Set(pb) // not above the per-block fee: must fail
			}
			out = append(out, onsSell(c, who, name, price.String(), cancel, "sell"))
		case 7, 8, 9:
			out = append(out, onsSend(c, other, name, fmt.Sprint(1+c.R.Int63n(5e18)), "send to name"))
		case 10, 11:
			fee := mul(2 + c.R.Intn(40))
			if c.R.Intn(6) == 0 {
				fee = mul(1) // not above the per-block fee: must fail
			}
			out = append(out, onsRenew(c, who, name, fee.String(), "renew"))
		case 12:
			out = append(out, onsDeleteSub(c, who, name, "delete sub-domain(s)"))
		default:
			buyer := other
			offer := new(big.Int).Add(base, mul(c.R.Intn(40)))
			note := "purchase a name that is not for sale (must fail)"
			if onSale {
				switch c.R.Intn(4) {
				case 0:
					offer, note = new(big.Int).Sub(d.Price(), big.NewInt(1)), "purchase below the asking price (must fail)"
				case 1:
					offer, note = d.Price(), "purchase at the asking price"
				default:
					offer, note = new(big.Int).Add(d.Price(), mul(1+c.R.Intn(30))), "purchase above the asking price"
				}
			} else if expired {
				note = "purchase an expired name"
				if c.R.Intn(4) == 0 {
					offer, note = new(big.Int).Sub(base, big.NewInt(1)), "purchase an expired name below the base price (must fail)"
				}
			}
			out = append(out, onsPurchase(c, buyer, buyer, name, offer.String(), note))
		}
	}
	// a quarter goes into the block without admission (a proposer is free to
	// do that), so that failing transactions are also executed by DeliverTx
	for i := range out {
		if c.R.Intn(4) == 0 {
			out[i].Force = true
		}
	}
	return out
}

// gammaTrack: a name is listed; in one block its owner creates a sub-domain and then somebody buys the name
// (the sub-domains of a purchased name go with the purchase, also the one created moments before); later the
// new owner deactivates and re-activates the name.
func (o *ONS) gammaTrack(c *Ctx) []hist.TxSpec {
	us := c.W.Users
	gamma := "gamma" + o.Tag + ".ol"
	seller, buyer := us[4%len(us)], us[5%len(us)]
	g := FindDomain(c.S, gamma)
	switch {
	case o.g == 0 && o.n >= 3:
		o.g = 1
		return []hist.TxSpec{
			onsCreate(c, seller, nil, gamma, priceFor(c, 5000), "", "create a name that will be sold together with a brand-new sub-domain"),
			// somebody else's name of which the traded name is a textual suffix, with a sub-domain of its own
			onsCreate(c, us[0], nil, "q"+o.beta(), priceFor(c, 7000), "", "create a name that merely ends in another owner's name"),
			// ... and a stranger registers another spelling of somebody else's name (upper-case first letter)
			onsCreate(c, us[3%len(us)], nil, "B"+o.beta()[1:], priceFor(c, 6000), "", "create somebody else's name spelt with a capital letter"),
		}
	case o.g == 1 && changeable(c, g):
		o.g = 2
		return []hist.TxSpec{onsSell(c, seller, gamma, OLT(321), false, "owner lists the name")}
	case o.g == 2 && changeable(c, g) && g.OnSale && g.Price().Cmp(bigOf(OLT(321))) == 0 && !o.relisted:
		// listed again at a higher price, without cancelling the first listing
		o.relisted = true
		return []hist.TxSpec{onsSell(c, seller, gamma, OLT(654), false, "owner lists the name again at a higher price (no cancellation in between)")}
	case o.g == 2 && changeable(c, g) && g.OnSale && o.relisted && !o.lowOffer:
		o.lowOffer = true
		return []hist.TxSpec{onsPurchase(c, us[2%len(us)], nil, gamma, OLT(400), "offer between the first and the second asking price (must fail)")}
	case o.g == 2 && changeable(c, g) && g.OnSale && o.lowOffer:
		o.g = 3
		return []hist.TxSpec{
			onsCreate(c, seller, nil, "late."+gamma, priceFor(c, 1), "", "owner creates a sub-domain in the very block in which the name is bought"),
			onsPurchase(c, buyer, nil, gamma, g.Price().String(), "purchase at the asking price, right after the seller created a sub-domain"),
		}
	case o.g == 3 && changeable(c, g) && g.Owner == buyer.Addr.String():
		o.g = 4
		return []hist.TxSpec{onsUpdate(c, buyer, nil, gamma, false, "", "new owner deactivates the purchased name")}
	case o.g == 4 && changeable(c, g):
		o.g = 5
		return []hist.TxSpec{
			onsUpdate(c, buyer, nil, gamma, true, "", "new owner re-activates the purchased name"),
			onsCreate(c, us[0], nil, "w.q"+o.beta(), priceFor(c, 1), "", "sub-domain of the look-alike name"),
		}
	case o.g == 5 && changeable(c, g) && g.Active:
		o.g = 6
		return []hist.TxSpec{
			onsCreate(c, buyer, nil, "a."+gamma, priceFor(c, 1), "", "first of two sub-domains"),
			onsCreate(c, buyer, nil, "b."+gamma, priceFor(c, 1), "", "second of two sub-domains"),
		}
	case o.g == 6 && changeable(c, g) && FindDomain(c.S, "b."+gamma) != nil:
		o.g = 7
		return []hist.TxSpec{onsRenew(c, buyer, gamma, blocksFee(c, 40), "renew a name that has two sub-domains")}
	}
	return nil
}

func (o *ONS) Plan(c *Ctx) []hist.TxSpec {
	o.n++
	if o.n == 1 {
		// steps 0,1: both names; 2,3,5: alpha; 4: alpha's last block; 6..11: beta
		o.track = [12]int{0, 0, 1, 1, 3, 1, 2, 2, 2, 2, 2, 2}
	}
	out := o.directed(c)
	out = append(out, o.gammaTrack(c)...)
	// while a passed proposal waits for its finalisation (which may change the ONS prices at the end of a
	// block), the traded name is renewed: the renewal is priced with the options in force, not the coming ones
	for k := range c.S {
		if strings.HasPrefix(k, "propPassed") {
			if b := FindDomain(c.S, o.beta()); changeable(c, b) && !b.OnSale {
				if owner := userByAddr(c, b.Owner); owner != nil {
					out = append(out, onsRenew(c, owner, o.beta(), blocksFee(c, 20), "renew for 20 blocks while a passed proposal awaits finalisation"))
				}
			}
			break
		}
	}
	// random traffic once the traded name went through its directed life (or
	// that got stuck); the short-lived name joins after its directed re-purchase
	if o.done[11] || o.n > 16 {
		out = append(out, o.random(c)...)
	}
	return out
}

func (o *ONS) Observe(c *Ctx, blk *hist.Block) {}

func bigOf(v string) *big.Int {
	b, _ := new(big.Int).SetString(v, 10)
	if b == nil {
		return new(big.Int)
	}
	return b
}

// RecreateDeletedSub: one owner's name with one sub-domain; whenever both exist, one block deletes the
// sub-domain and, after that, tries to create it again three times with gas limits around what the handler
// consumes (a create that runs out of gas in its fee step has already written the record it must not leave).
func RecreateDeletedSub(c *Ctx, who *world.Account, tag string) []hist.TxSpec {
	base := "csix" + tag + ".ol"
	sub := "s." + base
	if FindDomain(c.S, base) == nil {
		return []hist.TxSpec{onsCreate(c, who, nil, base, priceFor(c, 100000), "", "create a name (for the delete / re-create block)")}
	}
	if FindDomain(c.S, sub) == nil {
		return []hist.TxSpec{onsCreate(c, who, nil, sub, priceFor(c, 1), "", "create its sub-domain")}
	}
	out := []hist.TxSpec{onsDeleteSub(c, who, sub, "delete the sub-domain")}
	for _, g := range []int64{13000, 16500, 21000} {
		msg := &onsact.DomainCreate{Owner: who.Addr, Name: ons.Name(sub), BuyingPrice: txb.Amt("OLT", priceFor(c, 1))}
		sp := BuildFee(c, "DOMAIN_CREATE", msg, txb.Fee("1000000000", g), fmt.Sprintf("create the sub-domain deleted earlier in this block, gas limit %d", g), who)
		sp.Meta = map[string]string{"name": sub, "price": priceFor(c, 1), "owner": who.Addr.String(), "beneficiary": who.Addr.String(), "uri": ""}
		sp.Trait = fmt.Sprintf("gas=%d", g)
		out = append(out, sp)
	}
	return out
}
