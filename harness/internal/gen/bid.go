package gen

import (
	"encoding/json"
	"fmt"
	"math/big"
	"strings"

	"github.com/Oneledger/protocol/external_apps/bid/bid_action"
	"github.com/Oneledger/protocol/external_apps/bid/bid_data"

	"olverif/internal/hist"
	"olverif/internal/txb"
	"olverif/internal/world"
)

// Bid drives the external bid app over ONS names the script creates itself:
// conversations that end in every way the app knows (bidder accepts a counter
// offer, owner accepts a bid, either side rejects, bidder cancels, the deadline
// passes, an EXPIRE transaction closes it), then seeded conversations with
// moves by the wrong party and bad amounts in between.
type Bid struct {
	n          int
	cnt        int
	Tag        string
	assets     []string
	convs      []*bidConv
	lastMs     int64
	dtMs       int64
	ownerTried bool
}

type bidConv struct {
	id       string
	asset    string
	owner    *world.Account
	bidder   *world.Account
	deadline int64 // unix seconds
	start    int   // script step (Plan call) at which the first bid goes out
	moves    []string
	next     int
	born     int64 // height of the first bid
	random   bool
	closed   bool
	note     string
}

func (b *Bid) Name() string { return "bid" }

// ---- reading the committed state ----------------------------------------

// BidConvStores are the key prefixes of the conversation stores; the key is
// the prefix immediately followed by the 64-hex conversation id.
var BidConvStores = []string{"extBidConvActive", "extBidConvSucceed", "extBidConvCancelled", "extBidConvExpired", "extBidConvRejected"}

// BidConvStore tells in which store a conversation is ("" if nowhere).
func BidConvStore(s hist.State, id string) string {
	for _, st := range BidConvStores {
		if _, ok := s[st+id]; ok {
			return st
		}
	}
	return ""
}

// BidOfferRecord is a persisted offer (bid_data.BidOffer as JSON).
type BidOfferRecord struct {
	BidConvId  string `json:"bidConvId"`
	OfferType  int    `json:"offerType"` // 1 bid offer (amount locked), 2 counter offer
	OfferTime  int64  `json:"offerTime"`
	AcceptTime int64  `json:"acceptTime"`
	RejectTime int64  `json:"rejectTime"`
	Amount     struct {
		Currency string `json:"currency"`
		Value    string `json:"value"`
	} `json:"amount"`
	AmountStatus int `json:"amountStatus"` // 1 locked, 2 unlocked, 3 counter offer, 4 transferred
}

func (o *BidOfferRecord) Amt() *big.Int {
	v, ok := new(big.Int).SetString(o.Amount.Value, 10)
	if !ok {
		return new(big.Int)
	}
	return v
}

// ActiveBidOffer reads the one active offer of a conversation (nil if none).
func ActiveBidOffer(s hist.State, id string) *BidOfferRecord {
	v, ok := s["extBidOffer_ACTIVE_"+id]
	if !ok {
		return nil
	}
	r := &BidOfferRecord{}
	if json.Unmarshal(v, r) != nil {
		return nil
	}
	return r
}

// ---- transaction builders -----------------------------------------------

func (b *Bid) meta(c *Ctx, cv *bidConv, amount string) map[string]string {
	m := map[string]string{"bid": cv.id, "name": cv.asset, "bidder": cv.bidder.Addr.String(), "owner": cv.owner.Addr.String(), "amount": amount, "deadline": fmt.Sprint(cv.deadline)}
	if amount == "" {
		// the amount at stake is the one of the active offer
		m["amount"] = "0"
		if o := ActiveBidOffer(c.S, cv.id); o != nil {
			m["amount"] = o.Amt().String()
			m["offerType"] = fmt.Sprint(o.OfferType)
		}
	}
	return m
}

// firstBid opens a conversation (no id in the message: the app derives it).
func (b *Bid) firstBid(c *Ctx, cv *bidConv, signer *world.Account, amount, note string) hist.TxSpec {
	msg := &bid_action.CreateBid{AssetOwner: cv.owner.Addr, AssetName: cv.asset, AssetType: bid_data.BidAssetOns, Bidder: signer.Addr, Amount: txb.Amt("OLT", amount), Deadline: cv.deadline}
	sp := Build(c, "BID_CREATE", msg, note, signer)
	sp.Meta = b.meta(c, cv, amount)
	sp.Meta["signer"] = signer.Addr.String()
	return sp
}

func (b *Bid) reBid(c *Ctx, cv *bidConv, signer *world.Account, amount, note string) hist.TxSpec {
	msg := &bid_action.CreateBid{BidConvId: bid_data.BidConvId(cv.id), Bidder: signer.Addr, Amount: txb.Amt("OLT", amount)}
	sp := Build(c, "BID_CREATE", msg, note, signer)
	sp.Meta = b.meta(c, cv, amount)
	sp.Meta["signer"] = signer.Addr.String()
	return sp
}

func (b *Bid) counter(c *Ctx, cv *bidConv, signer *world.Account, amount, note string) hist.TxSpec {
	msg := &bid_action.CounterOffer{BidConvId: bid_data.BidConvId(cv.id), AssetOwner: signer.Addr, Amount: txb.Amt("OLT", amount)}
	sp := Build(c, "BID_CONTER_OFFER", msg, note, signer)
	sp.Meta = b.meta(c, cv, amount)
	sp.Meta["signer"] = signer.Addr.String()
	return sp
}

func (b *Bid) bidderDecision(c *Ctx, cv *bidConv, signer *world.Account, d int, note string) hist.TxSpec {
	msg := &bid_action.BidderDecision{BidConvId: bid_data.BidConvId(cv.id), Bidder: signer.Addr, Decision: bid_data.BidDecision(d)}
	sp := Build(c, "BID_BIDDER_DECISION", msg, note, signer)
	sp.Meta = b.meta(c, cv, "")
	sp.Meta["decision"] = fmt.Sprint(d)
	sp.Meta["signer"] = signer.Addr.String()
	return sp
}

func (b *Bid) ownerDecision(c *Ctx, cv *bidConv, signer *world.Account, d int, note string) hist.TxSpec {
	msg := &bid_action.OwnerDecision{BidConvId: bid_data.BidConvId(cv.id), Owner: signer.Addr, Decision: bid_data.BidDecision(d)}
	sp := Build(c, "BID_OWNER_DECISION", msg, note, signer)
	sp.Meta = b.meta(c, cv, "")
	sp.Meta["decision"] = fmt.Sprint(d)
	sp.Meta["signer"] = signer.Addr.String()
	return sp
}

func (b *Bid) cancel(c *Ctx, cv *bidConv, signer *world.Account, note string) hist.TxSpec {
	msg := &bid_action.CancelBid{BidConvId: bid_data.BidConvId(cv.id), Bidder: signer.Addr}
	sp := Build(c, "BID_CANCEL", msg, note, signer)
	sp.Meta = b.meta(c, cv, "")
	sp.Meta["signer"] = signer.Addr.String()
	return sp
}

// expire is the transaction the block functions run internally at the end of
// the block after the deadline; as a user transaction it only needs somebody's
// signature under the name "validatorAddress".
func (b *Bid) expire(c *Ctx, cv *bidConv, signer *world.Account, note string) hist.TxSpec {
	msg := &bid_action.ExpireBid{BidConvId: bid_data.BidConvId(cv.id), ValidatorAddress: signer.Addr}
	sp := Build(c, "BID_EXPIRE", msg, note, signer)
	sp.Meta = b.meta(c, cv, "")
	sp.Meta["signer"] = signer.Addr.String()
	return sp
}

// ---- conversations ------------------------------------------------------------

// blockSec is the time of the block being planned, in unix seconds, as far as
// the script can tell (previous block's time plus the last observed spacing).
func (b *Bid) blockSec(c *Ctx) int64 { return (c.TimeMs + b.dtMs) / 1000 }

// open registers a conversation whose first bid goes into block c.H. The id is
// derived the way the app does (bid_data.NewBidConv: hash of owner, asset,
// bidder and the height of the block).
func (b *Bid) open(c *Ctx, asset string, owner, bidder *world.Account, blocks int64, moves ...string) *bidConv {
	cv := &bidConv{asset: asset, owner: owner, bidder: bidder, moves: moves, start: b.n, born: c.H}
	cv.deadline = b.blockSec(c) + blocks*b.dtMs/1000
	cv.id = string(bid_data.NewBidConv(owner.Addr, asset, bid_data.BidAssetOns, bidder.Addr, cv.deadline, c.H).BidConvId)
	b.convs = append(b.convs, cv)
	return cv
}

func (b *Bid) ownerOf(c *Ctx, asset string) *world.Account {
	if d := FindDomain(c.S, asset); d != nil {
		return userByAddr(c, d.Owner)
	}
	return nil
}

func (b *Bid) stranger(c *Ctx, cv *bidConv) *world.Account {
	for i := 0; i < 8; i++ {
		u := c.W.Users[pick(c.R, len(c.W.Users))]
		if u != cv.owner && u != cv.bidder {
			return u
		}
	}
	return c.W.Users[0]
}

// play emits the next scripted move(s) of a conversation, one entry per block.
// Moves: bid:N  counter:N  rebid:N  accept  breject  oaccept  oreject  cancel
// wait  uexpire (EXPIRE by a stranger)  and the wrong-party variants x-...
func (b *Bid) play(c *Ctx, cv *bidConv) (out []hist.TxSpec) {
	if cv.closed || cv.next >= len(cv.moves) {
		return nil
	}
	if cv.next > 0 && BidConvStore(c.S, cv.id) != "extBidConvActive" {
		cv.closed = true
		return nil
	}
	mvs := strings.Split(cv.moves[cv.next], "+") // a+b: several moves in one block
	cv.next++
	for _, mv := range mvs {
		out = append(out, b.move(c, cv, mv)...)
	}
	return out
}

func (b *Bid) move(c *Ctx, cv *bidConv, mv string) (out []hist.TxSpec) {
	arg := ""
	if i := strings.Index(mv, ":"); i >= 0 {
		mv, arg = mv[:i], OLT(int64(atoi(mv[i+1:])))
	}
	lbl := func(s string) string { return s + " (" + cv.note + ")" }
	switch mv {
	case "bid":
		out = append(out, b.firstBid(c, cv, cv.bidder, arg, lbl("bid")))
	case "counter":
		out = append(out, b.counter(c, cv, cv.owner, arg, lbl("owner counter-offers")))
	case "rebid":
		out = append(out, b.reBid(c, cv, cv.bidder, arg, lbl("bidder bids again below the counter offer")))
	case "accept":
		out = append(out, b.bidderDecision(c, cv, cv.bidder, int(bid_data.AcceptBid), lbl("bidder accepts the counter offer")))
	case "breject":
		out = append(out, b.bidderDecision(c, cv, cv.bidder, int(bid_data.RejectBid), lbl("bidder rejects the counter offer")))
	case "oaccept":
		out = append(out, b.ownerDecision(c, cv, cv.owner, int(bid_data.AcceptBid), lbl("owner accepts the bid")))
	case "oreject":
		out = append(out, b.ownerDecision(c, cv, cv.owner, int(bid_data.RejectBid), lbl("owner rejects the bid")))
	case "cancel":
		out = append(out, b.cancel(c, cv, cv.bidder, lbl("bidder cancels")))
	case "uexpire":
		out = append(out, b.expire(c, cv, b.stranger(c, cv), lbl("EXPIRE by a stranger before the deadline")))
	case "x-oaccept":
		out = append(out, b.ownerDecision(c, cv, cv.bidder, int(bid_data.AcceptBid), lbl("bidder decides as owner (must fail)")))
	case "x-accept":
		out = append(out, b.bidderDecision(c, cv, cv.owner, int(bid_data.AcceptBid), lbl("owner decides as bidder (must fail)")))
	case "x-cancel":
		out = append(out, b.cancel(c, cv, cv.owner, lbl("owner cancels the bidder's bid (must fail)")))
	case "x-counter":
		out = append(out, b.counter(c, cv, b.stranger(c, cv), arg, lbl("stranger counter-offers (must fail)")))
	case "wait":
	}
	return out
}

func atoi(s string) int {
	n := 0
	fmt.Sscan(s, &n)
	return n
}

// ---- the directed part ----------------------------------------------------

func (b *Bid) assetA() string { return "bida" + b.Tag + ".ol" }
func (b *Bid) assetB() string { return "bidb" + b.Tag + ".ol" }

func (b *Bid) directed(c *Ctx) (out []hist.TxSpec) {
	us := c.W.Users
	A, B := b.assetA(), b.assetB()
	conv := func(note, asset string, bidder *world.Account, blocks int64, moves ...string) {
		owner := b.ownerOf(c, asset)
		if owner == nil {
			return
		}
		b.open(c, asset, owner, bidder, blocks, moves...).note = note
	}
	switch b.n {
	case 1:
		b.assets = []string{A, B}
		out = append(out, onsCreate(c, us[0], nil, A, priceFor(c, 100000), "", "create the asset of the bids"))
		out = append(out, onsCreate(c, us[1], nil, B, priceFor(c, 100000), "", "create a second asset"))
	case 2:
		conv("counter offer accepted", A, us[2], 100, "bid:100", "counter:150", "accept")
		conv("cancelled", A, us[3], 100, "bid:50", "x-cancel", "cancel")
		conv("rejected by the owner", B, us[4], 100, "bid:70", "x-oaccept", "oreject")
	case 3:
		conv("left to expire", B, us[5], 4, "bid:30", "wait", "wait", "wait", "wait", "wait", "wait", "wait")
	case 5:
		// the first asset has changed hands by now; the owner on record counts
		conv("accepted by the owner", B, us[3], 100, "bid:80", "x-accept", "oaccept")
		conv("counter offer rejected", A, us[4], 100, "bid:60", "counter:90", "x-oaccept", "breject")
		conv("expired on request", B, us[0], 100, "bid:20", "x-counter:25", "uexpire")
	case 7:
		// two rounds inside one block: offers of one kind with the same offer time
		conv("haggling", A, us[5], 100, "bid:40", "counter:100", "rebid:60+counter:90+rebid:70+counter:85", "accept")
	case 8:
		conv("counter offer left to expire", B, us[2], 5, "bid:10", "counter:500", "wait", "wait", "wait", "wait", "wait", "wait")
	}
	return out
}

// ---- random traffic ---------------------------------------------------------

func (b *Bid) randomOpen(c *Ctx) []hist.TxSpec {
	us := c.W.Users
	asset := b.assets[pick(c.R, len(b.assets))]
	owner := b.ownerOf(c, asset)
	if owner == nil {
		return nil
	}
	bidder := us[pick(c.R, len(us))]
	if bidder == owner && c.R.Intn(4) != 0 {
		bidder = us[(pick(c.R, len(us)-1)+1+indexOf(us, owner))%len(us)]
	}
	for _, cv := range b.convs {
		// the app refuses a second open conversation of the same three
		if !cv.closed && cv.asset == asset && cv.owner == owner && cv.bidder == bidder && c.R.Intn(4) != 0 {
			return nil
		}
	}
	blocks := int64(3 + c.R.Intn(12))
	amount := new(big.Int).Mul(big.NewInt(1+c.R.Int63n(200)), e18)
	amount.Add(amount, big.NewInt(c.R.Int63n(1000)))
	note := "bid"
	switch c.R.Intn(16) {
	case 0:
		blocks, note = -3, "bid with a deadline in the past (must fail)"
	case 1:
		amount, note = new(big.Int).Add(BalanceOf(c.S, bidder.Addr, "OLT"), big.NewInt(1)), "bid more than the bidder has (must fail)"
	case 2:
		amount, note = new(big.Int), "bid nothing"
	case 3:
		amount, note = new(big.Int).Neg(amount), "bid a negative amount (must fail)"
	case 4:
		asset, note = "nobody"+b.Tag+".ol", "bid on a name that does not exist (must fail)"
	}
	cv := b.open(c, asset, owner, bidder, blocks)
	cv.random = true
	cv.note = fmt.Sprintf("r%d", len(b.convs))
	cv.next = 1
	return []hist.TxSpec{b.firstBid(c, cv, bidder, amount.String(), note+" ("+cv.note+")")}
}

func indexOf(us []*world.Account, a *world.Account) int {
	for i, u := range us {
		if u == a {
			return i
		}
	}
	return 0
}

// randomMove: one move in an open random conversation, by the party whose turn
// it is most of the time.
func (b *Bid) randomMove(c *Ctx, cv *bidConv) (out []hist.TxSpec) {
	if BidConvStore(c.S, cv.id) != "extBidConvActive" {
		if c.H > cv.born+1 {
			cv.closed = true
		}
		// a closed (or never opened) conversation still gets a late move now and then
		if cv.closed && c.R.Intn(6) == 0 {
			out = append(out, b.cancel(c, cv, cv.bidder, "cancel a closed conversation (must fail) ("+cv.note+")"))
		}
		return out
	}
	o := ActiveBidOffer(c.S, cv.id)
	if o == nil || c.R.Intn(4) == 0 {
		return nil
	}
	lbl := func(s string) string { return s + " (" + cv.note + ")" }
	step := new(big.Int).Mul(big.NewInt(1+c.R.Int63n(40)), e18)
	st := b.stranger(c, cv)
	if c.R.Intn(20) == 0 {
		return []hist.TxSpec{b.expire(c, cv, st, lbl("EXPIRE by a stranger"))}
	}
	r := c.R.Intn(12)
	if o.OfferType == int(bid_data.TypeBidOffer) {
		switch r {
		case 0, 1, 2, 3:
			out = append(out, b.counter(c, cv, cv.owner, new(big.Int).Add(o.Amt(), step).String(), lbl("owner counter-offers")))
		case 4:
			out = append(out, b.counter(c, cv, cv.owner, o.Amt().String(), lbl("owner counter-offers no more than the bid (must fail)")))
		case 5:
			out = append(out, b.ownerDecision(c, cv, cv.owner, int(bid_data.AcceptBid), lbl("owner accepts the bid")))
		case 6:
			out = append(out, b.ownerDecision(c, cv, cv.owner, int(bid_data.RejectBid), lbl("owner rejects the bid")))
		case 7:
			out = append(out, b.cancel(c, cv, cv.bidder, lbl("bidder cancels")))
		case 8:
			out = append(out, b.ownerDecision(c, cv, cv.bidder, int(bid_data.AcceptBid), lbl("bidder decides as owner (must fail)")))
		case 9:
			out = append(out, b.bidderDecision(c, cv, cv.bidder, int(bid_data.AcceptBid), lbl("bidder accepts his own bid (must fail)")))
		case 10:
			out = append(out, b.counter(c, cv, st, new(big.Int).Add(o.Amt(), step).String(), lbl("stranger counter-offers (must fail)")))
		case 11:
			out = append(out, b.ownerDecision(c, cv, cv.owner, 3, lbl("owner sends an unknown decision (must fail)")))
		}
		return out
	}
	lower := new(big.Int).Sub(o.Amt(), step)
	if lower.Sign() <= 0 {
		lower = big.NewInt(1)
	}
	if !b.ownerTried {
		// (once per history, at the first counter offer: the owner answers its own counter offer in the bidder's
		// place, naming itself and naming the bidder)
		b.ownerTried = true
		out = append(out, b.bidderDecision(c, cv, cv.owner, int(bid_data.AcceptBid), lbl("owner decides as bidder (must fail)")))
		forged := b.bidderDecision(c, cv, cv.bidder, int(bid_data.AcceptBid), lbl("owner accepts in the bidder's name, signed by the owner only (must fail)"))
		msg := &bid_action.BidderDecision{BidConvId: bid_data.BidConvId(cv.id), Bidder: cv.bidder.Addr, Decision: bid_data.AcceptBid}
		forged.Bytes = txb.Tx(msg, txb.DefaultFee(), c.Memo.Next(), cv.owner)
		forged.Signers = []string{cv.owner.Addr.String()}
		forged.Meta["signer"] = cv.owner.Addr.String()
		out = append(out, forged)
		return out
	}
	switch r {
	case 0, 1, 2:
		out = append(out, b.reBid(c, cv, cv.bidder, lower.String(), lbl("bidder bids again below the counter offer")))
	case 3:
		out = append(out, b.reBid(c, cv, cv.bidder, o.Amt().String(), lbl("bidder bids the counter offer's amount (must fail)")))
	case 4, 5:
		out = append(out, b.bidderDecision(c, cv, cv.bidder, int(bid_data.AcceptBid), lbl("bidder accepts the counter offer")))
	case 6:
		out = append(out, b.bidderDecision(c, cv, cv.bidder, int(bid_data.RejectBid), lbl("bidder rejects the counter offer")))
	case 7:
		out = append(out, b.cancel(c, cv, cv.bidder, lbl("bidder cancels")))
	case 8:
		out = append(out, b.bidderDecision(c, cv, cv.owner, int(bid_data.AcceptBid), lbl("owner decides as bidder (must fail)")))
	case 9:
		out = append(out, b.ownerDecision(c, cv, cv.owner, int(bid_data.AcceptBid), lbl("owner accepts his own counter offer (must fail)")))
	case 10:
		out = append(out, b.reBid(c, cv, st, lower.String(), lbl("stranger bids in somebody's conversation (must fail)")))
	case 11:
		out = append(out, b.cancel(c, cv, cv.owner, lbl("owner cancels the bidder's bid (must fail)")))
	}
	return out
}

func (b *Bid) Plan(c *Ctx) []hist.TxSpec {
	b.n++
	if b.dtMs == 0 {
		b.dtMs = 5000
	}
	if b.lastMs > 0 && c.TimeMs > b.lastMs {
		b.dtMs = c.TimeMs - b.lastMs
	}
	b.lastMs = c.TimeMs
	out := b.directed(c)
	open := 0
	for i, cv := range b.convs {
		if cv.random {
			// closed conversations: only recent ones get a late move, rarely
			if !cv.closed || (i >= len(b.convs)-6 && c.R.Intn(30) == 0) {
				out = append(out, b.randomMove(c, cv)...)
			}
			if !cv.closed {
				open++
			}
			continue
		}
		if cv.start <= b.n {
			out = append(out, b.play(c, cv)...)
		}
	}
	if b.n > 11 && open < 5 && c.R.Intn(3) != 0 {
		out = append(out, b.randomOpen(c)...)
	}
	if b.n > 11 {
		// a share of the random traffic bypasses admission, so that failing
		// transactions are executed by DeliverTx too
		for i := range out {
			if c.R.Intn(5) == 0 {
				out[i].Force = true
			}
		}
	}
	return out
}

func (b *Bid) Observe(c *Ctx, blk *hist.Block) {}
