package gen

import (
	"bytes"
	"encoding/json"
	"fmt"
	"math/big"
	"sort"
	"strings"

	"github.com/ethereum/go-ethereum/accounts/abi"
	ethcmn "github.com/ethereum/go-ethereum/common"
	"github.com/ethereum/go-ethereum/core/types"
	ethcrypto "github.com/ethereum/go-ethereum/crypto"
	"github.com/ethereum/go-ethereum/rlp"

	ethact "github.com/Oneledger/protocol/action/eth"
	"github.com/Oneledger/protocol/chains/ethereum/contract"
	"github.com/Oneledger/protocol/data/keys"

	"olverif/internal/hist"
	"olverif/internal/world"
)

// Eth plays users locking/redeeming ETH and an ERC-20 token and the witnesses
// that report finality (no Ethereum node is involved: lock and redeem payloads
// are locally signed Ethereum transactions against the ABI in genesis, finality
// reports are ordinary signed transactions).
type Eth struct {
	n      int
	Tag    string
	ops    []*ethOp
	nonce  uint64
	Liars  bool // let a threshold-crossing witness lie about the beneficiary (C15 probe only)
	Dupes  bool // resubmit ERC-20 locks after success (C15 probe only)
	padded bool
	NoERC  bool
}

type ethOp struct {
	kind    string // lock | redeem | erclock | ercredeem
	owner   *world.Account
	raw     []byte
	name    ethcmn.Hash
	amount  *big.Int
	plan    string // yes | no | mixed
	created int64
	voted   int
	dupDone bool
	resub   bool
	done    bool
}

func (e *Eth) Name() string { return "eth" }

var ercAddr = ethcmn.HexToAddress("0x00000000000000000000000000000000000c0de2")
var tokAddr = ethcmn.HexToAddress("0x00000000000000000000000000000000000c0de3")

func (e *Eth) signEth(c *Ctx, to ethcmn.Address, value *big.Int, data []byte) []byte {
	e.nonce++
	key, _ := ethcrypto.ToECDSA(detKey(e.Tag))
	tx := types.NewTransaction(e.nonce, to, value, 100000, big.NewInt(18000000000), data)
	signed, err := types.SignTx(tx, types.NewEIP155Signer(big.NewInt(4)), key)
	if err != nil {
		panic(err)
	}
	raw, err := rlp.EncodeToBytes(signed)
	if err != nil {
		panic(err)
	}
	return raw
}

func detKey(tag string) []byte {
	h := ethcrypto.Keccak256([]byte("eth-user/" + tag))
	return h
}

func mustABI(s string) abi.ABI {
	a, err := abi.JSON(strings.NewReader(s))
	if err != nil {
		panic(err)
	}
	return a
}

var lockABI = mustABI(contract.LockRedeemABI)
var ercABI = mustABI(contract.LockRedeemERCABI)
var tokABI = mustABI(contract.ERC20BasicABI)

// WitnessOrder returns the recorded Ethereum witnesses in the order the
// witness store iterates them (the vote index is the position in this list).
func WitnessOrder(s hist.State) []string {
	var ks []string
	for k := range s {
		if strings.HasPrefix(k, "w_Ethereum_") || strings.HasPrefix(k, "w_ETHEREUM_") {
			ks = append(ks, k)
		}
	}
	sort.Strings(ks)
	var out []string
	for _, k := range ks {
		var rec struct {
			Address string `json:"address"`
		}
		_ = json.Unmarshal(s[k], &rec)
		out = append(out, rec.Address)
	}
	return out
}

// TrackerRecord is the persisted form of an ethereum tracker.
type TrackerRecord struct {
	Type          int      `json:"Type"`
	State         int      `json:"State"`
	TrackerName   string   `json:"TrackerName"`
	SignedETHTx   []byte   `json:"SignedETHTx"`
	Witnesses     []string `json:"Witnesses"`
	ProcessOwner  string   `json:"ProcessOwner"`
	FinalityVotes []byte   `json:"FinalityVotes"`
}

// FindTracker looks a tracker up in the three stores.
func FindTracker(s hist.State, name ethcmn.Hash) (store string, rec *TrackerRecord) {
	for _, p := range []string{"etht", "ethfailed", "ethsuccess"} {
		for _, key := range []string{p + "_" + name.Hex(), p + "_" + strings.ToLower(name.Hex()), p + "_" + string(name.Bytes())} {
			if v, ok := s[key]; ok {
				r := &TrackerRecord{}
				_ = json.Unmarshal(v, r)
				return p, r
			}
		}
	}
	return "", nil
}

func (e *Eth) report(c *Ctx, op *ethOp, w *world.Validator, idx int64, success bool, locker keys.Address, note string) hist.TxSpec {
	msg := &ethact.ReportFinality{TrackerName: op.name, Locker: locker, ValidatorAddress: w.ValAddr, VoteIndex: idx, Success: success}
	sp := Build(c, "ETH_REPORT_FINALITY_MINT", msg, note, ConsAccount(w))
	sp.Meta = map[string]string{"tracker": op.name.Hex(), "witness": w.ValAddr.String(), "success": fmt.Sprint(success), "locker": locker.String(), "index": fmt.Sprint(idx)}
	return sp
}

func (e *Eth) submit(c *Ctx, op *ethOp, note string) hist.TxSpec {
	var sp hist.TxSpec
	switch op.kind {
	case "lock":
		sp = Build(c, "ETH_LOCK", &ethact.Lock{Locker: op.owner.Addr, ETHTxn: op.raw}, note, op.owner)
	case "redeem":
		sp = Build(c, "ETH_REDEEM", &ethact.Redeem{Owner: op.owner.Addr, To: ethcmn.HexToAddress("0x1111111111111111111111111111111111111111"), ETHTxn: op.raw}, note, op.owner)
	case "erclock":
		sp = Build(c, "ERC20_LOCK", &ethact.ERC20Lock{Locker: op.owner.Addr, ETHTxn: op.raw}, note, op.owner)
	case "ercredeem":
		sp = Build(c, "ERC20_REDEEM", &ethact.ERC20Redeem{Owner: op.owner.Addr, To: ethcmn.HexToAddress("0x1111111111111111111111111111111111111111"), ETHTxn: op.raw}, note, op.owner)
	}
	sp.Meta = map[string]string{"tracker": op.name.Hex(), "owner": op.owner.Addr.String(), "amount": op.amount.String(), "op": op.kind}
	return sp
}

func (e *Eth) newOp(c *Ctx, kind string, owner *world.Account, amount *big.Int, plan string) *ethOp {
	var raw []byte
	switch kind {
	case "lock":
		data, _ := lockABI.Pack("lock")
		raw = e.signEth(c, c.W.EthContract, amount, data)
	case "redeem":
		data, _ := lockABI.Pack("redeem", amount)
		raw = e.signEth(c, c.W.EthContract, big.NewInt(0), data)
	case "erclock":
		data, _ := tokABI.Pack("transfer", ercAddr, amount)
		raw = e.signEth(c, tokAddr, big.NewInt(0), data)
	case "ercredeem":
		data, _ := ercABI.Pack("redeem", amount, tokAddr)
		raw = e.signEth(c, ercAddr, big.NewInt(0), data)
	}
	op := &ethOp{kind: kind, owner: owner, raw: raw, name: ethcmn.BytesToHash(raw), amount: amount, plan: plan, created: c.H}
	e.ops = append(e.ops, op)
	return op
}

func (e *Eth) Plan(c *Ctx) []hist.TxSpec {
	e.n++
	if e.Tag == "" {
		e.Tag = "t"
	}
	us := c.W.Users
	var out, tail []hist.TxSpec
	witnesses := WitnessOrder(c.S)
	if len(witnesses) == 0 {
		return nil
	}
	valByAddr := map[string]*world.Validator{}
	for _, v := range c.W.Vals {
		valByAddr[v.ValAddr.String()] = v
	}
	// start new operations on a fixed cadence
	switch {
	case e.n == 1:
		out = append(out, e.submit(c, e.newOp(c, "lock", us[0], big.NewInt(1000000000000000), "yes"), "lock (will be confirmed)"))
		out = append(out, e.submit(c, e.newOp(c, "lock", us[1], big.NewInt(222000000000000), "no"), "lock (witnesses will report failure)"))
		// a lock of more than 2^63 wei (ten ether and a bit)
		ten, _ := new(big.Int).SetString("10000000000000000777", 10)
		out = append(out, e.submit(c, e.newOp(c, "lock", us[3%len(us)], ten, "yes"), "lock of ten ether (will be confirmed)"))
		if !e.NoERC {
			out = append(out, e.submit(c, e.newOp(c, "erclock", us[2], big.NewInt(5000000000000), "yes"), "erc20 lock (will be confirmed)"))
		}
	case e.n%9 == 6:
		// redeems need wrapped balance
		if BalanceOf(c.S, us[0].Addr, "ETH").Cmp(big.NewInt(400000000000000)) >= 0 {
			pl := "yes"
			if (e.n/9)%2 == 1 {
				pl = "no"
			}
			out = append(out, e.submit(c, e.newOp(c, "redeem", us[0], big.NewInt(300000000000000+int64(c.R.Intn(1000))), pl), "redeem ("+pl+")"))
		}
		if !e.NoERC && BalanceOf(c.S, us[2].Addr, "TTC").Cmp(big.NewInt(1000000000000)) >= 0 {
			out = append(out, e.submit(c, e.newOp(c, "ercredeem", us[2], big.NewInt(1000000000000), "yes"), "erc20 redeem"))
		}
	case e.n%9 == 1:
		u := us[pick(c.R, 3)]
		pl := []string{"yes", "yes", "no", "mixed"}[c.R.Intn(4)]
		out = append(out, e.submit(c, e.newOp(c, "lock", u, big.NewInt(1000000000+c.R.Int63n(1e14)), pl), "lock ("+pl+")"))
	}
	// progress every open operation
	var later []*ethOp
	defer func() { e.ops = append(e.ops, later...) }()
	for _, op := range e.ops {
		if op.done || op.created == c.H {
			continue
		}
		store, rec := FindTracker(c.S, op.name)
		if rec == nil {
			if c.H-op.created > 3 {
				op.done = true
			}
			continue
		}
		if store != "etht" {
			// finished: try the duplicates that must be refused
			if !op.dupDone {
				op.dupDone = true
				if op.kind == "lock" || op.kind == "redeem" || (e.Dupes && op.kind == "erclock") {
					// (placed after everything else this script sends in the block: the refused resubmission is then
					// the last transaction of the block that touches the tracker stores)
					tail = append(tail, e.submit(c, op, "resubmission after the tracker finished ("+store+")"))
					if op.kind == "lock" && store != "ethfailed" && !e.padded {
						// the same Ethereum transaction once more, with bytes appended (the tracker's name is taken
						// from the end of the submitted bytes): were it admitted, the witnesses would confirm it again
						e.padded = true
						raw := append(append([]byte{}, op.raw...), bytes.Repeat([]byte{0x5a}, 40)...)
						pad := &ethOp{kind: "lock", owner: op.owner, raw: raw, name: ethcmn.BytesToHash(raw), amount: op.amount, plan: "yes", created: c.H}
						later = append(later, pad)
						tail = append(tail, e.submit(c, pad, "the finished lock's Ethereum transaction with 40 bytes appended (must be refused)"))
					}
					if store == "ethfailed" && op.kind == "lock" {
						op.resub = true // a failed lock may legitimately be retried
					}
					continue
				}
			}
			op.done = true
			continue
		}
		age := c.H - op.created
		if age == 1 {
			// a stranger and a non-witness validator try to vote; a duplicate submission while ongoing
			for _, v := range c.W.Vals {
				if !v.InGenesis {
					out = append(out, e.report(c, op, v, 0, true, op.owner.Addr, "report by a non-witness"))
					break
				}
			}
			if op.kind == "lock" || op.kind == "redeem" {
				out = append(out, e.submit(c, op, "duplicate submission while ongoing"))
			}
			// a recorded witness that has not voted yet reports under every other witness's index:
			// none of these may fill a slot
			if len(witnesses) > 2 {
				thief := (int(op.created) + len(witnesses) - 1) % len(witnesses)
				if w := valByAddr[witnesses[thief]]; w != nil {
					for j := range witnesses {
						if j != thief {
							out = append(out, e.report(c, op, w, int64(j), op.plan != "no", op.owner.Addr, fmt.Sprintf("witness %d reports under the index of witness %d", thief, j)))
						}
					}
				}
			}
		}
		if age < 2 {
			continue
		}
		// one witness reports per block, in an order that depends on the seed
		order := make([]int, len(witnesses))
		for i := range order {
			order[i] = (i + int(op.created)) % len(witnesses)
		}
		if op.voted < len(order) {
			i := order[op.voted]
			op.voted++
			w := valByAddr[witnesses[i]]
			if w == nil {
				continue
			}
			success := op.plan == "yes" || (op.plan == "mixed" && op.voted%2 == 1)
			locker := op.owner.Addr
			need := len(witnesses)*2/3 + 1
			if op.voted == 1 && (op.kind == "lock" || op.kind == "erclock") {
				// the first reporter lies about the beneficiary: without the threshold this must not matter
				locker = us[5%len(us)].Addr
			}
			if e.Liars && op.voted == need {
				locker = us[5%len(us)].Addr
			}
			out = append(out, e.report(c, op, w, int64(i), success, locker, fmt.Sprintf("witness %d reports success=%v", i, success)))
			if op.voted == need && op.voted < len(order) {
				// the next witness's report arrives in the same block as the one that crosses the
				// threshold: a late report must not trigger the mint/refund a second time
				j := order[op.voted]
				op.voted++
				if w2 := valByAddr[witnesses[j]]; w2 != nil {
					out = append(out, e.report(c, op, w2, int64(j), success, op.owner.Addr, fmt.Sprintf("late report by witness %d in the block of the decision", j)))
				}
			}
			if op.voted == 2 {
				// a repeated vote and a vote under a wrong index must not count
				out = append(out, e.report(c, op, w, int64(i), !success, op.owner.Addr, "repeated vote by the same witness"))
				out = append(out, e.report(c, op, w, int64((i+1)%len(witnesses)), success, op.owner.Addr, "vote under another witness's index"))
			}
		}
	}
	return append(out, tail...)
}

func (e *Eth) Observe(c *Ctx, blk *hist.Block) {}

var _ = bytes.Equal
