package gen

import (
	"encoding/json"
	"fmt"

	evact "github.com/Oneledger/protocol/action/evidence"
	"github.com/Oneledger/protocol/action/staking"

	"olverif/internal/hist"
	"olverif/internal/txb"
	"olverif/internal/world"
)

// Evidence: allegations, votes and releases by validators and outsiders,
// several allegations open at once and decided in the same block.
type Evidence struct {
	n    int
	Tag  string
	reqs []*allegReq
}

type allegReq struct {
	restaked bool
	id       string
	target   *world.Validator
	plan     string // guilty | innocent | stall
	created  int64
	voted    map[string]bool
	slow     bool // the second vote comes two blocks after the first: the request is still open meanwhile
	late     bool // all votes come one block later than those on the other requests
}

func (e *Evidence) Name() string { return "evidence" }

// ValidatorStatus reads es__vss_<addr>.
func IsActiveValidator(s hist.State, v *world.Validator) bool {
	var rec struct {
		IsActive bool `json:"isActive"`
	}
	if b, ok := s["es__vss_"+v.ValAddr.String()]; ok {
		_ = json.Unmarshal(b, &rec)
	}
	return rec.IsActive
}

// SuspRecord is the persisted freeze record of a validator.
type SuspRecord struct {
	Address       string  `json:"address"`
	Status        int     `json:"status"`
	FrozenHeight  int64   `json:"frozenHeight"`
	FrozenAt      *string `json:"frozenAt"`
	ReleaseHeight int64   `json:"releaseHeight"`
	ReleaseAt     *string `json:"releaseAt"`
}

func Susp(s hist.State, addr string) *SuspRecord {
	b, ok := s["es__ssvk_"+addr]
	if !ok {
		return nil
	}
	r := &SuspRecord{}
	if json.Unmarshal(b, r) != nil {
		return nil
	}
	return r
}

// IsFrozen mirrors the record's own rule: frozen until a release time later
// than the freeze time is recorded.
func (r *SuspRecord) IsFrozen() bool {
	if r == nil {
		return false
	}
	if r.ReleaseAt == nil {
		return true
	}
	if r.FrozenAt == nil {
		return false
	}
	return !(*r.ReleaseAt > *r.FrozenAt)
}

func (e *Evidence) allege(c *Ctx, by *world.Validator, req *allegReq, note string) hist.TxSpec {
	sp := Build(c, "ALLEGATION", &evact.Allegation{RequestID: req.id, ValidatorAddress: by.ValAddr, MaliciousAddress: req.target.ValAddr, BlockHeight: c.H - 1, ProofMsg: "p"}, note, ConsAccount(by))
	sp.Meta = map[string]string{"request": req.id, "by": by.ValAddr.String(), "target": req.target.ValAddr.String()}
	return sp
}

func (e *Evidence) vote(c *Ctx, by *world.Validator, req *allegReq, choice int8, note string) hist.TxSpec {
	sp := Build(c, "ALLEGATION_VOTE", &evact.AllegationVote{RequestID: req.id, Address: by.ValAddr, Choice: choice}, note, ConsAccount(by))
	sp.Meta = map[string]string{"request": req.id, "by": by.ValAddr.String(), "choice": fmt.Sprint(choice)}
	return sp
}

func (e *Evidence) Plan(c *Ctx) []hist.TxSpec {
	e.n++
	var out []hist.TxSpec
	var gen []*world.Validator
	for _, v := range c.W.Vals {
		if v.InGenesis {
			gen = append(gen, v)
		}
	}
	if len(gen) < 4 {
		return nil
	}
	active := func(v *world.Validator) bool {
		return IsActiveValidator(c.S, v) && !Susp(c.S, v.ValAddr.String()).IsFrozen()
	}
	switch e.n {
	case 3:
		// two allegations opened in one block against different validators
		a := &allegReq{id: fmt.Sprintf("%s-a-%d", e.Tag, c.H), target: gen[0], plan: "guilty", created: c.H, voted: map[string]bool{}}
		bplan := "innocent"
		if c.W.P.StakeMaturity%2 == 1 {
			// (worlds with an odd stake maturity: both allegations end in a guilty verdict, in the same block)
			bplan = "guilty"
		}
		b := &allegReq{id: fmt.Sprintf("%s-b-%d", e.Tag, c.H), target: gen[1], plan: bplan, created: c.H, voted: map[string]bool{}, slow: c.W.P.StakeMaturity%2 == 0}
		e.reqs = append(e.reqs, a, b)
		out = append(out, e.allege(c, gen[3], a, "allegation against v0 (will be found guilty)"))
		out = append(out, e.allege(c, gen[2], b, "allegation against v1 (will be found "+bplan+")"))
		// the same validator is accused twice more in the same block, under other request ids: one request
		// per accused validator survives the block, the same one on every node
		for k, by := range []*world.Validator{gen[2], gen[1]} {
			// (the votes on the last one come a block after the votes on the others: if it is still open then, the
			// validator found guilty in between is found guilty a second time)
			d := &allegReq{id: fmt.Sprintf("%s-a%d-%d", e.Tag, k+2, c.H), target: gen[0], plan: "guilty", created: c.H, voted: map[string]bool{}, late: k == 1}
			e.reqs = append(e.reqs, d)
			out = append(out, e.allege(c, by, d, "further allegation against v0 in the same block under another request id"))
		}
		// an outsider tries as well
		u := c.W.Users[0]
		sp := Build(c, "ALLEGATION", &evact.Allegation{RequestID: "outsider-" + e.Tag, ValidatorAddress: u.Addr, MaliciousAddress: gen[2].ValAddr, BlockHeight: c.H - 1, ProofMsg: "p"}, "allegation by a non-validator (must fail)", u)
		out = append(out, sp)
		return out
	}
	for _, r := range e.reqs {
		age := c.H - r.created
		if r.late {
			if age != 2 {
				continue
			}
			age = 1
		}
		if age < 1 || age > 27 {
			continue
		}
		choice := evact.AllegationVote{}.Choice
		_ = choice
		var ch int8 = 1
		if r.plan == "innocent" {
			ch = 2
		}
		switch age {
		case 1:
			// votes by the two biggest validators, both requests in the same block
			for k, v := range []*world.Validator{gen[3], gen[2]} {
				if r.slow && k == 1 {
					continue
				}
				if v != r.target && active(v) && !r.voted[v.Name] {
					r.voted[v.Name] = true
					out = append(out, e.vote(c, v, r, ch, fmt.Sprintf("%s votes %d on %s", v.Name, ch, r.plan)))
				}
			}
			// a double vote and an outsider vote that must not count
			out = append(out, e.vote(c, gen[3], r, ch, "double vote (must fail)"))
			u := c.W.Users[1]
			out = append(out, Build(c, "ALLEGATION_VOTE", &evact.AllegationVote{RequestID: r.id, Address: u.Addr, Choice: ch}, "vote by a non-validator (must fail)", u))
		case 2:
			if r.plan == "guilty" {
				// the validator found guilty at the end of the previous block votes on the other open allegations
				// (it is frozen; the election has not caught up with the verdict yet)
				for _, o := range e.reqs {
					if o != r && o.target != r.target && c.H-o.created >= 1 && c.H-o.created < 12 {
						out = append(out, e.vote(c, r.target, o, 1, "vote by a validator that was found guilty in the previous block (must fail)"))
					}
				}
			}
		case 3:
			if r.slow && active(gen[2]) && gen[2] != r.target && !r.voted[gen[2].Name] {
				r.voted[gen[2].Name] = true
				out = append(out, e.vote(c, gen[2], r, ch, fmt.Sprintf("%s votes %d on %s, two blocks after the first vote", gen[2].Name, ch, r.plan)))
			}
			if r.plan == "guilty" {
				// the frozen validator tries everything it must not be able to do
				v := r.target
				out = append(out, Build(c, "STAKE", StakeMsg(v, "10"), "stake while frozen (must fail)", &v.Stake, ConsAccount(v)))
				// ... including accusing somebody else: it is not an active validator any more
				{
					other := gen[3]
					if other == v {
						other = gen[2]
					}
					fr := &allegReq{id: fmt.Sprintf("%s-fr-%d", e.Tag, c.H), target: other, plan: "stall", created: c.H, voted: map[string]bool{}}
					out = append(out, e.allege(c, v, fr, "allegation opened by the validator that was found guilty two blocks ago (must fail)"))
				}
				out = append(out, Build(c, "UNSTAKE", &staking.Unstake{ValidatorAddress: v.ValAddr, StakeAddress: v.Stake.Addr, Stake: txb.Amt("OLT", "10")}, "unstake while frozen (must fail)", &v.Stake, ConsAccount(v)))
				out = append(out, Build(c, "WITHDRAW", &staking.Withdraw{ValidatorAddress: v.ValAddr, StakeAddress: v.Stake.Addr, Stake: txb.Amt("OLT", "1")}, "withdraw while frozen (must fail)", &v.Stake, ConsAccount(v)))
				// ... and the same withdrawal naming, as the validator, another address its operator holds the key of
				u := c.W.Users[5%len(c.W.Users)]
				sp := Build(c, "WITHDRAW", &staking.Withdraw{ValidatorAddress: u.Addr, StakeAddress: v.Stake.Addr, Stake: txb.Amt("OLT", "1")}, "withdraw while frozen, naming another address as the validator (must fail)", &v.Stake, u)
				sp.Meta = map[string]string{"validator": u.Addr.String(), "amount": "1"}
				out = append(out, sp)
			}
		case 5, 8, 11, 14, 17, 20, 23, 26:
			// (asked for again every few blocks while it is refused: the configured release time may not be over)
			if r.plan == "guilty" && Susp(c.S, r.target.ValAddr.String()).IsFrozen() {
				v := r.target
				sp := Build(c, "RELEASE", &evact.Release{ValidatorAddress: v.ValAddr}, "release of the guilty validator", ConsAccount(v))
				sp.Meta = map[string]string{"validator": v.ValAddr.String()}
				out = append(out, sp)
			}
		case 6, 9, 12, 15, 18, 21, 24, 27:
			if r.plan == "guilty" && !r.restaked && !Susp(c.S, r.target.ValAddr.String()).IsFrozen() {
				r.restaked = true
				v := r.target
				out = append(out, Build(c, "STAKE", StakeMsg(v, "1500000"), "stake again after release", &v.Stake, ConsAccount(v)))
			}
		}
	}
	// the validator that was found guilty first, released and staked again is accused and found guilty once more
	if e.n == 26 || e.n == 34 {
		if s0 := Susp(c.S, gen[0].ValAddr.String()); s0 != nil && !s0.IsFrozen() && active(gen[0]) && active(gen[2]) && active(gen[3]) {
			r := &allegReq{id: fmt.Sprintf("%s-z-%d", e.Tag, c.H), target: gen[0], plan: "guilty", created: c.H, voted: map[string]bool{}}
			e.reqs = append(e.reqs, r)
			out = append(out, e.allege(c, gen[3], r, "second allegation against the validator that was found guilty and released before"))
			return out
		}
	}
	// a validator unstakes to just below the minimum and is accused in the same block: the block end that purges
	// it from the set is the one that finds it guilty
	if e.n == 30 || e.n == 41 {
		for _, t := range []*world.Validator{gen[0], gen[1]} {
			if !active(t) || !active(gen[2]) || !active(gen[3]) {
				continue
			}
			min := c.W.P.MinSelfDelegation
			if c.W.P.Frankenstein != 0 && c.H > c.W.P.Frankenstein {
				min = 500000 // (the fork block's staking options)
			}
			cur := StakeOf(c.S, t.ValAddr).Int64()
			if min <= 0 || cur < min {
				continue
			}
			out = append(out, Build(c, "UNSTAKE", &staking.Unstake{ValidatorAddress: t.ValAddr, StakeAddress: t.Stake.Addr, Stake: txb.Amt("OLT", fmt.Sprint(cur-min+1))}, "unstake to just below the minimum, right before being accused", &t.Stake, ConsAccount(t)))
			r := &allegReq{id: fmt.Sprintf("%s-p-%d", e.Tag, c.H), target: t, plan: "guilty", created: c.H, voted: map[string]bool{}}
			e.reqs = append(e.reqs, r)
			out = append(out, e.allege(c, gen[3], r, "allegation against a validator that has just unstaked below the minimum (purge and verdict fall in one block)"))
			return out
		}
	}
	// later rounds: new allegations now and then against the smallest active validator
	if e.n > 12 && e.n%11 == 0 {
		var acts []*world.Validator
		for _, v := range gen {
			if active(v) {
				acts = append(acts, v)
			}
		}
		if active(gen[1]) && active(gen[2]) && active(gen[3]) && (e.n/11)%3 == 2 {
			// the second-smallest validator is found guilty while the first one, found guilty and released
			// earlier, keeps its old (released) record
			r := &allegReq{id: fmt.Sprintf("%s-s-%d", e.Tag, c.H), target: gen[1], plan: "guilty", created: c.H, voted: map[string]bool{}}
			e.reqs = append(e.reqs, r)
			out = append(out, e.allege(c, gen[3], r, "allegation against v1 (guilty) after v0 was found guilty and released"))
		} else if len(acts) >= 4 && (e.n/11)%3 == 0 {
			// two validators are found guilty at the end of the same block
			for k, t := range []*world.Validator{gen[0], gen[1]} {
				r := &allegReq{id: fmt.Sprintf("%s-d%d-%d", e.Tag, k, c.H), target: t, plan: "guilty", created: c.H, voted: map[string]bool{}}
				e.reqs = append(e.reqs, r)
				out = append(out, e.allege(c, gen[3-k], r, "one of two allegations that reach their guilty verdict in the same block"))
			}
		} else if len(acts) >= 4 {
			plan := []string{"guilty", "innocent", "stall"}[c.R.Intn(3)]
			r := &allegReq{id: fmt.Sprintf("%s-r-%d", e.Tag, c.H), target: acts[0], plan: plan, created: c.H, voted: map[string]bool{}}
			if plan == "stall" {
				r.created = c.H + 100 // nobody votes
			}
			e.reqs = append(e.reqs, r)
			out = append(out, e.allege(c, acts[len(acts)-1], r, "allegation ("+plan+")"))
			if plan != "stall" {
				d := &allegReq{id: fmt.Sprintf("%s-r2-%d", e.Tag, c.H), target: acts[0], plan: plan, created: c.H, voted: map[string]bool{}}
				e.reqs = append(e.reqs, d)
				out = append(out, e.allege(c, acts[len(acts)-2], d, "second allegation against the same validator in the same block ("+plan+")"))
			}
		}
	}
	return out
}

func (e *Evidence) Observe(c *Ctx, blk *hist.Block) {}
