package gen

import (
	"fmt"
	"math/big"

	"github.com/Oneledger/protocol/action"
	"github.com/Oneledger/protocol/action/staking"
	"github.com/Oneledger/protocol/action/transfer"
	"github.com/Oneledger/protocol/data/keys"

	"olverif/internal/hist"
	"olverif/internal/txb"
	"olverif/internal/world"
)

// ---------------------------------------------------------------- transfers

// Transfers: SEND (OLT and VT) among users and SENDPOOL to the named pools.
type Transfers struct {
	n int
}

func (t *Transfers) Name() string { return "transfers" }

func (t *Transfers) Plan(c *Ctx) []hist.TxSpec {
	var out []hist.TxSpec
	us := c.W.Users
	t.n++
	if t.n == 1 {
		// directed: one of each
		out = append(out, Build(c, "SEND", txb.Send(us[0].Addr, us[1].Addr, "OLT", OLT(5)), "send OLT", us[0]))
		out = append(out, Build(c, "SEND", txb.Send(us[1].Addr, us[2].Addr, "VT", "7"), "send VT", us[1]))
		out = append(out, Build(c, "SENDPOOL", &transfer.SendPool{From: us[2].Addr, PoolName: "BountyPool", Amount: txb.Amt("OLT", OLT(3))}, "sendpool bounty", us[2]))
		return out
	}
	k := c.R.Intn(3)
	for i := 0; i < k; i++ {
		a := us[pick(c.R, len(us))]
		b := us[pick(c.R, len(us))]
		switch c.R.Intn(6) {
		case 0:
			pools := []string{"BountyPool", "RewardsPool", "FeePool"}
			out = append(out, Build(c, "SENDPOOL", &transfer.SendPool{From: a.Addr, PoolName: pools[pick(c.R, len(pools))], Amount: txb.Amt("OLT", fmt.Sprint(1+c.R.Int63n(1e12)))}, "sendpool", a))
		case 1:
			out = append(out, Build(c, "SEND", txb.Send(a.Addr, b.Addr, "VT", fmt.Sprint(1+c.R.Intn(3))), "send VT", a))
		default:
			out = append(out, Build(c, "SEND", txb.Send(a.Addr, b.Addr, "OLT", fmt.Sprint(1+c.R.Int63n(1e15))), "send OLT", a))
		}
	}
	return out
}

func (t *Transfers) Observe(c *Ctx, blk *hist.Block) {}

// ------------------------------------------------------------------ staking

// Staking: candidates stake in, validators add stake, unstake across the
// minimum, and withdraw after maturity.
type Staking struct {
	n        int
	unstaked map[string][]unst // validator name -> pending unstakes
	Boundary bool              // push stakes around the election boundary
	Exit     bool              // several validators leave the active set in one block, and come back later
	firstUn  int64             // height of the first directed unstake of vals[0]
	secondUn int64             // height of the second one, sent while the first is still maturing
	swept    bool
}

type unst struct {
	amt    int64
	mature int64
}

func (s *Staking) Name() string { return "staking" }

func StakeMsg(v *world.Validator, amount string) *staking.Stake {
	return &staking.Stake{
		ValidatorAddress:     v.ValAddr,
		StakeAddress:         v.Stake.Addr,
		ValidatorPubKey:      v.ValPub,
		ValidatorECDSAPubKey: v.EcdsaPub,
		NodeName:             v.Name,
		Stake:                action.Amount{Currency: "OLT", Value: txb.Amt("OLT", amount).Value},
	}
}

func (s *Staking) stake(c *Ctx, v *world.Validator, amt int64, note string) hist.TxSpec {
	sp := Build(c, "STAKE", StakeMsg(v, fmt.Sprint(amt)), note, &v.Stake, ConsAccount(v))
	sp.Meta = map[string]string{"validator": v.ValAddr.String(), "amount": fmt.Sprint(amt)}
	return sp
}

func (s *Staking) unstake(c *Ctx, v *world.Validator, amt int64, note string) hist.TxSpec {
	sp := Build(c, "UNSTAKE", &staking.Unstake{ValidatorAddress: v.ValAddr, StakeAddress: v.Stake.Addr, Stake: txb.Amt("OLT", fmt.Sprint(amt))}, note, &v.Stake, ConsAccount(v))
	sp.Meta = map[string]string{"validator": v.ValAddr.String(), "amount": fmt.Sprint(amt), "v": v.Name}
	return sp
}

func (s *Staking) withdraw(c *Ctx, v *world.Validator, amt int64, note string) hist.TxSpec {
	sp := Build(c, "WITHDRAW", &staking.Withdraw{ValidatorAddress: v.ValAddr, StakeAddress: v.Stake.Addr, Stake: txb.Amt("OLT", fmt.Sprint(amt))}, note, &v.Stake, ConsAccount(v))
	sp.Meta = map[string]string{"validator": v.ValAddr.String(), "amount": fmt.Sprint(amt)}
	return sp
}

// StakeOf reads the validator's recorded total stake (whole OLT).
func StakeOf(st hist.State, val keys.Address) *big.Int {
	return AmountAt(st, "st__t_"+val.String())
}

func BoundedOf(st hist.State, deleg keys.Address) *big.Int {
	return AmountAt(st, "st__d_b_"+deleg.String())
}

func (s *Staking) Plan(c *Ctx) []hist.TxSpec {
	if s.unstaked == nil {
		s.unstaked = map[string][]unst{}
	}
	s.n++
	var out []hist.TxSpec
	vals := c.W.Vals
	min := c.W.P.MinSelfDelegation
	var cands []*world.Validator
	for _, v := range vals {
		if !v.InGenesis {
			cands = append(cands, v)
		}
	}
	switch s.n {
	case 1:
		if len(cands) > 0 {
			out = append(out, s.stake(c, cands[0], min+500, "candidate stakes in"))
		}
		out = append(out, s.stake(c, vals[0], 1000, "validator adds stake"))
		return out
	case 2:
		s.firstUn = c.H
		out = append(out, s.unstake(c, vals[0], 600, "validator unstakes part"))
		if len(vals) > 2 && !s.Exit {
			// (the same by a validator the evidence script leaves alone: an open allegation blocks unstakes)
			out = append(out, s.unstake(c, vals[2], 500, "another validator unstakes part"))
		}
		if !s.Exit && len(cands) > 3 {
			// the first validator's stake address also funds a candidate, with three times as much (the evidence
			// script finds the first validator guilty soon after: the cut is a share of its own stake)
			big := *cands[len(cands)-2]
			big.Stake = vals[0].Stake
			if cur := StakeOf(c.S, vals[0].ValAddr).Int64(); cur > 0 {
				out = append(out, s.stake(c, &big, 3*cur, "candidate staked in by the first validator's stake address with three times its stake"))
			}
		}
		if len(cands) > 1 {
			out = append(out, s.stake(c, cands[1], min, "second candidate stakes exactly the minimum"))
		}
		return out
	case 3:
		// the same delegator unstakes twice in one block: both amounts mature at the same height
		if len(vals) > 1 {
			out = append(out, s.unstake(c, vals[1], 300, "first of two unstakes in one block"), s.unstake(c, vals[1], 200, "second of two unstakes in one block"), s.unstake(c, vals[1], 200, "third unstake in the block, of the same amount as the second"))
		}
		return out
	}
	if s.n == 4 && !s.Exit {
		// a second unstake of the same stake address while the first one is still maturing: it has its own unlock height
		s.secondUn = c.H
		out = append(out, s.unstake(c, vals[0], 150, "second unstake while the first is still maturing"))
		if len(vals) > 2 {
			out = append(out, s.unstake(c, vals[2], 170, "second unstake of another validator while its first is still maturing"))
		}
		return out
	}
	if s.n == 5 && !s.Exit && len(cands) > 2 {
		// one stake address funds two validators: the last candidate is staked in by the first validator's stake address
		// (the second genesis validator's: the evidence script finds that validator guilty later on)
		sh := *cands[len(cands)-1]
		sh.Stake = vals[1].Stake
		out = append(out, s.stake(c, &sh, min+100, "candidate staked in by another validator's stake address"))
		return out
	}
	if s.n == 9 && !s.Exit && len(cands) > 2 {
		sh := *cands[len(cands)-1]
		sh.Stake = vals[1].Stake
		out = append(out, s.unstake(c, vals[1], 200, "unstake from the first of two validators funded by one stake address"), s.unstake(c, &sh, 50, "unstake from the second of two validators funded by one stake address"))
		return out
	}
	if s.firstUn > 0 && !s.swept && !s.Exit && c.H > s.firstUn+c.W.P.StakeMaturity {
		// right after the first unstake has matured: everything the records call withdrawable is withdrawn
		s.swept = true
		if b := BoundedOf(c.S, vals[0].Stake.Addr); b.Sign() > 0 {
			out = append(out, s.withdraw(c, vals[0], b.Int64(), "withdraw all that is withdrawable right after the first unstake matured"))
		}
		if len(vals) > 2 {
			if b := BoundedOf(c.S, vals[2].Stake.Addr); b.Sign() > 0 {
				out = append(out, s.withdraw(c, vals[2], b.Int64(), "withdraw all that is withdrawable right after the first unstake matured (another validator)"))
			}
		}
		if len(out) > 0 {
			return out
		}
	}
	if (s.n == 12 || s.n == 13) && !s.Exit && len(cands) > 0 {
		// a validator takes its whole stake out and stakes in again in the very next block
		v := cands[0]
		if s.n == 12 {
			if cur := StakeOf(c.S, v.ValAddr).Int64(); cur > 0 {
				out = append(out, s.unstake(c, v, cur, "a validator unstakes everything (and stakes in again in the next block)"))
			}
		} else {
			out = append(out, s.stake(c, v, min+5, "stake in again one block after unstaking everything"))
		}
		return out
	}
	if s.Exit && (s.n == 6 || s.n == 22) {
		// every genesis validator but the two strongest drops to a stake of 1 in the same block
		for i, v := range vals {
			if !v.InGenesis || i >= c.W.P.NumGenesisVals-2 {
				continue
			}
			if cur := StakeOf(c.S, v.ValAddr).Int64(); cur > 1 {
				out = append(out, s.unstake(c, v, cur-1, "mass exit: unstake down to 1"))
			}
		}
		return out
	}
	if s.Exit && s.n == 14 {
		for i, v := range vals {
			if !v.InGenesis || i >= c.W.P.NumGenesisVals-2 {
				continue
			}
			out = append(out, s.stake(c, v, min+int64(100*i), "mass return: stake back in"))
		}
		return out
	}
	// withdraw what has matured (bounded amount in state)
	for _, v := range vals {
		b := BoundedOf(c.S, v.Stake.Addr)
		if b.Sign() > 0 && c.R.Intn(2) == 0 {
			amt := b.Int64()
			if amt > 1 && c.R.Intn(2) == 0 {
				amt = 1 + c.R.Int63n(amt)
			}
			out = append(out, s.withdraw(c, v, amt, "withdraw matured"))
			return out
		}
	}
	if c.R.Intn(3) != 0 {
		return out
	}
	v := vals[pick(c.R, len(vals))]
	cur := StakeOf(c.S, v.ValAddr).Int64()
	switch c.R.Intn(5) {
	case 0, 1:
		amt := 1 + c.R.Int63n(2000)
		if cur == 0 {
			amt = min + c.R.Int63n(3) - 1 // around the minimum: min-1, min, min+1
		}
		out = append(out, s.stake(c, v, amt, "stake"))
	case 2, 3:
		if cur > 0 {
			amt := 1 + c.R.Int63n(1500)
			if s.Boundary && c.R.Intn(3) == 0 && cur >= min {
				amt = cur - min + c.R.Int63n(2) // land on min or min-1
				if amt <= 0 {
					amt = 1
				}
			}
			if amt > cur {
				amt = cur
			}
			out = append(out, s.unstake(c, v, amt, "unstake"))
		}
	case 4:
		// premature or excessive withdraw: must fail
		out = append(out, s.withdraw(c, v, 1+c.R.Int63n(50), "withdraw (may be premature)"))
	}
	return out
}

func (s *Staking) Observe(c *Ctx, blk *hist.Block) {}
