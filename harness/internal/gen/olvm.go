package gen

import (
	"encoding/hex"
	"fmt"
	"math/big"

	ethcmn "github.com/ethereum/go-ethereum/common"
	ethtypes "github.com/ethereum/go-ethereum/core/types"
	ethcrypto "github.com/ethereum/go-ethereum/crypto"

	"github.com/Oneledger/protocol/action"
	olvmact "github.com/Oneledger/protocol/action/olvm"
	"github.com/Oneledger/protocol/data/keys"
	"github.com/Oneledger/protocol/utils"

	"olverif/internal/hist"
	"olverif/internal/txb"
	"olverif/internal/world"
)

// OLVM: plain transfers, contract creations and calls that succeed, revert or
// run out of gas, interleaved with native traffic by the other scripts.
type OLVM struct {
	n         int
	nonce     map[string]uint64
	contracts map[string]ethcmn.Address // name -> address
	pending   map[string]pendingCreate  // tx hash note -> info
	Mixed     bool                      // only sandwiches of plain EVM transfers and native transfers (exact per-account accounting)
	OneTx     bool                      // at most one OLVM tx per block (accounting histories)
	Hostile   bool
}

type pendingCreate struct {
	name string
	addr ethcmn.Address
}

func (o *OLVM) Name() string { return "olvm" }

// initCode wraps runtime code into init code that returns it.
func initCode(runtime []byte) []byte {
	n := byte(len(runtime))
	// PUSH1 n PUSH1 12 PUSH1 0 CODECOPY PUSH1 n PUSH1 0 RETURN
	pre := []byte{0x60, n, 0x60, 12, 0x60, 0, 0x39, 0x60, n, 0x60, 0, 0xf3}
	return append(pre, runtime...)
}

var (
	rtStore   = []byte{0x60, 0x00, 0x35, 0x60, 0x00, 0x55, 0x00}                                                 // sstore(0, calldata[0])
	rtRevert  = []byte{0x60, 0x00, 0x60, 0x00, 0xfd}                                                             // revert
	rtForward = []byte{0x60, 0x00, 0x60, 0x00, 0x60, 0x00, 0x60, 0x00, 0x34, 0x60, 0x00, 0x35, 0x5a, 0xf1, 0x00} // call(gas, calldata[0], callvalue)
	rtLog     = []byte{0x60, 0x00, 0x60, 0x00, 0xa0, 0x00}                                                       // log0
	rtLoop    = []byte{0x5b, 0x60, 0x00, 0x56}                                                                   // jumpdest push0 jump
	rtSuicide = []byte{0x33, 0xff}                                                                               // selfdestruct(caller)
	// keeps what it is sent; called without value it pays its whole balance to the caller
	rtPayout = []byte{0x34, 0x60, 0x11, 0x57, 0x60, 0x00, 0x60, 0x00, 0x60, 0x00, 0x60, 0x00, 0x30, 0x31, 0x33, 0x5a, 0xf1, 0x5b, 0x00}
)

// OLVMTx builds a signed OLVM transaction.
func OLVMTx(c *Ctx, from *world.Account, key []byte, nonce uint64, to *ethcmn.Address, value *big.Int, data []byte, gas int64, price string, chainID *big.Int, memo string) []byte {
	return OLVMTxAL(c, from, key, nonce, to, value, data, gas, price, chainID, memo, nil, 0)
}

// OLVMTxAL is OLVMTx with the two payload fields the signature does not cover (access list, type).
func OLVMTxAL(c *Ctx, from *world.Account, key []byte, nonce uint64, to *ethcmn.Address, value *big.Int, data []byte, gas int64, price string, chainID *big.Int, memo string, al *ethtypes.AccessList, typ int64) []byte {
	var toAddr *action.Address
	var ethTo *ethcmn.Address
	if to != nil {
		a := action.Address(to.Bytes())
		toAddr = &a
		ethTo = to
	}
	msg := &olvmact.Transaction{Nonce: nonce, From: from.Addr, To: toAddr, Amount: action.Amount{Currency: "OLT", Value: txb.Amt("OLT", value.String()).Value}, Data: data, ChainID: chainID, AccessList: al, TxType: typ}
	fee := txb.Fee(price, gas)
	raw := txb.Raw(msg, fee, memo)
	ethTx := ethtypes.NewTx(&ethtypes.LegacyTx{Nonce: nonce, To: ethTo, Value: value, Gas: uint64(gas), GasPrice: fee.Price.Value.BigInt(), Data: data})
	k, err := ethcrypto.ToECDSA(key)
	if err != nil {
		panic(err)
	}
	signer := ethtypes.NewEIP155Signer(chainID)
	sig, err := ethcrypto.Sign(signer.Hash(ethTx).Bytes(), k)
	if err != nil {
		panic(err)
	}
	return txb.Pack(raw, []action.Signature{{Signer: from.Pub, Signed: sig}})
}

func ChainIDOf(w *world.World) *big.Int { return utils.HashToBigInt(w.P.ChainID) }

func (o *OLVM) tx(c *Ctx, from *world.Account, to *ethcmn.Address, value *big.Int, data []byte, gas int64, note string) hist.TxSpec {
	key := c.W.EthKeys[from.Addr.String()]
	n := o.nonce[from.Addr.String()]
	bz := OLVMTx(c, from, key, n, to, value, data, gas, "1000000000", ChainIDOf(c.W), fmt.Sprint(n))
	sp := hist.TxSpec{Kind: "OLVM", Bytes: bz, Note: note, Signers: []string{from.Addr.String()}}
	sp.Meta = map[string]string{"from": from.Addr.String(), "nonce": fmt.Sprint(n), "value": value.String(), "gas": fmt.Sprint(gas), "price": "1000000000", "data": hex.EncodeToString(data)}
	if to != nil {
		sp.Meta["to"] = keys.Address(to.Bytes()).String()
	}
	o.nonce[from.Addr.String()] = n + 1 // optimistic; corrected in Observe
	return sp
}

func (o *OLVM) create(c *Ctx, from *world.Account, name string, runtime []byte, value *big.Int) hist.TxSpec {
	n := o.nonce[from.Addr.String()]
	addr := ethcrypto.CreateAddress(ethcmn.BytesToAddress(from.Addr), n)
	sp := o.tx(c, from, nil, value, initCode(runtime), 200000, "create "+name)
	sp.Meta["create"] = name
	sp.Meta["contract"] = keys.Address(addr.Bytes()).String()
	o.pending[sp.Note+sp.Meta["nonce"]+sp.Meta["from"]] = pendingCreate{name, addr}
	return sp
}

// sandwich: an OLVM transaction, native transfers that change the same accounts' balances, and another OLVM
// transaction of the same sender, all in one block.
func (o *OLVM) sandwich(c *Ctx, a, b *world.Account) []hist.TxSpec {
	var out []hist.TxSpec
	to := ethcmn.BytesToAddress(b.Addr)
	u := c.W.Users[0]
	out = append(out, o.tx(c, a, &to, big.NewInt(1000+c.R.Int63n(1000)), nil, 21000, "plain transfer (before native transfers in the same block)"))
	s1 := Build(c, "SEND", txb.Send(u.Addr, a.Addr, "OLT", "100"), "native transfer to an account the EVM just used", u)
	s2 := Build(c, "SEND", txb.Send(u.Addr, b.Addr, "OLT", "50"), "native transfer to an account the EVM just credited", u)
	out = append(out, s1, s2)
	out = append(out, o.tx(c, a, &to, big.NewInt(2000+c.R.Int63n(1000)), nil, 21000, "plain transfer (after native transfers in the same block)"))
	return out
}

// readSandwich: an EVM message that only looks at a natively keyed account (a transfer of nothing to it), a native
// transfer by which that account spends, and an EVM transfer that pays it — all in one block.
func (o *OLVM) readSandwich(c *Ctx, a *world.Account) []hist.TxSpec {
	r := c.W.Users[1+c.R.Intn(len(c.W.Users)-1)]
	to := ethcmn.BytesToAddress(r.Addr)
	first := o.tx(c, a, &to, big.NewInt(0), nil, 21000, "EVM transfer of nothing to a natively keyed account")
	s1 := Build(c, "SEND", txb.Send(r.Addr, c.W.Users[0].Addr, "OLT", "50"), "native transfer by the account the EVM just looked at", r)
	last := o.tx(c, a, &to, big.NewInt(700+c.R.Int63n(100)), nil, 21000, "EVM transfer to the account that has just spent natively")
	return []hist.TxSpec{first, s1, last}
}

// accessListFailure: a transfer whose gas limit is exactly the intrinsic gas of a plain transfer but which
// carries an access list in its payload: it passes validation (which prices it without the list) and is
// rejected by the state transition after the gas was bought. A good transfer of the same sender follows in
// the same block. (Reaches a block only through a proposer that skips its mempool check.)
func (o *OLVM) accessListFailure(c *Ctx, a, b *world.Account) []hist.TxSpec {
	to := ethcmn.BytesToAddress(b.Addr)
	key := c.W.EthKeys[a.Addr.String()]
	n := o.nonce[a.Addr.String()]
	al := &ethtypes.AccessList{{Address: to, StorageKeys: []ethcmn.Hash{{1}}}}
	bz := OLVMTxAL(c, a, key, n, &to, big.NewInt(77), nil, 21000, "1000000000", ChainIDOf(c.W), fmt.Sprint(n), al, 0)
	sp := hist.TxSpec{Kind: "OLVM", Bytes: bz, Note: "gas at the plain intrinsic cost with an access list (rejected after the gas was bought)", Signers: []string{a.Addr.String()}, Force: true}
	sp.Meta = map[string]string{"from": a.Addr.String(), "nonce": fmt.Sprint(n), "value": "77", "to": keys.Address(to.Bytes()).String(), "data": "", "expect": "fail"}
	good := o.tx(c, a, &to, big.NewInt(3000+c.R.Int63n(1000)), nil, 21000, "plain transfer right after a rejected one of the same sender")
	return []hist.TxSpec{sp, good}
}

// failedSandwich: an OLVM transaction that the state transition refuses (nonce ahead of the account's: the
// mempool check admits it), native transfers changing the same account's balance, then a good OLVM
// transaction of that account — all in one block.
func (o *OLVM) failedSandwich(c *Ctx, a, b *world.Account) []hist.TxSpec {
	to := ethcmn.BytesToAddress(b.Addr)
	key := c.W.EthKeys[a.Addr.String()]
	n := o.nonce[a.Addr.String()]
	bz := OLVMTx(c, a, key, n+3, &to, big.NewInt(11), nil, 21000, "1000000000", ChainIDOf(c.W), fmt.Sprint(n+3))
	bad := hist.TxSpec{Kind: "OLVM", Bytes: bz, Note: "nonce ahead by three (refused by the state transition)", Signers: []string{a.Addr.String()}}
	bad.Meta = map[string]string{"from": a.Addr.String(), "nonce": fmt.Sprint(n + 3), "value": "11", "to": keys.Address(to.Bytes()).String(), "data": "", "expect": "fail"}
	if c.R.Intn(2) == 0 {
		// ... or one that validation refuses after it has looked at the sender: worth more than the sender holds
		// (reaches a block only through a proposer that skips its mempool check)
		v := new(big.Int).Add(BalanceOf(c.S, a.Addr, "OLT"), big.NewInt(1))
		bz = OLVMTx(c, a, key, n, &to, v, nil, 21000, "1000000000", ChainIDOf(c.W), fmt.Sprint(n)+"x")
		bad = hist.TxSpec{Kind: "OLVM", Bytes: bz, Note: "value above the balance (refused by validation after reading the sender)", Signers: []string{a.Addr.String()}, Force: true}
		bad.Meta = map[string]string{"from": a.Addr.String(), "nonce": fmt.Sprint(n), "value": v.String(), "to": keys.Address(to.Bytes()).String(), "data": "", "expect": "fail"}
	}
	u := c.W.Users[0]
	s1 := Build(c, "SEND", txb.Send(u.Addr, a.Addr, "OLT", "1000000000000000000000"), "native transfer to the account whose EVM transaction was just refused", u)
	good := o.tx(c, a, &to, big.NewInt(4000+c.R.Int63n(1000)), nil, 21000, "plain transfer after a refused one and a native credit")
	return []hist.TxSpec{bad, s1, good}
}

func word(b []byte) []byte {
	out := make([]byte, 32)
	copy(out[32-len(b):], b)
	return out
}

func (o *OLVM) Plan(c *Ctx) []hist.TxSpec {
	if len(c.W.EthUsers) < 2 || c.W.P.Frankenstein == 0 || c.H <= c.W.P.Frankenstein {
		return nil
	}
	if o.nonce == nil {
		o.nonce = map[string]uint64{}
		o.contracts = map[string]ethcmn.Address{}
		o.pending = map[string]pendingCreate{}
	}
	o.n++
	es := c.W.EthUsers
	var out []hist.TxSpec
	e1 := ethcmn.BytesToAddress(es[1].Addr)
	if o.Mixed {
		// only plain EVM transfers interleaved with native transfers touching the same accounts
		a, b := es[pick(c.R, len(es))], es[pick(c.R, len(es))]
		if c.R.Intn(3) == 0 {
			return o.failedSandwich(c, a, b)
		}
		if c.R.Intn(3) == 0 {
			return o.readSandwich(c, a)
		}
		out = append(out, o.sandwich(c, a, b)...)
		if c.R.Intn(2) == 0 {
			out = append(out, o.sandwich(c, b, a)...)
		}
		return out
	}
	switch o.n {
	case 1:
		out = append(out, o.tx(c, es[0], &e1, big.NewInt(12345), nil, 21000, "plain transfer"))
	case 2:
		out = append(out, o.create(c, es[0], "store", rtStore, big.NewInt(0)))
	case 3:
		out = append(out, o.create(c, es[1], "revert", rtRevert, big.NewInt(0)))
	case 4:
		out = append(out, o.create(c, es[0], "forward", rtForward, big.NewInt(0)))
	case 5:
		out = append(out, o.create(c, es[1], "log", rtLog, big.NewInt(0)))
	case 6:
		out = append(out, o.create(c, es[0], "loop", rtLoop, big.NewInt(0)))
	case 7, 15, 31:
		out = append(out, o.sandwich(c, es[0], es[1])...)
	case 27, 33:
		out = append(out, o.readSandwich(c, es[0])...)
	case 32:
		// a value sent into an execution that fails having used all its gas: a precompile with no gas left
		// beyond the intrinsic cost
		{
			pre := ethcmn.BytesToAddress([]byte{2})
			out = append(out, o.tx(c, es[1], &pre, big.NewInt(1000000), nil, 21000, "value sent to the sha256 precompile with no gas beyond the intrinsic cost (fails, all gas used)"))
		}
	case 35, 37:
		// a transaction that fails in its handler (nonce ahead: refused by the state transition), then, in the
		// same block, a call that emits an event
		if a, ok := o.contracts["log"]; ok {
			to := ethcmn.BytesToAddress(es[1].Addr)
			key := c.W.EthKeys[es[0].Addr.String()]
			n := o.nonce[es[0].Addr.String()]
			bz := OLVMTx(c, es[0], key, n+4, &to, big.NewInt(13), nil, 21000, "1000000000", ChainIDOf(c.W), fmt.Sprint(n+4))
			bad := hist.TxSpec{Kind: "OLVM", Bytes: bz, Note: "nonce ahead by four (refused by the state transition), in front of an event-emitting call", Signers: []string{es[0].Addr.String()}}
			bad.Meta = map[string]string{"from": es[0].Addr.String(), "nonce": fmt.Sprint(n + 4), "value": "13", "to": keys.Address(to.Bytes()).String(), "data": "", "expect": "fail"}
			out = append(out, bad, o.tx(c, es[1], &a, big.NewInt(0), nil, 40000, "call log emitter right after a failed transaction"))
		}
	case 36:
		// a transaction made, consistently, for another network: payload chain id and signature both name it
		{
			to := ethcmn.BytesToAddress(es[1].Addr)
			n := o.nonce[es[0].Addr.String()]
			bz := OLVMTx(c, es[0], c.W.EthKeys[es[0].Addr.String()], n, &to, big.NewInt(6), nil, 21000, "1000000000", big.NewInt(424242), fmt.Sprint(n))
			sp := hist.TxSpec{Kind: "OLVM", Bytes: bz, Note: "transaction made for another network (chain id 424242 in payload and signature)", Signers: []string{es[0].Addr.String()}, Force: true}
			sp.Meta = map[string]string{"from": es[0].Addr.String(), "nonce": fmt.Sprint(n), "value": "6", "to": keys.Address(to.Bytes()).String(), "data": "", "expect": "fail", "foreign_chain": "424242"}
			out = append(out, sp)
		}
	case 38:
		// value is sent to the address the sender's next deployment will get ...
		{
			n := o.nonce[es[0].Addr.String()]
			future := ethcrypto.CreateAddress(ethcmn.BytesToAddress(es[0].Addr), n+1)
			out = append(out, o.tx(c, es[0], &future, big.NewInt(3000), nil, 21000, "plain transfer to the address of the sender's next deployment"))
		}
	case 39:
		// ... and the deployment follows (with an endowment)
		out = append(out, o.create(c, es[0], "prefunded", rtStore, big.NewInt(11)))
	case 42:
		out = append(out, o.create(c, es[0], "suicide", rtSuicide, big.NewInt(0)))
	case 43:
		// the contract's address is paid natively: its balance record is written by a block of its own ...
		if a, ok := o.contracts["suicide"]; ok {
			u := c.W.Users[0]
			out = append(out, Build(c, "SEND", txb.Send(u.Addr, keys.Address(a.Bytes()), "OLT", "777"), "native transfer to the address of a contract that can destroy itself", u))
		}
	case 44:
		// ... and a later call makes it destroy itself in favour of the caller
		if a, ok := o.contracts["suicide"]; ok {
			sp := o.tx(c, es[1], &a, big.NewInt(0), nil, 60000, "call that makes the natively funded contract destroy itself in favour of the caller")
			sp.Meta["payout"] = keys.Address(a.Bytes()).String()
			out = append(out, sp)
		}
	case 40, 41:
		// a call that ends in REVERT having used only part of its gas, without and with a value
		if a, ok := o.contracts["revert"]; ok {
			out = append(out, o.tx(c, es[1], &a, big.NewInt(int64(o.n-40)*777), nil, 50000, "call reverting contract (gas limit above the gas used)"))
		}
	case 34:
		if a, ok := o.contracts["loop"]; ok {
			out = append(out, o.tx(c, es[1], &a, big.NewInt(4242), nil, 40000, "value sent into an infinite loop (out of gas)"))
		}
	case 8, 16:
		out = append(out, o.accessListFailure(c, es[0], es[1])...)
	case 11, 19:
		out = append(out, o.failedSandwich(c, es[0], es[1])...)
	case 12, 20, 28:
		// two transactions with the same nonce in one block: both pass the mempool check, the second is no
		// longer valid once the first has executed
		{
			to := ethcmn.BytesToAddress(es[1].Addr)
			first := o.tx(c, es[0], &to, big.NewInt(111), nil, 21000, "first of two transactions with the same nonce")
			key := c.W.EthKeys[es[0].Addr.String()]
			n := o.nonce[es[0].Addr.String()] - 1
			bz := OLVMTx(c, es[0], key, n, &to, big.NewInt(222), nil, 21000, "1000000000", ChainIDOf(c.W), fmt.Sprint(n))
			second := hist.TxSpec{Kind: "OLVM", Bytes: bz, Note: "second of two transactions with the same nonce (invalid by the time it is delivered)", Signers: []string{es[0].Addr.String()}}
			second.Meta = map[string]string{"from": es[0].Addr.String(), "nonce": fmt.Sprint(n), "value": "222", "to": keys.Address(to.Bytes()).String(), "data": "", "expect": "fail"}
			out = append(out, first, second)
		}
	case 13, 29:
		// an account spends everything it holds: value = balance - gas limit * price, all the gas is used
		{
			a := es[len(es)-1]
			to := ethcmn.BytesToAddress(es[0].Addr)
			fee := new(big.Int).Mul(big.NewInt(21000), big.NewInt(1000000000))
			if v := new(big.Int).Sub(BalanceOf(c.S, a.Addr, "OLT"), fee); v.Sign() > 0 {
				out = append(out, o.tx(c, a, &to, v, nil, 21000, "plain transfer of everything the sender holds (balance ends at exactly zero)"))
			}
		}
	case 14, 30:
		{
			u := c.W.Users[0]
			out = append(out, Build(c, "SEND", txb.Send(u.Addr, es[len(es)-1].Addr, "OLT", "25"), "native transfer refunds the emptied account", u))
		}
	case 21:
		out = append(out, o.create(c, es[0], "payout", rtPayout, big.NewInt(0)))
	case 22, 25:
		if a, ok := o.contracts["payout"]; ok {
			out = append(out, o.tx(c, es[1], &a, big.NewInt(5000+int64(o.n)), nil, 60000, "deposit into the paying-out contract"))
		}
	case 23, 24, 26:
		if a, ok := o.contracts["payout"]; ok {
			sp := o.tx(c, es[1], &a, big.NewInt(0), nil, 90000, "the contract pays out its whole balance to the caller")
			sp.Meta["payout"] = keys.Address(a.Bytes()).String()
			out = append(out, sp)
		}
	case 9, 17:
		// fill a storage slot ...
		if a, ok := o.contracts["store"]; ok {
			out = append(out, o.tx(c, es[1], &a, big.NewInt(0), word([]byte{7}), 60000, "call store: set slot 0 to a non-zero value"))
		}
		// (and an event-emitting call by somebody else)
		if a, ok := o.contracts["log"]; ok && !o.OneTx {
			out = append(out, o.tx(c, es[0], &a, big.NewInt(0), nil, 40000, "call log emitter"))
		}
	case 10, 18:
		// ... and clear it again: this call earns a gas refund
		if a, ok := o.contracts["store"]; ok {
			out = append(out, o.tx(c, es[1], &a, big.NewInt(0), word([]byte{0}), 60000, "call store: reset slot 0 to zero (earns a gas refund)"))
		}
	default:
		k := 1
		if !o.OneTx {
			k = 1 + c.R.Intn(2)
		}
		for i := 0; i < k; i++ {
			from := es[pick(c.R, len(es))]
			if i > 0 && o.OneTx {
				break
			}
			switch c.R.Intn(14) {
			case 13:
				out = append(out, o.readSandwich(c, from)...)
			case 12:
				out = append(out, o.accessListFailure(c, from, es[pick(c.R, len(es))])...)
			case 11:
				out = append(out, o.sandwich(c, from, es[pick(c.R, len(es))])...)
			case 8:
				// nonce behind / wrong chain id: fail the consensus pre-checks (delivered by a byzantine proposer)
				to := ethcmn.BytesToAddress(es[pick(c.R, len(es))].Addr)
				n := o.nonce[from.Addr.String()]
				key := c.W.EthKeys[from.Addr.String()]
				if n > 0 && c.R.Intn(2) == 0 {
					bz := OLVMTx(c, from, key, n-1, &to, big.NewInt(5), nil, 21000, "1000000000", ChainIDOf(c.W), fmt.Sprint(n-1))
					sp := hist.TxSpec{Kind: "OLVM", Bytes: bz, Note: "nonce behind (pre-check failure)", Signers: []string{from.Addr.String()}, Force: true}
					sp.Meta = map[string]string{"from": from.Addr.String(), "nonce": fmt.Sprint(n - 1), "value": "5", "to": keys.Address(to.Bytes()).String(), "data": ""}
					out = append(out, sp)
				} else {
					bz := OLVMTx(c, from, key, n, &to, big.NewInt(5), nil, 21000, "1000000000", big.NewInt(12345), fmt.Sprint(n))
					sp := hist.TxSpec{Kind: "OLVM", Bytes: bz, Note: "wrong chain id (pre-check failure)", Signers: []string{from.Addr.String()}, Force: true}
					sp.Meta = map[string]string{"from": from.Addr.String(), "nonce": fmt.Sprint(n), "value": "5", "to": keys.Address(to.Bytes()).String(), "data": ""}
					out = append(out, sp)
				}
			case 9:
				// value above the balance: fails the balance pre-check
				to := ethcmn.BytesToAddress(es[pick(c.R, len(es))].Addr)
				n := o.nonce[from.Addr.String()]
				key := c.W.EthKeys[from.Addr.String()]
				v := new(big.Int).Add(BalanceOf(c.S, from.Addr, "OLT"), big.NewInt(1))
				bz := OLVMTx(c, from, key, n, &to, v, nil, 21000, "1000000000", ChainIDOf(c.W), fmt.Sprint(n))
				sp := hist.TxSpec{Kind: "OLVM", Bytes: bz, Note: "value above balance (pre-check failure)", Signers: []string{from.Addr.String()}, Force: true}
				sp.Meta = map[string]string{"from": from.Addr.String(), "nonce": fmt.Sprint(n), "value": v.String(), "to": keys.Address(to.Bytes()).String(), "data": ""}
				out = append(out, sp)
			case 10:
				// nonce ahead by two: tolerated by the relaxed pre-check, still exactly one step
				to := ethcmn.BytesToAddress(es[pick(c.R, len(es))].Addr)
				n := o.nonce[from.Addr.String()]
				key := c.W.EthKeys[from.Addr.String()]
				bz := OLVMTx(c, from, key, n+2, &to, big.NewInt(9), nil, 21000, "1000000000", ChainIDOf(c.W), fmt.Sprint(n+2))
				sp := hist.TxSpec{Kind: "OLVM", Bytes: bz, Note: "nonce ahead by two", Signers: []string{from.Addr.String()}}
				sp.Meta = map[string]string{"from": from.Addr.String(), "nonce": fmt.Sprint(n + 2), "value": "9", "to": keys.Address(to.Bytes()).String(), "data": ""}
				out = append(out, sp)
			case 0:
				to := ethcmn.BytesToAddress(es[pick(c.R, len(es))].Addr)
				out = append(out, o.tx(c, from, &to, big.NewInt(1+c.R.Int63n(1e9)), nil, 21000+int64(c.R.Intn(3))*1000, "plain transfer"))
			case 1:
				if a, ok := o.contracts["store"]; ok {
					out = append(out, o.tx(c, from, &a, big.NewInt(0), word([]byte{byte(c.R.Intn(3))}), 60000, "call store (sstore 0/x patterns)"))
				}
			case 2:
				if a, ok := o.contracts["revert"]; ok {
					out = append(out, o.tx(c, from, &a, big.NewInt(int64(c.R.Intn(2))*777), nil, 50000, "call reverting contract"))
				}
			case 3:
				if a, ok := o.contracts["forward"]; ok {
					to := es[pick(c.R, len(es))].Addr
					out = append(out, o.tx(c, from, &a, big.NewInt(1+c.R.Int63n(5000)), word(to), 80000, "call forwarder with value"))
				}
			case 4:
				if a, ok := o.contracts["log"]; ok {
					out = append(out, o.tx(c, from, &a, big.NewInt(0), nil, 40000, "call log emitter"))
				}
			case 5:
				if a, ok := o.contracts["loop"]; ok {
					out = append(out, o.tx(c, from, &a, big.NewInt(0), nil, 30000+int64(c.R.Intn(5))*1000, "call infinite loop (out of gas)"))
				}
			case 6:
				// nonce ahead by one (tolerated by the relaxed pre-check) or low gas
				if a, ok := o.contracts["store"]; ok {
					out = append(out, o.tx(c, from, &a, big.NewInt(0), word([]byte{1}), 21000+int64(c.R.Intn(2000)), "call store with gas near intrinsic (may run out)"))
				}
			case 7:
				out = append(out, o.create(c, from, fmt.Sprintf("store%d", o.n), rtStore, big.NewInt(int64(c.R.Intn(2))*5)))
			}
		}
	}
	return out
}

// Observe corrects the nonce bookkeeping from what was actually executed and
// records created contracts.
func (o *OLVM) Observe(c *Ctx, blk *hist.Block) {
	if o.nonce == nil {
		return
	}
	// recompute nonces from the account keeper records (authoritative)
	for _, u := range c.W.EthUsers {
		if n, ok := KeeperNonce(blk.Cur, u.Addr); ok {
			o.nonce[u.Addr.String()] = n
		} else {
			o.nonce[u.Addr.String()] = 0
		}
	}
	for _, t := range blk.Txs {
		if t.Kind != "OLVM" || t.Call.Code != 0 {
			continue
		}
		if name, ok := t.Meta["create"]; ok {
			var a keys.Address
			_ = a.UnmarshalText([]byte(t.Meta["contract"]))
			// only if code was really deployed
			if _, has := blk.Cur["keeper_"+string(a)]; has {
				o.contracts[name] = ethcmn.BytesToAddress(a)
				if len(name) > 5 && name[:5] == "store" {
					o.contracts["store"] = ethcmn.BytesToAddress(a)
				}
			}
		}
	}
}
