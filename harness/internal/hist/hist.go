// Package hist runs block histories on one or more real nodes (olbox child
// processes) in lock-step and keeps what was observed: per-replica ABCI
// transcripts and the leader's decoded committed state before and after every
// block. It decides nothing; monitors do.
package hist

import (
	"encoding/hex"
	"fmt"
	"os"
	"path/filepath"
	"sort"
	"strings"

	"olverif/internal/boxcli"
	"olverif/internal/proto"
	"olverif/internal/world"
)

// TxSpec is one generated transaction together with what the generator knows
// about it (the monitors need this knowledge: who signed, which kind, whether
// it is meant to be hostile).
type TxSpec struct {
	Bytes   []byte            `json:"bytes"`
	Kind    string            `json:"kind"`
	Signers []string          `json:"signers,omitempty"` // 0lt… addresses with a valid signature on it
	Note    string            `json:"note,omitempty"`
	Trait   string            `json:"trait,omitempty"` // hostile trait, "" = honest
	Field   string            `json:"field,omitempty"` // field the trait applies to
	Meta    map[string]string `json:"meta,omitempty"`
	Force   bool              `json:"force,omitempty"` // byzantine proposer: include without admission
}

// TxResult is a TxSpec with the DeliverTx result the leader returned.
type TxResult struct {
	TxSpec
	Call proto.Call `json:"call"`
}

// Block is everything recorded about one applied block.
type Block struct {
	H        int64         `json:"h"`
	Recipe   *proto.Recipe `json:"recipe"`
	Specs    []TxSpec      `json:"-"`
	Rejected []TxSpec      `json:"-"` // refused by admission (CheckTx != 0)
	Resp     []*proto.Resp `json:"-"` // per replica
	Txs      []TxResult    `json:"txs"`
	Begin    proto.Call    `json:"begin"`
	End      proto.Call    `json:"end"`
	Commit   proto.Call    `json:"commit"`
	TimeMs   int64         `json:"time_ms"`
	Proposer string        `json:"proposer"`
	Prev     State         `json:"-"`
	Cur      State         `json:"-"`
	Vals     []proto.Val   `json:"-"` // validator set that will sign this block's commit (state.Validators after apply = for h+1)
}

// State is a committed key/value set.
type State map[string][]byte

func (s State) Clone() State {
	c := make(State, len(s))
	for k, v := range s {
		c[k] = v
	}
	return c
}

func (s State) Apply(delta []proto.KV, full bool) State {
	var c State
	if full {
		c = State{}
	} else {
		c = s.Clone()
	}
	for _, kv := range delta {
		if kv.D {
			delete(c, string(kv.K))
		} else {
			c[string(kv.K)] = kv.V
		}
	}
	return c
}

func (s State) Keys() []string {
	ks := make([]string, 0, len(s))
	for k := range s {
		ks = append(ks, k)
	}
	sort.Strings(ks)
	return ks
}

// Replica is one box plus how it is configured.
type Replica struct {
	Name string
	Spec world.NodeSpec
	Env  []string
	Box  *boxcli.Box
	Root string
}

// Runner owns the replicas of one history. Replica 0 is the leader: its dumps
// feed the decoded state; the optional scout answers admission queries.
type Runner struct {
	lastTx  []byte // most recent submitted transaction (gossip mode re-submits it in blocks without traffic)
	Gossip  bool   // every replica runs CheckTx on every submitted transaction before the block
	ByzPct  int    // share (percent) of mempool-refused transactions a byzantine proposer includes anyway
	W       *world.World
	Dir     string
	Keyring string
	Reps    []*Replica
	Scout   *Replica
	H       int64
	State   State
	Blocks  []*Block
	KeepAll bool // keep every Block (replay files); otherwise only the last few
	TimeMs  int64
}

// NewRunner creates the scratch directory, writes the node directories and
// boots every replica (InitChain happens here).
func NewRunner(w *world.World, dir string, specs []world.NodeSpec, envs [][]string, withScout bool) (*Runner, error) {
	if err := os.MkdirAll(dir, 0755); err != nil {
		return nil, err
	}
	r := &Runner{W: w, Dir: dir, Keyring: filepath.Join(dir, "keyring.json"), State: State{}}
	if err := w.WriteKeyring(r.Keyring); err != nil {
		return nil, err
	}
	mk := func(i int, spec world.NodeSpec, env []string) (*Replica, error) {
		root := filepath.Join(dir, spec.Name)
		if err := w.WriteNode(root, spec); err != nil {
			return nil, err
		}
		b, err := boxcli.Start(spec.Name, root, r.Keyring, env, nil)
		if err != nil {
			return nil, fmt.Errorf("start %s: %v", spec.Name, err)
		}
		return &Replica{Name: spec.Name, Spec: spec, Env: env, Box: b, Root: root}, nil
	}
	for i, s := range specs {
		var env []string
		if i < len(envs) {
			env = envs[i]
		}
		rep, err := mk(i, s, env)
		if err != nil {
			r.Close()
			return nil, err
		}
		r.Reps = append(r.Reps, rep)
	}
	if withScout {
		rep, err := mk(-1, world.NodeSpec{Name: "scout", Stranger: "scout", LogLevel: 0}, nil)
		if err != nil {
			r.Close()
			return nil, err
		}
		r.Scout = rep
	}
	r.TimeMs = r.Reps[0].Box.Boot.BlockTime
	// the genesis state InitChain wrote (committed with block 1) is the
	// "previous state" of block 1
	if resp, err := r.Reps[0].Box.Do(proto.Cmd{Op: "dump", Full: true}); err == nil {
		r.State = State{}.Apply(resp.Dump, true)
	}
	return r, nil
}

func (r *Runner) Close() {
	for _, rep := range r.Reps {
		if rep != nil && rep.Box != nil {
			rep.Box.Kill()
		}
	}
	if r.Scout != nil && r.Scout.Box != nil {
		r.Scout.Box.Kill()
	}
}

// Admit asks the scout (or, without scout, nobody: everything passes) which
// transactions an honest proposer's mempool would accept, in order.
func (r *Runner) Admit(specs []TxSpec) (ok []TxSpec, rejected []TxSpec, checks []proto.Call, err error) {
	for _, s := range specs {
		if s.Force || r.Scout == nil {
			ok = append(ok, s)
			continue
		}
		resp, e := r.Scout.Box.Check(s.Bytes)
		if e != nil {
			return nil, nil, nil, fmt.Errorf("scout: %v", e)
		}
		var c proto.Call
		for _, cc := range resp.Calls {
			if cc.M == "CheckTx" {
				c = cc
			}
		}
		checks = append(checks, c)
		if c.Code == 0 && !resp.Panicked {
			ok = append(ok, s)
		} else {
			s2 := s
			s2.Meta = map[string]string{}
			for k, v := range s.Meta {
				s2.Meta[k] = v
			}
			s2.Meta["check_log"] = c.Log
			rejected = append(rejected, s2)
			if r.ByzPct > 0 && !resp.Panicked {
				// a byzantine proposer includes what its mempool refused (a fixed share, chosen by content)
				sum := 0
				for _, b := range s.Bytes {
					sum = (sum*31 + int(b)) % 1000003
				}
				if sum%100 < r.ByzPct {
					s3 := s2
					s3.Force = true
					s3.Meta["byzantine"] = "refused by the mempool check, included anyway"
					ok = append(ok, s3)
				}
			}
		}
	}
	return
}

// Plan is what a caller wants in the next block.
type Plan struct {
	DtMs     int64
	Txs      []TxSpec
	Absent   []string
	Evidence []proto.EvidenceSpec
	// Stray: transactions that only ever reach the mempool check, keyed by the call boundary of the block at
	// which they arrive on every replica; they are in no block
	Stray map[string][][]byte
	// PerReplica lets a check alter the recipe for one replica (C06 filters
	// failed txs, C07 injects CheckTx, C08 crashes); nil = same recipe.
	PerReplica func(i int, base proto.Recipe, sofar *Block) *proto.Recipe
}

// Step admits, builds the recipe, applies it on every replica (and the scout)
// and records the result. The leader's state delta is applied to r.State.
func (r *Runner) Step(p Plan) (*Block, error) {
	admitted, rejected, _, err := r.Admit(p.Txs)
	if err != nil {
		return nil, err
	}
	rc := proto.Recipe{DtMs: p.DtMs, Absent: p.Absent, Evidence: p.Evidence}
	for _, s := range admitted {
		rc.Txs = append(rc.Txs, s.Bytes)
	}
	blk := &Block{H: r.H + 1, Specs: admitted, Rejected: rejected, Prev: r.State}
	if len(p.Txs) > 0 {
		defer func(b []byte) { r.lastTx = b }(p.Txs[len(p.Txs)-1].Bytes)
	}
	for i, rep := range r.Reps {
		rci := rc
		if i == 0 {
			rci.Dump = true
		}
		if r.Gossip {
			// as on a real node, every submitted transaction (admitted or not) passes this node's
			// mempool check before the block that may carry it arrives
			var all [][]byte
			for _, s := range p.Txs {
				all = append(all, s.Bytes)
			}
			rci.Inject = map[string][][]byte{"before:BeginBlock": all}
			// ... and stragglers arrive while the block executes: after the first delivery, and between the
			// last delivery and the block end (re-submissions of what is being delivered; refused, but checked)
			if len(all) > 0 {
				rci.Inject["after:DeliverTx:0"] = all[len(all)-1:]
				rci.Inject["before:EndBlock"] = all[:1]
			} else if r.lastTx != nil {
				rci.Inject["before:EndBlock"] = [][]byte{r.lastTx}
			}
		}
		if len(p.Stray) > 0 {
			inj := map[string][][]byte{}
			for k, v := range rci.Inject {
				inj[k] = append(inj[k], v...)
			}
			for k, v := range p.Stray {
				inj[k] = append(inj[k], v...)
			}
			rci.Inject = inj
		}
		var use *proto.Recipe = &rci
		if p.PerReplica != nil {
			if i > 0 && blk.Resp[0] != nil {
				// make the leader's results available to the hook
				blk.Txs = nil
				di := 0
				for _, c := range blk.Resp[0].Calls {
					if c.M == "DeliverTx" && !c.Injected {
						if di < len(admitted) {
							blk.Txs = append(blk.Txs, TxResult{TxSpec: admitted[di], Call: c})
						}
						di++
					}
				}
			}
			if alt := p.PerReplica(i, rci, blk); alt != nil {
				use = alt
			}
		}
		if i == 0 {
			blk.Recipe = use
		}
		resp, e := rep.Box.Block(use)
		if e != nil {
			blk.Resp = append(blk.Resp, nil)
			if i == 0 {
				return blk, &BoxError{Replica: rep.Name, Err: e, Block: blk}
			}
			continue
		}
		blk.Resp = append(blk.Resp, resp)
	}
	if r.Scout != nil {
		rs := rc
		if _, e := r.Scout.Box.Block(&rs); e != nil {
			return blk, &BoxError{Replica: "scout", Err: e, Block: blk}
		}
	}
	lead := blk.Resp[0]
	if lead.Err != "" {
		return blk, fmt.Errorf("leader could not build block %d: %s", blk.H, lead.Err)
	}
	if lead.ApplyErr != "" {
		return blk, &ApplyError{Msg: lead.ApplyErr, Block: blk}
	}
	di := 0
	blk.Txs = nil
	for _, c := range lead.Calls {
		if c.Injected {
			continue
		}
		switch c.M {
		case "BeginBlock":
			blk.Begin = c
		case "EndBlock":
			blk.End = c
		case "Commit":
			blk.Commit = c
		case "DeliverTx":
			if di < len(admitted) {
				blk.Txs = append(blk.Txs, TxResult{TxSpec: admitted[di], Call: c})
			}
			di++
		}
	}
	blk.TimeMs = lead.BlockTime
	blk.Proposer = lead.Proposer
	r.State = r.State.Apply(lead.Dump, lead.DumpFull)
	blk.Cur = r.State
	r.H = lead.Height
	r.TimeMs = lead.BlockTime
	r.Blocks = append(r.Blocks, blk)
	if !r.KeepAll && len(r.Blocks) > 12 {
		r.Blocks[len(r.Blocks)-13].Prev = nil
		r.Blocks[len(r.Blocks)-13].Cur = nil
		r.Blocks[len(r.Blocks)-13].Resp = nil
	}
	return blk, nil
}

// BoxError: a replica process died or timed out while executing a block.
type BoxError struct {
	Replica string
	Err     error
	Block   *Block
}

func (e *BoxError) Error() string { return fmt.Sprintf("replica %s: %v", e.Replica, e.Err) }

// ApplyError: Tendermint refused the block's results (e.g. validator updates).
type ApplyError struct {
	Msg   string
	Block *Block
}

func (e *ApplyError) Error() string { return "tendermint refused block results: " + e.Msg }

// ValSet asks the leader for Tendermint's current / next validator sets.
func (r *Runner) ValSet() (*proto.Resp, error) {
	return r.Reps[0].Box.Do(proto.Cmd{Op: "valset"})
}

// Recipes returns the leader recipes so far (replay material).
func (r *Runner) Recipes() []*proto.Recipe {
	var out []*proto.Recipe
	for _, b := range r.Blocks {
		out = append(out, b.Recipe)
	}
	return out
}

// Project renders the consensus projection of one response's calls that C01,
// C06, C07 and C08 compare: Commit.Data, EndBlock.ValidatorUpdates,
// DeliverTx.{Code,Data,GasUsed,GasWanted}; nothing else.
func Project(calls []proto.Call) []string {
	var out []string
	for _, c := range calls {
		if c.Injected {
			continue
		}
		switch c.M {
		case "InitChain":
			out = append(out, "InitChain "+vuStr(c.ValUpdates))
		case "DeliverTx":
			out = append(out, fmt.Sprintf("DeliverTx %s code=%d data=%s gu=%d gw=%d", short(c.TxHash), c.Code, c.Data, c.GasUsed, c.GasWanted))
		case "EndBlock":
			out = append(out, "EndBlock "+vuStr(c.ValUpdates))
		case "Commit":
			out = append(out, "Commit "+c.AppHash)
		}
	}
	return out
}

// ProjectResults is Project plus the events of every delivered transaction (the whole transaction result).
func ProjectResults(calls []proto.Call) []string {
	var out []string
	for _, c := range calls {
		if c.Injected {
			continue
		}
		switch c.M {
		case "InitChain":
			out = append(out, "InitChain "+vuStr(c.ValUpdates))
		case "DeliverTx":
			var ev []string
			for _, e := range c.Events {
				var kv []string
				for _, a := range e.Attrs {
					kv = append(kv, a.K+"="+a.V)
				}
				ev = append(ev, e.Type+"{"+strings.Join(kv, ",")+"}")
			}
			out = append(out, fmt.Sprintf("DeliverTx %s code=%d data=%s gu=%d gw=%d events=%s", short(c.TxHash), c.Code, c.Data, c.GasUsed, c.GasWanted, strings.Join(ev, ";")))
		case "EndBlock":
			out = append(out, "EndBlock "+vuStr(c.ValUpdates))
		case "Commit":
			out = append(out, "Commit "+c.AppHash)
		}
	}
	return out
}

func short(s string) string {
	if len(s) > 12 {
		return s[:12]
	}
	return s
}

func vuStr(vus []proto.ValUpdate) string {
	var parts []string
	for _, v := range vus {
		parts = append(parts, fmt.Sprintf("%s:%s=%d", v.PubKeyType, short(v.PubKey), v.Power))
	}
	return "[" + strings.Join(parts, ",") + "]"
}

// FirstDiff compares two projections.
func FirstDiff(a, b []string) (int, string, string) {
	n := len(a)
	if len(b) > n {
		n = len(b)
	}
	for i := 0; i < n; i++ {
		var x, y string
		if i < len(a) {
			x = a[i]
		}
		if i < len(b) {
			y = b[i]
		}
		if x != y {
			return i, x, y
		}
	}
	return -1, "", ""
}

// HexAddr converts "0lt…" to upper-case hex (Tendermint address form).
func HexAddr(olt string) string {
	return strings.ToUpper(strings.TrimPrefix(olt, "0lt"))
}

func Hex(b []byte) string { return hex.EncodeToString(b) }
