// Package drive runs generated histories: it wires scripts, the block-time and
// absent-signer schedule and the per-block monitors of a check around a
// hist.Runner.
package drive

import (
	"math/big"

	"fmt"
	ethcmn "github.com/ethereum/go-ethereum/common"
	"math/rand"
	"os"
	"path/filepath"
	"sync"
	"sync/atomic"

	"github.com/Oneledger/protocol/action"

	"olverif/internal/gen"
	"olverif/internal/hist"
	"olverif/internal/proto"
	"olverif/internal/txb"
	"olverif/internal/world"
)

var scratchOnce sync.Once
var scratchRoot string
var caseCounter int64

// Scratch returns this process's scratch root (outside /repo and /verif).
func Scratch() string {
	scratchOnce.Do(func() {
		scratchRoot = fmt.Sprintf("/var/tmp/olverif.%d", os.Getpid())
		_ = os.MkdirAll(scratchRoot, 0755)
	})
	return scratchRoot
}

// Cleanup removes the scratch root.
func Cleanup() {
	if os.Getenv("VERIF_KEEP_SCRATCH") != "" {
		fmt.Println("scratch kept at", scratchRoot) // triage aid
		return
	}
	if scratchRoot != "" {
		_ = os.RemoveAll(scratchRoot)
	}
}

// CaseDir allocates a fresh directory for one history.
func CaseDir(tag string) string {
	n := atomic.AddInt64(&caseCounter, 1)
	return filepath.Join(Scratch(), fmt.Sprintf("%s-%d", tag, n))
}

// Cfg describes one history.
type Cfg struct {
	Tag       string
	Seed      int64
	Blocks    int
	Params    world.Params
	Scripts   []string
	Specs     []world.NodeSpec // replica identities; nil = one validator leader
	Envs      [][]string
	Scout     bool
	KeepAll   bool
	Honest    bool // honest proposer only: nothing is forced into a block past admission
	Gossip    bool // replicas run the mempool check on every submitted transaction before each block
	Stray     bool // transfers that are in no block reach every replica's mempool check while blocks execute
	Byzantine int  // percent of the transactions the mempool check refuses that are put into blocks anyway
	// Schedule knobs
	Jumps       bool                   // occasionally jump block time across cycle/year boundaries
	Absents     bool                   // occasionally starve a validator of votes
	DtFn        func(h int64) int64    // overrides the block time step (milliseconds) of block h when it returns > 0
	ForceAbsent func(h int64) []string // validators (hex addresses) that do not sign the commit of block h-1, on top of the schedule
	Evid        bool                   // occasionally include duplicate-vote evidence
	QuietAt     func(h int64) bool     // blocks in which every validator signs and no evidence is included, whatever the schedule says
	// Hooks
	Setup      func(r *hist.Runner) error
	PerReplica func(r *hist.Runner, h int64, i int, base proto.Recipe, sofar *hist.Block) *proto.Recipe
	FeeFn      func(kind string) *action.Fee // lets a check vary fees / gas limits per generated tx
	OnBlock    func(r *hist.Runner, blk *hist.Block) (stop bool)
	ExtraPlan  func(c *gen.Ctx) []hist.TxSpec
	FilterPlan func(c *gen.Ctx, specs []hist.TxSpec) []hist.TxSpec
}

// Result of a history.
type Result struct {
	R      *hist.Runner
	W      *world.World
	Err    error
	Blocks int
}

// Run executes the history. The caller owns Result.R (Close it).
func Run(cfg Cfg) *Result {
	res := &Result{}
	w, err := world.New(cfg.Params)
	if err != nil {
		res.Err = err
		return res
	}
	res.W = w
	specs := cfg.Specs
	if specs == nil {
		specs = []world.NodeSpec{{Name: "lead", Validator: w.Vals[0], LogLevel: 2}}
	}
	dir := CaseDir(cfg.Tag)
	r, err := hist.NewRunner(w, dir, specs, cfg.Envs, cfg.Scout)
	if err != nil {
		res.Err = err
		return res
	}
	r.KeepAll = cfg.KeepAll
	r.ByzPct = cfg.Byzantine
	r.Gossip = cfg.Gossip
	res.R = r
	if cfg.Setup != nil {
		if err := cfg.Setup(r); err != nil {
			res.Err = err
			return res
		}
	}
	rng := rand.New(rand.NewSource(cfg.Seed))
	memo := &txb.Memo{Tag: fmt.Sprintf("%s-%d", cfg.Tag, cfg.Seed)}
	scripts := gen.ByNames(cfg.Scripts)
	sched := newSchedule(w, rng, cfg)
	for i := 0; i < cfg.Blocks; i++ {
		c := &gen.Ctx{W: w, R: rng, H: r.H + 1, S: r.State, Memo: memo, TimeMs: r.TimeMs, FeeFn: cfg.FeeFn}
		var plan hist.Plan
		for _, s := range scripts {
			plan.Txs = append(plan.Txs, s.Plan(c)...)
		}
		if cfg.ExtraPlan != nil {
			plan.Txs = append(plan.Txs, cfg.ExtraPlan(c)...)
		}
		if cfg.Honest {
			for k := range plan.Txs {
				plan.Txs[k].Force = false
			}
		}
		if cfg.FilterPlan != nil {
			plan.Txs = cfg.FilterPlan(c, plan.Txs)
		}
		plan.DtMs, plan.Absent, plan.Evidence = sched.next(c)
		if cfg.DtFn != nil {
			if dt := cfg.DtFn(c.H); dt > 0 {
				plan.DtMs = dt
			}
		}
		if cfg.QuietAt != nil && cfg.QuietAt(c.H) {
			plan.Absent, plan.Evidence = nil, nil
		}
		if cfg.ForceAbsent != nil {
			plan.Absent = append(plan.Absent, cfg.ForceAbsent(c.H)...)
		}
		if cfg.PerReplica != nil {
			h := c.H
			plan.PerReplica = func(i int, base proto.Recipe, sofar *hist.Block) *proto.Recipe {
				return cfg.PerReplica(r, h, i, base, sofar)
			}
		}
		if cfg.Stray && len(w.Users) > 2 {
			// a good transfer and one beyond the sender's means, from accounts that rotate; never proposed
			us := w.Users
			a, b := us[int(c.H)%len(us)], us[int(c.H+1)%len(us)]
			good := txb.Tx(txb.Send(a.Addr, b.Addr, "OLT", fmt.Sprint(3+c.H%5)), txb.DefaultFee(), fmt.Sprintf("stray-%s-%d-%d", cfg.Tag, cfg.Seed, c.H), a)
			poor := txb.Tx(txb.Send(b.Addr, a.Addr, "OLT", "900000000000"), txb.DefaultFee(), fmt.Sprintf("stray-poor-%s-%d-%d", cfg.Tag, cfg.Seed, c.H), b)
			at := []string{"after:BeginBlock", "after:DeliverTx:0", "before:EndBlock", "before:Commit"}
			plan.Stray = map[string][][]byte{at[int(c.H)%len(at)]: {good}, at[int(c.H+2)%len(at)]: {poor}}
			// ... and an EVM transaction of an account that stays in the mempool while blocks that pay or charge
			// that account are executed
			if es := w.EthUsers; len(es) > 1 && w.P.Frankenstein != 0 && c.H > w.P.Frankenstein {
				x, y := es[int(c.H)%len(es)], es[int(c.H+1)%len(es)]
				n, _ := gen.KeeperNonce(r.State, x.Addr)
				to := ethcmn.BytesToAddress(y.Addr)
				evm := gen.OLVMTx(c, x, w.EthKeys[x.Addr.String()], n, &to, big.NewInt(5), nil, 21000, "1000000000", gen.ChainIDOf(w), fmt.Sprintf("stray-evm-%d", c.H))
				b := []string{"before:BeginBlock", "after:BeginBlock", "before:Commit"}[int(c.H)%3]
				plan.Stray[b] = append(plan.Stray[b], evm)
				// every other block somebody's EVM transfer in the block pays that account
				if c.H%2 == 0 {
					ny, _ := gen.KeeperNonce(r.State, y.Addr)
					tx := ethcmn.BytesToAddress(x.Addr)
					pay := gen.OLVMTx(c, y, w.EthKeys[y.Addr.String()], ny, &tx, big.NewInt(3), nil, 21000, "1000000000", gen.ChainIDOf(w), fmt.Sprintf("pay-%d", c.H))
					sp := hist.TxSpec{Kind: "OLVM", Bytes: pay, Note: "EVM transfer to an account whose own EVM transaction is waiting in the mempool", Signers: []string{y.Addr.String()}}
					sp.Meta = map[string]string{"from": y.Addr.String(), "nonce": fmt.Sprint(ny), "value": "3", "gas": "21000", "price": "1000000000", "data": "", "to": x.Addr.String()}
					plan.Txs = append(plan.Txs, sp)
				}
			}
		}
		blk, err := r.Step(plan)
		if err != nil {
			res.Err = err
			res.Blocks = i
			if blk != nil && cfg.OnBlock != nil {
				// let monitors see a block Tendermint refused / a crash
			}
			return res
		}
		for _, s := range scripts {
			s.Observe(c, blk)
		}
		res.Blocks = i + 1
		if cfg.OnBlock != nil {
			if cfg.OnBlock(r, blk) {
				return res
			}
		}
	}
	return res
}

// schedule decides block times, absent signers and evidence.
type schedule struct {
	w        *world.World
	rng      *rand.Rand
	cfg      Cfg
	starve   string
	starveTo int64
}

func newSchedule(w *world.World, rng *rand.Rand, cfg Cfg) *schedule {
	return &schedule{w: w, rng: rng, cfg: cfg}
}

func (s *schedule) next(c *gen.Ctx) (dt int64, absent []string, ev []proto.EvidenceSpec) {
	dt = 5000
	if s.cfg.Jumps {
		switch s.rng.Intn(12) {
		case 0:
			dt = 60 * 1000 // a minute
		case 1:
			dt = 3600 * 1000 * 24 * 40 // forty days: crosses year boundaries in a few jumps
		case 2:
			dt = 1000
		case 3:
			dt = 2 * 3600 * 1000 // two hours: more than an hour, less than a day
		}
	}
	if s.cfg.Absents && c.H > 2 {
		if s.starve == "" && s.rng.Intn(10) == 0 {
			// starve the smallest genesis validator (keeps > 2/3 present)
			s.starve = hist.HexAddr(s.w.Vals[0].ValAddr.String())
			s.starveTo = c.H + 3 + int64(s.rng.Intn(5))
		}
		if s.starve != "" {
			absent = []string{s.starve}
			if c.H >= s.starveTo {
				s.starve = ""
			}
		}
	}
	if s.cfg.Evid && c.H > 5 && s.rng.Intn(14) == 0 {
		v := s.w.Vals[1+s.rng.Intn(2)]
		ev = append(ev, proto.EvidenceSpec{Validator: hist.HexAddr(v.ValAddr.String()), Height: c.H - 2})
	}
	return
}
