// Package deps pins module requirements in go.mod so that concurrent builds
// never need to rewrite it.
package deps

import (
	_ "github.com/anishathalye/porcupine"
	_ "github.com/btcsuite/btcd/btcec"
	_ "github.com/ethereum/go-ethereum/core/state"
	_ "github.com/ethereum/go-ethereum/core/vm"
	_ "github.com/google/uuid"
	_ "github.com/pkg/errors"
	_ "github.com/tendermint/go-amino"
	_ "github.com/tendermint/iavl"
)
