// Package txb builds and signs transactions with the repository's own message
// types, serialiser and key handlers, the way a client does.
package txb

import (
	"crypto/sha256"
	"crypto/sha512"
	"fmt"

	"github.com/Oneledger/protocol/action"
	"github.com/Oneledger/protocol/action/transfer"
	"github.com/Oneledger/protocol/data/balance"
	"github.com/Oneledger/protocol/data/keys"

	"olverif/internal/world"
)

// Amt makes an action.Amount from a decimal string.
func Amt(cur, v string) action.Amount {
	a, err := balance.NewAmountFromString(v, 10)
	if err != nil {
		panic(err)
	}
	return action.Amount{Currency: cur, Value: *a}
}

// Fee returns a fee with the given price (nue per gas unit) and gas limit.
func Fee(price string, gas int64) action.Fee {
	return action.Fee{Price: Amt("OLT", price), Gas: gas}
}

// DefaultFee is the minimal accepted price with a roomy gas limit.
func DefaultFee() action.Fee { return Fee("1000000000", 400000) }

func Raw(msg action.Msg, fee action.Fee, memo string) action.RawTx {
	data, err := msg.Marshal()
	if err != nil {
		panic(err)
	}
	return action.RawTx{Type: msg.Type(), Data: data, Fee: fee, Memo: memo}
}

// SignWith signs raw with the given private keys, in order.
func SignWith(raw action.RawTx, privs ...keys.PrivateKey) []action.Signature {
	rb := raw.RawBytes()
	var sigs []action.Signature
	for _, p := range privs {
		h, err := p.GetHandler()
		if err != nil {
			panic(err)
		}
		s, err := h.Sign(rb)
		if err != nil {
			panic(err)
		}
		pub := h.PubKey()
		if pub.KeyType == keys.SECP256K1 && len(pub.Data) == 38 {
			// PrivateKeySECP256K1.PubKey() keeps Tendermint's 5-byte amino prefix; a client sends the 33-byte key
			pub.Data = pub.Data[5:]
		}
		sigs = append(sigs, action.Signature{Signer: pub, Signed: s})
	}
	return sigs
}

// TxPreHash signs the way a hardware wallet does: the ed25519 signature is made over a digest of the raw
// transaction bytes and is prefixed with the 6-byte name of the digest ("SHA256", "SHA512", ...).
func TxPreHash(msg action.Msg, fee action.Fee, memo string, tag string, signer *world.Account) []byte {
	raw := Raw(msg, fee, memo)
	var digest []byte
	switch tag {
	case "SHA224":
		d := sha256.Sum224(raw.RawBytes())
		digest = d[:]
	case "SHA256":
		d := sha256.Sum256(raw.RawBytes())
		digest = d[:]
	case "SHA384":
		d := sha512.Sum384(raw.RawBytes())
		digest = d[:]
	case "SHA512":
		d := sha512.Sum512(raw.RawBytes())
		digest = d[:]
	default:
		panic("unknown pre-hash tag " + tag)
	}
	h, err := signer.Priv.GetHandler()
	if err != nil {
		panic(err)
	}
	sg, err := h.Sign(digest)
	if err != nil {
		panic(err)
	}
	return Pack(raw, []action.Signature{{Signer: h.PubKey(), Signed: append([]byte(tag), sg...)}})
}

func Pack(raw action.RawTx, sigs []action.Signature) []byte {
	st := action.SignedTx{RawTx: raw, Signatures: sigs}
	return st.SignedBytes()
}

// Tx = Raw + SignWith + Pack for the common single-signer case.
func Tx(msg action.Msg, fee action.Fee, memo string, signers ...*world.Account) []byte {
	raw := Raw(msg, fee, memo)
	var privs []keys.PrivateKey
	for _, s := range signers {
		privs = append(privs, s.Priv)
	}
	return Pack(raw, SignWith(raw, privs...))
}

// Memo gives unique memos so that every generated transaction has unique bytes.
type Memo struct {
	Tag string
	n   int
}

func (m *Memo) Next() string {
	m.n++
	return fmt.Sprintf("%s-%d", m.Tag, m.n)
}

func Send(from, to keys.Address, cur, v string) *transfer.Send {
	return &transfer.Send{From: from, To: to, Amount: Amt(cur, v)}
}
