// olc16 decides property C16 (EVM state adapter == go-ethereum reference
// state) by differential execution. See internal/evmdiff.
//
//	olc16 quick|thorough        run a tier (env VERIF_SEED, VERIF_DIR)
//	olc16 --replay <file>       re-run a witness and print both sides
package main

import (
	"fmt"
	"os"
	"strconv"
	"strings"

	"olverif/internal/evmdiff"
)

func main() {
	args := os.Args[1:]
	if len(args) == 0 {
		fmt.Fprintln(os.Stderr, "usage: olc16 quick|thorough | --replay <file>")
		os.Exit(2)
	}
	switch args[0] {
	case "--replay":
		if len(args) < 2 {
			fmt.Fprintln(os.Stderr, "usage: olc16 --replay <file>")
			os.Exit(2)
		}
		os.Exit(evmdiff.ReplayMain(args[1]))
	case "--one": // hidden: run one generated case in-process and print it
		if len(args) < 3 {
			os.Exit(2)
		}
		idx, _ := strconv.Atoi(args[2])
		os.Exit(evmdiff.OneMain(args[1], idx))
	case "--child": // hidden: worker process
		tier := ""
		wi, wn, from := 0, 1, 0
		dir := ""
		if len(args) > 1 {
			tier = args[1]
		}
		for i := 2; i+1 < len(args); i += 2 {
			switch args[i] {
			case "--worker":
				p := strings.SplitN(args[i+1], "/", 2)
				if len(p) == 2 {
					wi, _ = strconv.Atoi(p[0])
					wn, _ = strconv.Atoi(p[1])
				}
			case "--from":
				from, _ = strconv.Atoi(args[i+1])
			case "--dir":
				dir = args[i+1]
			}
		}
		if wn < 1 || dir == "" {
			os.Exit(2)
		}
		os.Exit(evmdiff.ChildMain(tier, wi, wn, from, dir))
	default:
		os.Exit(evmdiff.ParentMain(args[0]))
	}
}
