// olc09 decides C09 (the layered state store behaves like a transactional,
// versioned map) by differential execution of the real storage.State +
// storage.ChainState against a reference model and write-projection twins.
//
//	olc09 <quick|thorough> [--replay <path>]
package main

import (
	"encoding/json"
	"fmt"
	"io/ioutil"
	"math"
	"math/rand"
	"os"
	"os/exec"
	"os/signal"
	"path/filepath"
	"sort"
	"strings"
	"sync"
	"sync/atomic"
	"syscall"
	"time"

	"olverif/internal/storediff"
	"olverif/internal/verdict"
)

const workers = 14

var scratch = fmt.Sprintf("/var/tmp/olverif.%d", os.Getpid())

func cleanup() { _ = os.RemoveAll(scratch) }

func usage() {
	fmt.Println("usage: olc09 <quick|thorough> [--replay <path>]")
	os.Exit(2)
}

func main() {
	if len(os.Args) < 2 {
		usage()
	}
	storediff.Quiet()
	if os.Args[1] == "conc-child" {
		// phase 1: latest reads only; phase 2: with versioned reads (this
		// one can die of a fatal "concurrent map read and map write")
		for _, versioned := range []bool{false, true} {
			res := storediff.ConcurrentDiag(verdict.Seed(), versioned)
			bz, _ := json.Marshal(res)
			fmt.Printf("CONC-RESULT versioned=%v %s\n", versioned, string(bz))
		}
		return
	}
	tier := os.Args[1]
	if tier != "quick" && tier != "thorough" {
		usage()
	}
	if err := os.MkdirAll(scratch, 0755); err != nil {
		fmt.Println("cannot create scratch dir:", err)
		os.Exit(2)
	}
	sigc := make(chan os.Signal, 1)
	signal.Notify(sigc, os.Interrupt, syscall.SIGTERM)
	go func() {
		<-sigc
		cleanup()
		os.Exit(2)
	}()
	for i := 2; i < len(os.Args); i++ {
		if os.Args[i] == "--replay" {
			if i+1 >= len(os.Args) {
				usage()
			}
			code := replay(os.Args[i+1])
			cleanup()
			os.Exit(code)
		}
	}
	code := run(tier)
	cleanup()
	os.Exit(code)
}

var dirSeq int64

func newDir() string {
	return filepath.Join(scratch, fmt.Sprintf("d%d", atomic.AddInt64(&dirSeq, 1)))
}

func baseCfg() storediff.Config {
	return storediff.Config{Backend: "memdb", Rot: [3]int64{10, 100, 10}, NK: 2, NV: 2, FlatTwin: true}
}

func run(tier string) int {
	r := verdict.New("C09", tier, "exploration")
	r.Rule = "every returned value of Get/Exists/GetVersioned/Commit/reopen of the real storage.State+ChainState equals the three-map reference model " +
		"(a Set/Delete that returned an error is not a write); at every block-commit the root hash equals that of twin real stores that received only the write projection " +
		"(with and without session brackets); a sequence is non-trivial if it holds at least one write and at least one compared read, commit or reopen"
	r.Assumptions = []string{
		"commit-tx without an open session is not generated: State.CommitTxSession panics there by design and the app never does it",
		"GetVersioned is only asserted for versions the documented rotation policy keeps (latest recent+1 versions, and the latest `cycles` multiples of `every`); nothing is asserted about versions the policy may delete",
		"block-commit = State.Commit() followed by a new State (gas-wrapped with a new calculator when the mode is gas) on the same ChainState, as app/controller.go blockBeginner/commitor do",
		"full-content checks after block-commit and reopen read through a fresh plain storage.State so that the block's gas calculator is not disturbed",
	}
	wd := time.AfterFunc(40*time.Minute, func() {
		r.Inconclusive("watchdog: run exceeded 40 minutes")
		code := r.Finish()
		cleanup()
		os.Exit(code)
	})
	defer wd.Stop()

	coll := storediff.NewCollector(3)
	total := storediff.NewStats()
	var totalMu sync.Mutex

	// ---------------- systematic ----------------
	L := 4
	if tier == "thorough" {
		L = 6
	}
	modes := []storediff.Config{}
	for _, g := range []struct {
		gas   bool
		limit int64
	}{{false, 0}, {true, math.MaxInt64}, {true, 0}, {true, 1}, {true, 250}} {
		c := baseCfg()
		c.Gas, c.Limit = g.gas, g.limit
		modes = append(modes, c)
	}
	alpha := storediff.Alphabet(2, 2)
	perSeqCase := math.Pow(float64(len(alpha)), float64(L))*float64(len(modes)) <= 3e6
	type item struct {
		cfg    storediff.Config
		prefix []storediff.Op
	}
	var items []item
	for _, c := range modes {
		for _, a := range alpha {
			for _, b := range alpha {
				items = append(items, item{c, []storediff.Op{a, b}})
			}
		}
	}
	var sysSeqs, sysNT, sysViol, sysPruned, sysOpsExecuted int64
	{
		ch := make(chan item, len(items))
		for _, it := range items {
			ch <- it
		}
		close(ch)
		var wg sync.WaitGroup
		for w := 0; w < workers; w++ {
			wg.Add(1)
			go func() {
				defer wg.Done()
				st := storediff.NewStats()
				var seqs, nt, viol, pruned, opsx int64
				for it := range ch {
					name := it.cfg.Name()
					grp, grpCounted := "", false
					var grpOps [4]storediff.Op
					pruned += storediff.Enumerate(alpha, it.prefix, L, func(seq []storediff.Op) {
						v, n := storediff.Run(it.cfg, "", seq, st, nil)
						isNT := storediff.NonTrivial(seq[:n])
						seqs++
						opsx += int64(n)
						if isNT {
							nt++
						}
						if perSeqCase {
							r.Case(name+"|"+strings.Join(storediff.OpStrings(seq), ";"), isNT)
						} else {
							// too many sequences to remember each one: the id is
							// the (mode, first four ops) group
							var g [4]storediff.Op
							copy(g[:], seq)
							if grp == "" || g != grpOps {
								grpOps = g
								grp = name + "|" + strings.Join(storediff.OpStrings(seq[:4]), ";")
								grpCounted = false
							}
							if isNT && !grpCounted {
								r.Case(grp, true) // hashes and remembers the group id
								grpCounted = true
							} else {
								r.Case("", false) // counts the evaluation only
							}
						}
						if v != nil && v.Harness {
							r.Inconclusive("harness failure: " + v.What)
						} else if v != nil {
							viol++
							coll.Add(storediff.Finding{Sig: v.Sig, Cfg: it.cfg, Ops: seq[:v.At+1], What: v.What, Expected: v.Expected, Got: v.Got,
								Source: "systematic", OrigLen: len(seq)})
						}
					})
				}
				totalMu.Lock()
				total.Merge(st)
				totalMu.Unlock()
				atomic.AddInt64(&sysSeqs, seqs)
				atomic.AddInt64(&sysNT, nt)
				atomic.AddInt64(&sysViol, viol)
				atomic.AddInt64(&sysPruned, pruned)
				atomic.AddInt64(&sysOpsExecuted, opsx)
			}()
		}
		wg.Wait()
	}
	sysWall := time.Since(startTime).Seconds()
	r.Sample(map[string]interface{}{"workload": "systematic", "config": modes[2].Name(), "ops": storediff.OpStrings([]storediff.Op{alpha[0], alpha[12], alpha[4], alpha[8]})})
	var modeNames []string
	for _, c := range modes {
		modeNames = append(modeNames, c.Name())
	}
	r.Set("systematic", map[string]interface{}{
		"length": L, "alphabet": storediff.OpStrings(alpha), "modes": modeNames,
		"sequences_executed": sysSeqs, "sequences_nontrivial": sysNT, "sequences_stopped_at_violation": sysViol,
		"branches_pruned_commit_tx_without_session": sysPruned, "ops_executed": sysOpsExecuted,
		"case_granularity": map[bool]string{true: "one Case per sequence", false: "one Case per sequence (evaluations is exact); distinct_nontrivial counts the (mode, first four ops) groups that hold a non-trivial sequence, the exact count of non-trivial sequences is the counter sequences_nontrivial"}[perSeqCase],
		"note":             "all sequences of exactly this length are executed; every shorter sequence is a prefix of one of them and every op is compared",
	})
	r.Exhaustive = true

	// ---------------- random ----------------
	N := 2000
	if tier == "thorough" {
		N = 50000
	}
	rots := [][3]int64{{10, 100, 10}, {0, 0, 0}, {1, 2, 1}, {0, 1, 0}, {2, 3, 2}, {3, 5, 0}, {0, 2, 1}, {1, 4, 3}}
	gasModes := []struct {
		gas   bool
		limit int64
	}{{false, 0}, {true, math.MaxInt64}, {true, 0}, {true, 300}, {true, 1000}, {true, 5000}}
	seed := verdict.Seed()
	var rndSeqs, rndNT, rndViol, rndCompleted, rndSteered, rndSteeredCompleted, rndOps int64
	var sampleOnce sync.Once
	{
		ch := make(chan int, N)
		for i := 0; i < N; i++ {
			ch <- i
		}
		close(ch)
		var wg sync.WaitGroup
		for w := 0; w < workers; w++ {
			wg.Add(1)
			go func() {
				defer wg.Done()
				st := storediff.NewStats()
				for i := range ch {
					rng := rand.New(rand.NewSource(seed*1000003 + int64(i)))
					cfg := storediff.Config{Backend: "goleveldb", NK: 5, NV: 6, FlatTwin: true}
					cfg.Rot = rots[rng.Intn(len(rots))]
					steered := i%2 == 0
					gm := gasModes[rng.Intn(len(gasModes))]
					if steered {
						gm = gasModes[rng.Intn(2)]
					}
					cfg.Gas, cfg.Limit = gm.gas, gm.limit
					n := 30 + rng.Intn(171)
					ops := storediff.Random(rng, cfg, n, steered)
					v, done := storediff.Run(cfg, newDir(), ops, st, nil)
					isNT := storediff.NonTrivial(ops[:done])
					r.Case(fmt.Sprintf("random|%d|%d", seed, i), isNT)
					atomic.AddInt64(&rndSeqs, 1)
					atomic.AddInt64(&rndOps, int64(done))
					if isNT {
						atomic.AddInt64(&rndNT, 1)
					}
					if steered {
						atomic.AddInt64(&rndSteered, 1)
					}
					if v != nil && v.Harness {
						r.Inconclusive("harness failure: " + v.What)
					} else if v != nil {
						atomic.AddInt64(&rndViol, 1)
						coll.Add(storediff.Finding{Sig: v.Sig, Cfg: cfg, Ops: ops[:v.At+1], What: v.What, Expected: v.Expected, Got: v.Got,
							Source: fmt.Sprintf("random seed=%d index=%d steered=%v", seed, i, steered), OrigLen: len(ops)})
					} else {
						atomic.AddInt64(&rndCompleted, 1)
						if steered {
							atomic.AddInt64(&rndSteeredCompleted, 1)
						}
						sampleOnce.Do(func() {
							r.Sample(map[string]interface{}{"workload": "random", "config": cfg.Name(), "steered": steered, "ops": storediff.OpStrings(ops)})
						})
					}
				}
				totalMu.Lock()
				total.Merge(st)
				totalMu.Unlock()
			}()
		}
		wg.Wait()
	}
	r.Set("random", map[string]interface{}{
		"sequences": rndSeqs, "sequences_nontrivial": rndNT, "sequences_stopped_at_violation": rndViol, "sequences_run_to_completion": rndCompleted,
		"steered_sequences": rndSteered, "steered_run_to_completion": rndSteeredCompleted, "ops_executed": rndOps,
		"length": "30..200", "keys": 5, "values": 6, "backend": "goleveldb directory, reopen = close and open again", "rotations": rots,
		"gas_modes": "plain, max, 0, 300, 1000, 5000 (steered sequences: plain, max)",
		"steering":  "every second sequence is generated so that it never reads a key whose latest write in scope is a delete of the current block/session (the recorded tombstone defect would end it at once); the oracle is unchanged",
		"wall_s":    time.Since(startTime).Seconds() - sysWall,
	})

	// ---------------- counters and gates ----------------
	for k := storediff.Kind(0); int(k) < len(total.Ops); k++ {
		name := "op_" + k.String()
		r.Count(name, int(total.Ops[k]))
		r.Gate(name, 100)
	}
	r.Count("sequences_executed", int(sysSeqs+rndSeqs))
	r.Count("sequences_nontrivial", int(sysNT+rndNT))
	r.Count("sequences_stopped_at_violation", int(sysViol+rndViol))
	r.Count("comparisons", int(total.Comparisons))
	r.Count("twin_commits_compared", int(total.TwinCommits))
	r.Count("flat_twin_commits_compared", int(total.FlatTwinCommits))
	r.Count("commit_content_checks", int(total.CommitContentChecks))
	r.Count("reopens", int(total.Reopens))
	r.Count("versioned_compared", int(total.VersionedCompared))
	r.Count("versioned_compared_latest_version", int(total.VersionedLatest))
	r.Count("versioned_compared_recent_window", int(total.VersionedRecent))
	r.Count("versioned_compared_epoch_version", int(total.VersionedEpoch))
	r.Count("versioned_compared_nonexistent_version", int(total.VersionedNonexistent))
	r.Count("versioned_reads_of_policy_deletable_versions_not_asserted", int(total.VersionedDeletable))
	r.Count("policy_deletable_versions_answered_absent", int(total.DeletedVersionsSeen))
	r.Count("policy_deletable_versions_still_present", int(total.DeletableStillPresent))
	r.Count("policy_deletable_versions_still_present_and_correct", int(total.DeletableStillCorrect))
	r.Count("set_failed_gas_limit", int(total.SetFailedGas))
	r.Count("delete_failed_gas_limit", int(total.DelFailedGas))
	r.Count("get_refused_gas_limit_not_compared", int(total.GetRefusedGas))
	r.Count("ops_with_gas_limit_reached", int(total.GasExhaustedOps))
	r.Count("commit_tx_without_session_skipped", int(total.Inapplicable))
	r.Count("distinct_model_states", len(total.States))
	r.Count("max_version_reached", int(total.MaxVersion))
	r.Count("random_sequences_run_to_completion", int(rndCompleted))
	nt, tw := 10000, 10000
	if tier == "thorough" {
		nt, tw = 1000000, 1000000
	}
	r.Gate("sequences_nontrivial", nt)
	r.Gate("twin_commits_compared", tw)
	r.Gate("reopens", 1000)
	r.Gate("versioned_compared", 1000)
	r.Gate("versioned_compared_recent_window", 1000)
	r.Gate("versioned_compared_epoch_version", 100)
	r.Gate("policy_deletable_versions_answered_absent", 100)
	r.Gate("ops_with_gas_limit_reached", 1000)
	r.Gate("distinct_model_states", 1000)
	r.Gate("max_version_reached", 15)
	r.Gate("random_sequences_run_to_completion", N/10)

	// ---------------- violations: shrink and report ----------------
	sigCounts := map[string]int{}
	for _, sig := range coll.Signatures() {
		sigCounts[sig] = coll.Count(sig)
		seen := map[string]bool{}
		var shrunk []storediff.Finding
		for _, f := range coll.Best(sig) {
			shrunk = append(shrunk, storediff.Shrink(f, newDir))
		}
		sort.SliceStable(shrunk, func(i, j int) bool { return len(shrunk[i].Ops) < len(shrunk[j].Ops) })
		for _, f := range shrunk {
			w := f.Witness()
			id := w.ConfigName + "|" + canonical(f.Ops)
			if seen[id] {
				continue
			}
			seen[id] = true
			r.Violate(verdict.Violation{Signature: f.Sig, What: f.What, Witness: w})
		}
		r.Count("violating_sequences "+sig, coll.Count(sig))
	}
	r.Set("violating_sequences_by_signature", sigCounts)

	// ---------------- supplementary: concurrent readers (diagnostic) ----------------
	if tier == "thorough" {
		concurrentDiag(r)
	}
	wd.Stop()
	return r.Finish()
}

var startTime = time.Now()

// canonical renames keys and values in order of first appearance so that
// witnesses that only differ by a renaming are reported once.
func canonical(ops []storediff.Op) string {
	km, vm := map[int8]int8{}, map[int8]int8{}
	out := make([]storediff.Op, len(ops))
	for i, o := range ops {
		switch o.Kind {
		case storediff.KSet, storediff.KDel, storediff.KGet, storediff.KHas, storediff.KGetV:
			if _, ok := km[o.Key]; !ok {
				km[o.Key] = int8(len(km))
			}
			o.Key = km[o.Key]
		}
		if o.Kind == storediff.KSet {
			if _, ok := vm[o.Val]; !ok {
				vm[o.Val] = int8(len(vm))
			}
			o.Val = vm[o.Val]
		}
		out[i] = o
	}
	return strings.Join(storediff.OpStrings(out), ";")
}

// concurrentDiag runs the reader/writer pass in a child process (a data race
// on a Go map inside the store is a fatal error) and records the outcome as a
// diagnostic; it never influences the exit code.
func concurrentDiag(r *verdict.Run) {
	cmd := exec.Command(os.Args[0], "conc-child")
	cmd.Env = os.Environ()
	done := make(chan struct{})
	var out []byte
	var err error
	go func() {
		out, err = cmd.CombinedOutput()
		close(done)
	}()
	select {
	case <-done:
	case <-time.After(3 * time.Minute):
		if cmd.Process != nil {
			_ = cmd.Process.Kill()
		}
		<-done
		r.Diag("supplementary concurrent pass: child killed after 3 minutes (diagnostic only)")
		return
	}
	phases := 0
	for _, line := range strings.Split(string(out), "\n") {
		for _, ph := range []string{"false", "true"} {
			pre := "CONC-RESULT versioned=" + ph + " "
			if !strings.HasPrefix(line, pre) {
				continue
			}
			var res storediff.ConcResult
			if json.Unmarshal([]byte(strings.TrimPrefix(line, pre)), &res) == nil {
				phases++
				r.Set("supplementary_concurrent_readers_versioned_"+ph, res)
				r.Diag(fmt.Sprintf("supplementary concurrent pass (diagnostic only, versioned reads=%s): porcupine=%s reads=%d versioned_reads=%d versioned_mismatch=%d reader_panics=%d %s",
					ph, res.Porcupine, res.Reads, res.VersionedReads, res.VersionedMismatch, res.ReaderPanics, res.FirstPanic))
			}
		}
	}
	if phases < 2 {
		// keep the fatal error line and the first frames
		var keep []string
		for _, line := range strings.Split(string(out), "\n") {
			if strings.HasPrefix(line, "fatal error:") || strings.HasPrefix(line, "panic:") || len(keep) > 0 {
				keep = append(keep, strings.TrimSpace(line))
			}
			if len(keep) >= 8 {
				break
			}
		}
		r.Diag(fmt.Sprintf("supplementary concurrent pass (diagnostic only): child died in phase %d (%v): %s", phases+1, err, strings.Join(keep, " | ")))
	}
}

func replay(path string) int {
	bz, err := ioutil.ReadFile(path)
	if err != nil {
		fmt.Println("cannot read replay file:", err)
		return 2
	}
	var file struct {
		Signature string            `json:"signature"`
		What      string            `json:"what"`
		Witness   storediff.Witness `json:"witness"`
	}
	if err := json.Unmarshal(bz, &file); err != nil {
		fmt.Println("cannot parse replay file:", err)
		return 2
	}
	ops, err := storediff.ParseOps(file.Witness.Ops)
	if err != nil {
		fmt.Println("cannot parse ops:", err)
		return 2
	}
	cfg := file.Witness.Config
	fmt.Printf("replaying %d ops under %s\nrecorded signature: %s\n", len(ops), cfg.Name(), file.Signature)
	dir := ""
	if cfg.Backend == "goleveldb" {
		dir = newDir()
	}
	v, n := storediff.Run(cfg, dir, ops, nil, func(s string) { fmt.Println("  " + s) })
	if v == nil {
		fmt.Printf("NOT REPRODUCED: all %d ops agree with the model\n", n)
		return 0
	}
	fmt.Printf("VIOLATION at op #%d: signature=%s\n  %s\n  expected: %s\n  got:      %s\n", v.At, v.Sig, v.What, v.Expected, v.Got)
	if v.Sig == file.Signature {
		fmt.Println("REPRODUCED")
	} else {
		fmt.Println("REPRODUCED WITH A DIFFERENT SIGNATURE")
	}
	return 1
}
