package main

import (
	"bytes"
	"fmt"
	"github.com/Oneledger/protocol/consensus"
	"github.com/Oneledger/protocol/data/balance"
	"github.com/Oneledger/protocol/data/delegation"
	"os"
	"sort"
	"strings"
	"sync"

	"github.com/Oneledger/protocol/config"

	"olverif/internal/boxcli"
	"olverif/internal/drive"
	"olverif/internal/hist"
	"olverif/internal/proto"
	"olverif/internal/verdict"
	"olverif/internal/world"
)

// allScripts is the mixed workload shared by the history-based checks.
var allScripts = []string{"transfers", "staking", "delegation", "valrewards", "governance", "ons", "eth", "evidence", "olvm", "bid"}

// exitScripts is allScripts with the staking script's mass-exit variant.
var exitScripts = []string{"transfers", "staking-exit", "delegation", "valrewards", "governance", "ons", "eth", "evidence", "olvm", "bid"}

func tierN(tier string, quick, thorough int) int {
	if tier == "thorough" {
		return thorough
	}
	return quick
}

// parallel runs n cases on up to w workers.
func parallel(n, w int, fn func(i int)) {
	var wg sync.WaitGroup
	ch := make(chan int)
	for k := 0; k < w; k++ {
		wg.Add(1)
		go func() {
			defer wg.Done()
			for i := range ch {
				fn(i)
			}
		}()
	}
	for i := 0; i < n; i++ {
		ch <- i
	}
	close(ch)
	wg.Wait()
}

// keyClass maps a state key to its store prefix (used in signatures and
// diagnostics so that they stay stable across runs).
func keyClass(k string) string {
	for _, p := range []string{"propActive", "propPassed", "propFailed", "propFinalized", "propFinalizeFailed", "propFunds", "propVotes", "delegRwz", "deleg", "rwcum", "rwaddr", "rwz", "ethfailed", "ethsuccess", "etht", "keeper", "purged", "es_", "st_", "b_", "f_", "g_", "v_", "w_", "d_", "ri_"} {
		if strings.HasPrefix(k, p) {
			return strings.TrimSuffix(p, "_")
		}
	}
	if i := strings.Index(k, "_"); i > 0 {
		return k[:i]
	}
	return "other"
}

func diffStates(a, b hist.State) (string, string) {
	keys := map[string]bool{}
	for k := range a {
		keys[k] = true
	}
	for k := range b {
		keys[k] = true
	}
	var ks []string
	for k := range keys {
		ks = append(ks, k)
	}
	sort.Strings(ks)
	for _, k := range ks {
		if !bytes.Equal(a[k], b[k]) {
			return k, fmt.Sprintf("%q: %s | %s", k, cut(string(a[k]), 160), cut(string(b[k]), 160))
		}
	}
	return "", "same key/value set (tree shape / insertion order differs)"
}

func fullDump(b *boxcli.Box) hist.State {
	resp, err := b.Do(proto.Cmd{Op: "dump", Full: true})
	if err != nil {
		return nil
	}
	return hist.State{}.Apply(resp.Dump, true)
}

func kindsOf(blk *hist.Block) string {
	m := map[string]bool{}
	for _, t := range blk.Txs {
		m[t.Kind] = true
	}
	var ks []string
	for k := range m {
		ks = append(ks, k)
	}
	sort.Strings(ks)
	return strings.Join(ks, ",")
}

// checkC01: lock-step differential over replicas with different identities,
// roles, wallets, environment and rotation settings.
func checkC01(tier string) int {
	r := verdict.New("C01", tier, "exploration")
	r.Rule = "seeded mixed histories (every implemented transaction kind, block hooks with multiplicity) executed in lock-step on 4 real nodes with different identities/roles/configuration; a case is one compared block; non-trivial = the block contained a successful transaction or a hook that wrote state (state delta beyond the per-block bookkeeping keys); distinct by (history seed, height, app hash)"
	r.Assumptions = []string{"Tendermint v0.33.3 block executor, handshake and indexer as shipped", "harness-built blocks pass Tendermint's own validateBlock on every replica"}
	nh := tierN(tier, 6, 40)
	blocks := tierN(tier, 36, 120)
	seed := verdict.Seed()
	r.Gate("blocks_compared", nh*blocks/2)
	r.Gate("replica_configs", 4)
	var mu sync.Mutex
	cfgSeen := map[string]bool{}
	parallel(nh, 5, func(i int) {
		hseed := seed*1000 + int64(i)
		fr := int64(1)
		if i%3 == 1 {
			fr = 0 // genesis staking options stay in force: election boundary reachable
		}
		params := world.Params{Frankenstein: fr, NumCandidates: 3, NumEthUsers: 3, TopValidators: 5, ChainID: fmt.Sprintf("OneLedger-c01-%d", hseed)}
		scripts := allScripts
		if i%3 == 2 {
			// a larger validator set of which five members leave the active set in one block (and return later):
			// block-end work that touches several validators at once
			params.NumGenesisVals, params.TopValidators, params.NumCandidates = 7, 8, 1
			scripts = exitScripts
			// (five small validators and two large ones: the small ones can all stop signing at once without
			// the commits losing their two thirds)
			params.GenesisPowers = []int64{3000000, 3100000, 3200000, 3300000, 3400000, 20000000, 30000000}
			if i%2 == 0 {
				// (every other one without the mass exit, with seven small validators of nine: they sign a few
				// blocks, then stop)
				scripts = allScripts
				params.NumGenesisVals, params.TopValidators = 9, 10
				params.GenesisPowers = []int64{3000000, 3100000, 3200000, 3300000, 3400000, 3500000, 3600000, 40000000, 50000000}
			}
		}
		if i%3 == 0 && i > 0 {
			// (one more history of that shape among the ordinary ones)
			params.NumGenesisVals, params.TopValidators, params.NumCandidates = 9, 10, 1
			params.GenesisPowers = []int64{3000000, 3100000, 3200000, 3300000, 3400000, 3500000, 3600000, 40000000, 50000000}
		}
		if i%2 == 1 {
			// a chain started from a dumped state: the genesis carries unstaked amounts that mature at a dozen
			// different heights (whatever InitChain does with them, every node must do the same)
			params.Mutate = func(st *consensus.AppState) {
				for k := 0; k < 12; k++ {
					who := st.Balances[k%len(st.Balances)].Address
					st.Delegation.MatureAmounts = append(st.Delegation.MatureAmounts, &delegation.MatureData{Address: who, Amount: *balance.NewAmount(int64(1000 + k)), Height: int64(7 + 5*k)})
				}
			}
			r.Count("histories_started_from_a_dumped_state_with_pending_mature_amounts", 1)
		}
		restarted := false
		cfg := drive.Cfg{
			Tag: "c01", Seed: hseed, Blocks: blocks, Params: params, Scripts: scripts, Scout: true, Jumps: true, Absents: true, Honest: true,
		}
		w0, _ := world.New(params)
		if i%3 == 2 || (i%3 == 0 && i > 0) {
			// the five small validators stop signing in the same block, for good: they all fall short of the
			// required votes in the same block (and are frozen together)
			cfg.ForceAbsent = func(h int64) []string {
				// (from the first block on, or — every other such history — after they have come back from the
				// mass exit of block 6)
				if (i%3 == 2 && i%2 == 1) || h < 6 || h > 16 {
					return nil
				}
				var out []string
				for k := 0; k < 7 && k < len(w0.Vals) && w0.Vals[k].Power < 10000000; k++ {
					out = append(out, hist.HexAddr(w0.Vals[k].ValAddr.String()))
				}
				return out
			}
		}
		cfg.Specs = []world.NodeSpec{
			{Name: "stranger", Stranger: "a", LogLevel: 2},
			{Name: "val-witness", Validator: w0.Vals[1], LogLevel: 0},
			{Name: "val-oltest", Validator: w0.Vals[2], LogLevel: 1, Rotation: &config.ChainStateRotationCfg{Recent: 3, Every: 2, Cycles: 1}},
			{Name: "stranger2", Stranger: "b", LogLevel: 2},
		}
		cfg.Envs = [][]string{nil, nil, {"OLTEST=1"}, nil}
		mu.Lock()
		for _, s := range cfg.Specs {
			cfgSeen[s.Name] = true
		}
		mu.Unlock()
		// the second stranger also has mempool traffic, as every real node has: it checks every transaction
		// of the block before the block arrives and re-checks some while the block executes (node-local
		// circumstances that are not part of the block sequence)
		var lastSeen []byte
		witnessKilled, witnessKills := false, 0
		cfg.PerReplica = func(run *hist.Runner, h int64, idx int, base proto.Recipe, sofar *hist.Block) *proto.Recipe {
			if idx == 1 {
				// the witness validator is killed between the block end and the commit of a block that follows a lock
				// or redeem (the block end is where trackers move on and where a witness queues its jobs): when it
				// comes back, its job store has seen that block end once already
				witnessKilled = false
				if n := len(run.Blocks); n > 0 && h > 3 && witnessKills < 3 {
					for _, t := range run.Blocks[n-1].Txs {
						if t.Call.Code == 0 && (t.Kind == "ETH_REDEEM" || t.Kind == "ERC20_REDEEM" || t.Kind == "ETH_LOCK" || t.Kind == "ERC20_LOCK") {
							witnessKilled = true
						}
					}
				}
				if witnessKilled {
					witnessKills++
					alt := base
					alt.Crash = "after:EndBlock"
					return &alt
				}
				return nil
			}
			if idx != 3 {
				return nil
			}
			alt := base
			alt.Inject = map[string][][]byte{}
			if len(base.Txs) > 0 {
				alt.Inject["before:BeginBlock"] = base.Txs
				alt.Inject["after:DeliverTx:0"] = base.Txs[len(base.Txs)-1:]
				alt.Inject["before:EndBlock"] = base.Txs[:1]
				lastSeen = base.Txs[len(base.Txs)-1]
			} else if lastSeen != nil {
				alt.Inject["before:EndBlock"] = [][]byte{lastSeen}
				alt.Inject["before:Commit"] = [][]byte{lastSeen}
			}
			return &alt
		}
		var bootChecked bool
		cfg.OnBlock = func(run *hist.Runner, blk *hist.Block) bool {
			if !bootChecked {
				bootChecked = true
				base := hist.Project(run.Reps[0].Box.Boot.Calls)
				for k := 1; k < len(run.Reps); k++ {
					if idx, x, y := hist.FirstDiff(base, hist.Project(run.Reps[k].Box.Boot.Calls)); idx >= 0 {
						r.Violate(verdict.Violation{Signature: "C01/initchain/validators", What: fmt.Sprintf("InitChain results differ between %s and %s: %s | %s", run.Reps[0].Name, run.Reps[k].Name, x, y), Witness: map[string]interface{}{"seed": hseed}})
						return true
					}
				}
			}
			lead := hist.Project(blk.Resp[0].Calls)
			nontrivial := len(blk.Txs) > 0
			r.Case(fmt.Sprintf("%d/%d/%s", hseed, blk.H, blk.Commit.AppHash), nontrivial)
			r.Count("blocks_compared", 1)
			r.Count("replica_comparisons", len(run.Reps)-1)
			for _, t := range blk.Txs {
				if t.Call.Code == 0 {
					r.Count("ok:"+t.Kind, 1)
				} else {
					r.Count("failed:"+t.Kind, 1)
				}
			}
			for k := 1; k < len(run.Reps); k++ {
				if k == 1 && witnessKilled && blk.Resp[1] == nil && run.Reps[1].Box.Dead {
					// killed on purpose: it starts again, replays the block, and must arrive where the others are
					r.Count("witness_killed_between_block_end_and_commit", 1)
					if err := run.Reps[1].Box.Restart(); err != nil {
						r.Violate(verdict.Violation{Signature: "C01/witness-cannot-restart", What: fmt.Sprintf("history seed %d: the witness validator, killed between EndBlock and Commit of block %d, does not start again: %v", hseed, blk.H, err), Witness: map[string]interface{}{"seed": hseed, "height": blk.H, "log": run.Reps[1].Box.LogTail(2500)}})
						return true
					}
					var rep []proto.Call
					for _, c := range run.Reps[1].Box.Boot.Calls {
						if c.M == "BeginBlock" || c.M == "DeliverTx" || c.M == "EndBlock" || c.M == "Commit" {
							rep = append(rep, c)
						}
					}
					if idx, x, y := hist.FirstDiff(hist.ProjectResults(blk.Resp[0].Calls), hist.ProjectResults(rep)); idx >= 0 && len(rep) > 0 {
						key, d := diffStates(fullDump(run.Reps[0].Box), fullDump(run.Reps[1].Box))
						r.Violate(verdict.Violation{Signature: "C01/witness-replay/" + strings.ToLower(strings.SplitN(x+" ", " ", 2)[0]) + "/key:" + keyClass(key), What: fmt.Sprintf("history seed %d, block %d: the witness validator was killed between EndBlock and Commit and replayed the block: %q where %s has %q; first differing key %s", hseed, blk.H, y, run.Reps[0].Name, x, d), Witness: map[string]interface{}{"seed": hseed, "height": blk.H, "recipes": run.Recipes()}})
						return true
					}
					continue
				}
				if blk.Resp[k] == nil {
					r.Violate(verdict.Violation{Signature: "C01/replica-died/" + run.Reps[k].Name, What: fmt.Sprintf("replica %s died executing block %d while the leader did not", run.Reps[k].Name, blk.H), Witness: map[string]interface{}{"seed": hseed, "height": blk.H, "log": run.Reps[k].Box.LogTail(3000)}})
					return true
				}
				other := hist.Project(blk.Resp[k].Calls)
				idx, x, y := hist.FirstDiff(lead, other)
				if idx < 0 {
					continue
				}
				method := strings.SplitN(x+" ", " ", 2)[0]
				sig := "C01/" + strings.ToLower(method)
				what := fmt.Sprintf("history seed %d, block %d: %s vs %s differ at %q | %q", hseed, blk.H, run.Reps[0].Name, run.Reps[k].Name, x, y)
				if method == "Commit" {
					a, b := fullDump(run.Reps[0].Box), fullDump(run.Reps[k].Box)
					key, d := diffStates(a, b)
					sig += "/key:" + keyClass(key)
					what += "; first differing key " + d
				} else if method == "DeliverTx" {
					sig += "/" + kindAt(blk, idx, lead)
				}
				r.Violate(verdict.Violation{Signature: sig, What: what, Witness: map[string]interface{}{"seed": hseed, "height": blk.H, "kinds_in_block": kindsOf(blk), "recipes": run.Recipes(), "params": fmt.Sprintf("%+v", struct{ Fr int64 }{fr})}})
				return true
			}
			// restart the witness validator once so that its witness role is
			// really in force (Prepare computes it before InitChain finished)
			if !restarted && blk.H == 2 {
				restarted = true
				if err := run.Reps[1].Box.Restart(); err != nil {
					r.Inconclusive("restart of val-witness failed: " + err.Error())
					return true
				}
			}
			if os.Getenv("DEBUG_C01") != "" && i%3 == 2 {
				n := 0
				for k := range blk.Cur {
					if strings.HasPrefix(k, "es__ssvk_") {
						n++
					}
				}
				fmt.Printf("DEBUG i=%d h=%d suspicious=%d absent=%d updates=%d\n", i, blk.H, n, len(blk.Recipe.Absent), len(blk.End.ValUpdates))
			}
			// one of the strangers is stopped and started again now and then, at heights that are not the first
			// block of a reward cycle: what a node keeps in memory between blocks is a node-local circumstance
			if blk.H == 10 || (blk.H > 10 && blk.H%23 == 4) {
				if err := run.Reps[3].Box.Restart(); err != nil {
					r.Inconclusive("restart of stranger2 failed: " + err.Error())
					return true
				}
				r.Count("replica_restarts_mid_history", 1)
			}
			return false
		}
		res := drive.Run(cfg)
		if res.R != nil {
			defer res.R.Close()
		}
		if res.Err != nil {
			if ae, ok := res.Err.(*hist.ApplyError); ok && ae.Block != nil {
				// Tendermint refused the leader's block results: if it accepted those of another node fed the same
				// block, the nodes did not return the same validator updates
				for k := 1; k < len(ae.Block.Resp); k++ {
					if rk := ae.Block.Resp[k]; rk != nil && rk.ApplyErr == "" && rk.Err == "" {
						r.Violate(verdict.Violation{Signature: "C01/tendermint-refused-on-some-nodes-only/" + classifyApplyErr(ae.Msg), What: fmt.Sprintf("history seed %d block %d: Tendermint refused the block results of %s (%s) and accepted those of %s", hseed, ae.Block.H, res.R.Reps[0].Name, ae.Msg, res.R.Reps[k].Name), Witness: map[string]interface{}{"seed": hseed, "height": ae.Block.H, "recipes": res.R.Recipes()}})
						return
					}
				}
			}
			reportRunErr(r, "C01", hseed, res)
			return
		}
		if i == 0 && res.R != nil && len(res.R.Blocks) > 3 {
			b := res.R.Blocks[len(res.R.Blocks)-1]
			r.Sample(map[string]interface{}{"seed": hseed, "height": b.H, "txs": sampleTxs(b), "projection": hist.Project(b.Resp[0].Calls)})
		}
	})
	r.Count("replica_configs", len(cfgSeen))
	return r.Finish()
}

func kindAt(blk *hist.Block, idx int, proj []string) string {
	// idx-th projected line; DeliverTx lines are in tx order
	n := 0
	for i := 0; i <= idx && i < len(proj); i++ {
		if strings.HasPrefix(proj[i], "DeliverTx") {
			n++
		}
	}
	if n-1 >= 0 && n-1 < len(blk.Txs) {
		return blk.Txs[n-1].Kind
	}
	return "?"
}

func sampleTxs(b *hist.Block) []string {
	var out []string
	for _, t := range b.Txs {
		out = append(out, fmt.Sprintf("%s (%s) code=%d", t.Kind, t.Note, t.Call.Code))
	}
	return out
}

// reportRunErr classifies a history that could not be completed.
func reportRunErr(r *verdict.Run, prop string, hseed int64, res *drive.Result) {
	r.Count("aborted_histories", 1)
	switch e := res.Err.(type) {
	case *hist.ApplyError:
		if prop != "C10" {
			r.Diag(fmt.Sprintf("history seed %d aborted at block %d: Tendermint refused the block results (decided by the C10 check): %s", hseed, e.Block.H, e.Msg))
			return
		}
		r.Violate(verdict.Violation{Property: "C10", Signature: "C10/tendermint-refused/" + classifyApplyErr(e.Msg), What: fmt.Sprintf("history seed %d block %d: %s", hseed, e.Block.H, e.Msg), Witness: map[string]interface{}{"seed": hseed, "recipes": res.R.Recipes()}})
	case *hist.BoxError:
		if e.Err == boxcli.ErrTimeout {
			r.Inconclusive(fmt.Sprintf("history seed %d: watchdog fired on %s", hseed, e.Replica))
			return
		}
		tail := ""
		for _, rep := range res.R.Reps {
			if rep.Name == e.Replica {
				tail = rep.Box.LogTail(2500)
			}
		}
		if e.Replica == "scout" && res.R.Scout != nil {
			tail = res.R.Scout.Box.LogTail(2500)
		}
		if prop != "C18" {
			r.Diag(fmt.Sprintf("history seed %d aborted: node %s died executing block %d (%s; decided by the C18 check) kinds=%s", hseed, e.Replica, e.Block.H, crashClass(tail), kindsOfSpecs(e.Block)))
			return
		}
		r.Violate(verdict.Violation{Property: "C18", Signature: "C18/node-died/" + crashClass(tail) + "/" + kindsOfSpecs(e.Block), What: fmt.Sprintf("history seed %d: node %s died while executing block %d", hseed, e.Replica, e.Block.H), Witness: map[string]interface{}{"seed": hseed, "log": tail}})
	default:
		r.Inconclusive(fmt.Sprintf("history seed %d: %v", hseed, res.Err))
	}
}

func kindsOfSpecs(b *hist.Block) string {
	if b == nil {
		return ""
	}
	m := map[string]bool{}
	for _, t := range b.Specs {
		m[t.Kind] = true
	}
	var ks []string
	for k := range m {
		ks = append(ks, k)
	}
	sort.Strings(ks)
	return strings.Join(ks, ",")
}

func classifyApplyErr(msg string) string {
	switch {
	case strings.Contains(msg, "duplicate"):
		return "duplicate"
	case strings.Contains(msg, "failed to find validator") || strings.Contains(msg, "remove"):
		return "remove-nonmember"
	case strings.Contains(msg, "empty"):
		return "empty-set"
	case strings.Contains(msg, "power"):
		return "power"
	}
	return "other"
}

func crashClass(tail string) string {
	switch {
	case strings.Contains(tail, "nil pointer dereference"):
		return "nil-deref"
	case strings.Contains(tail, "index out of range"):
		return "index"
	case strings.Contains(tail, "leveldb: closed"):
		return "app-closed"
	case strings.Contains(tail, "FATAL") || strings.Contains(tail, "Fatal"):
		return "fatal-exit"
	case strings.Contains(tail, "panic"):
		return "panic"
	}
	return "exit"
}
