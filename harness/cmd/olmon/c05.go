package main

import (
	"bytes"
	"encoding/json"
	"fmt"
	"math/big"
	"os"
	"sort"
	"strings"
	"sync"

	ethcmn "github.com/ethereum/go-ethereum/common"
	ethtypes "github.com/ethereum/go-ethereum/core/types"
	ethcrypto "github.com/ethereum/go-ethereum/crypto"

	"github.com/Oneledger/protocol/action"
	olvmact "github.com/Oneledger/protocol/action/olvm"
	"github.com/Oneledger/protocol/serialize"

	"olverif/internal/gen"
	"olverif/internal/txb"

	"olverif/internal/boxcli"
	"olverif/internal/hist"
	"olverif/internal/proto"
	"olverif/internal/verdict"
	"olverif/internal/world"
)

// extraSigner signs the surplus signature entries (set from the world of the first warm chain).
var extraSigner *world.Account

type encoding struct {
	name  string
	bytes []byte
}

// reencodings produces other encodings of the same signed content.
func reencodings(tx []byte) []encoding {
	var out []encoding
	out = append(out, encoding{"identical", append([]byte{}, tx...)})
	out = append(out, encoding{"leading-space", append([]byte(" "), tx...)})
	out = append(out, encoding{"trailing-newline", append(append([]byte{}, tx...), '\n')})
	out = append(out, encoding{"inner-whitespace", bytes.Replace(tx, []byte(`,"fee":`), []byte(`, "fee": `), 1)})
	// key order: move "signatures" to the front
	var m map[string]json.RawMessage
	if json.Unmarshal(tx, &m) == nil {
		var b bytes.Buffer
		b.WriteString(`{"signatures":`)
		b.Write(m["signatures"])
		for _, k := range []string{"memo", "fee", "data", "type"} {
			b.WriteString(`,"` + k + `":`)
			b.Write(m[k])
		}
		b.WriteString("}")
		out = append(out, encoding{"key-order", b.Bytes()})
		// duplicate key: an earlier decoy value, the real one last (last wins)
		out = append(out, encoding{"duplicate-key", bytes.Replace(tx, []byte(`"memo":`), []byte(`"memo":"decoy","memo":`), 1)})
		out = append(out, encoding{"extra-field", bytes.Replace(tx, []byte(`{"type":`), []byte(`{"zzz":[1,2,{"a":null}],"type":`), 1)})
		// unicode escape of the first memo character
		var memo string
		if json.Unmarshal(m["memo"], &memo) == nil && len(memo) > 0 && memo[0] < 0x80 {
			esc := fmt.Sprintf(`"\u%04x%s"`, memo[0], strings.Trim(string(mustJSON(memo[1:])), `"`))
			out = append(out, encoding{"unicode-escape", bytes.Replace(tx, append([]byte(`"memo":`), m["memo"]...), []byte(`"memo":`+esc), 1)})
		}
		// field-name case (Go's decoder matches case-insensitively)
		out = append(out, encoding{"field-case", bytes.Replace(bytes.Replace(tx, []byte(`"Signer":`), []byte(`"signer":`), -1), []byte(`"Signed":`), []byte(`"SIGNED":`), -1)})
		out = append(out, encoding{"number-form", bytes.Replace(tx, []byte(`"gas":`), []byte(`"gas":0`), 1)})
		// a field of the wrong JSON type: the decoder reports an error but has filled in everything else,
		// and the field keeps its zero value — the same signed content when the original value was zero
		// the characters Go's encoder escapes (& < >), written literally
		if un := []byte(strings.NewReplacer(`\u0026`, "&", `\u003c`, "<", `\u003e`, ">").Replace(string(tx))); !bytes.Equal(un, tx) {
			out = append(out, encoding{"html-escapes-written-literally", un})
		}
		// the memo rewritten with the signatures kept: resubmitted only where the node's own notion of the signed
		// content does not cover the memo (then it is the same signed transaction once more)
		out = append(out, encoding{"memo-rewritten", bytes.Replace(tx, append([]byte(`"memo":`), m["memo"]...), []byte(`"memo":"another memo"`), 1)})
		out = append(out, encoding{"wrong-type-memo-number", bytes.Replace(tx, append([]byte(`"memo":`), m["memo"]...), []byte(`"memo":5`), 1)})
		out = append(out, encoding{"wrong-type-memo-object", bytes.Replace(tx, append([]byte(`"memo":`), m["memo"]...), []byte(`"memo":{"a":1}`), 1)})
		out = append(out, encoding{"wrong-type-extra-signature", bytes.Replace(tx, []byte(`"signatures":[`), []byte(`"signatures":[7,`), 1)})
		// one more well-formed signature entry appended (a copy of the first; and somebody else's valid
		// signature over the same content): canonical bytes, a new hash, the original signatures untouched
		st := &action.SignedTx{}
		if json.Unmarshal(tx, st) == nil && len(st.Signatures) > 0 && st.Type != action.OLVM {
			cp := *st
			cp.Signatures = append(append([]action.Signature{}, st.Signatures...), st.Signatures[0])
			out = append(out, encoding{"surplus-signature-copy", cp.SignedBytes()})
			// bytes appended to the first signer's public key
			cp4 := *st
			cp4.Signatures = append([]action.Signature{}, st.Signatures...)
			cp4.Signatures[0].Signer.Data = append(append([]byte{}, st.Signatures[0].Signer.Data...), 0x00, 0x01)
			out = append(out, encoding{"signer-key-bytes-appended", cp4.SignedBytes()})
			// bytes appended to the first signature (what a device's status word would look like)
			cp3 := *st
			cp3.Signatures = append([]action.Signature{}, st.Signatures...)
			cp3.Signatures[0].Signed = append(append([]byte{}, st.Signatures[0].Signed...), 0x90, 0x00)
			out = append(out, encoding{"signature-bytes-appended", cp3.SignedBytes()})
			if extraSigner != nil {
				if h, err := extraSigner.Priv.GetHandler(); err == nil {
					if sig, err := h.Sign(st.RawTx.RawBytes()); err == nil {
						cp2 := *st
						cp2.Signatures = append(append([]action.Signature{}, st.Signatures...), action.Signature{Signer: extraSigner.Pub, Signed: sig})
						out = append(out, encoding{"surplus-signature-of-a-stranger", cp2.SignedBytes()})
					}
				}
			}
		}
	}
	return out
}

// olvmUnsignedVariants: the same OLVM transaction with the payload fields its signature does not cover
// changed (type, access list): new bytes, new hash, still the sender's valid signature.
func olvmUnsignedVariants(tx []byte) []encoding {
	var out []encoding
	for _, v := range []struct {
		name string
		typ  int64
		al   *ethtypes.AccessList
	}{{"olvm-unsigned-type-1", 1, nil}, {"olvm-unsigned-type-2", 2, nil}, {"olvm-unsigned-empty-access-list", 0, &ethtypes.AccessList{}}} {
		st := &action.SignedTx{}
		if json.Unmarshal(tx, st) != nil {
			return nil
		}
		p := &olvmact.Transaction{}
		if json.Unmarshal(st.Data, p) != nil {
			return nil
		}
		p.TxType, p.AccessList = v.typ, v.al
		d, err := json.Marshal(p)
		if err != nil {
			continue
		}
		st.Data = d
		out = append(out, encoding{v.name, st.SignedBytes()})
	}
	// the payload is carried as opaque bytes and the EVM-style signature is computed over its decoded
	// fields: any other JSON spelling of the same payload gives new transaction bytes (and a new hash)
	// under the same signature
	for _, v := range []struct {
		name string
		f    func(d []byte) []byte
	}{
		{"olvm-unsigned-inner-whitespace", func(d []byte) []byte { return bytes.Replace(d, []byte(`{"nonce":`), []byte(`{ "nonce": `), 1) }},
		{"olvm-unsigned-inner-trailing-space", func(d []byte) []byte { return append(append([]byte{}, d...), ' ') }},
		{"olvm-unsigned-inner-extra-field", func(d []byte) []byte { return bytes.Replace(d, []byte(`{"nonce":`), []byte(`{"zz":1,"nonce":`), 1) }},
	} {
		st := &action.SignedTx{}
		if json.Unmarshal(tx, st) != nil {
			return out
		}
		nd := v.f(st.Data)
		if bytes.Equal(nd, st.Data) {
			continue
		}
		st.Data = nd
		out = append(out, encoding{v.name, st.SignedBytes()})
	}
	return out
}

func mustJSON(s string) []byte {
	b, _ := json.Marshal(s)
	return b
}

// sameSignedContent: the repository's own deserialiser yields the same
// (type, payload, fee, memo) bytes and the same signatures — i.e. the
// resubmission still passes the signature check the original passed.
func sameSignedContent(a, b []byte) bool {
	sa, sb := &action.SignedTx{}, &action.SignedTx{}
	if serialize.GetSerializer(serialize.NETWORK).Deserialize(a, sa) != nil {
		return false
	}
	// the node only logs a decoding error of the resubmission and goes on with whatever was decoded
	// (a field of the wrong JSON type keeps its zero value), so the comparison does the same
	if err := serialize.GetSerializer(serialize.NETWORK).Deserialize(b, sb); err != nil && len(sb.Signatures) == 0 {
		return false
	}
	// (surplus signature entries after the original ones leave the signed content and its signatures intact)
	if !bytes.Equal(sa.RawTx.RawBytes(), sb.RawTx.RawBytes()) || len(sa.Signatures) > len(sb.Signatures) {
		return false
	}
	for i := range sa.Signatures {
		// (the original signature bytes, possibly followed by more: whether that still passes the signature
		// check is the node's business; if it does, it is the same signed transaction once more)
		// (likewise the signer's key bytes, possibly followed by more)
		if !bytes.HasPrefix(sb.Signatures[i].Signed, sa.Signatures[i].Signed) || sa.Signatures[i].Signer.KeyType != sb.Signatures[i].Signer.KeyType || !bytes.HasPrefix(sb.Signatures[i].Signer.Data, sa.Signatures[i].Signer.Data) {
			return false
		}
	}
	return true
}

// replayProbe: on a fork, execute base in a block, optionally restart the
// node, run `gap` empty blocks, then CheckTx the resubmission and deliver it
// alone in a byzantine block. Returns the observations and the final state.
// c05Pre: base transaction bytes -> transactions to execute in the same block before it.
var c05Pre sync.Map

type replayOut struct {
	baseLog   string
	baseOK    bool
	checkCode uint32
	checkLog  string
	deliver   proto.Call
	state     hist.State
	died      bool
	diedAt    string
	err       error
	replayed  bool // the base's block was executed by the handshake replay after a kill
}

func (wm *warm) replayProbe(base []byte, resub []byte, gap int, restart bool, between ...[]byte) *replayOut {
	return wm.replayProbeCrash(base, resub, gap, restart, "", between...)
}

// replayProbeCrash: with crash != "" the node is killed at that call boundary of the base block (the block is
// saved by Tendermint, the application has not committed it) and started again: the handshake replays the block.
func (wm *warm) replayProbeCrash(base []byte, resub []byte, gap int, restart bool, crash string, between ...[]byte) *replayOut {
	o := &replayOut{}
	b, dir, err := wm.fork()
	defer os.RemoveAll(dir)
	if err != nil {
		o.err = err
		return o
	}
	defer b.Kill()
	step := func(txs [][]byte) (*proto.Resp, bool) {
		resp, err := b.Block(&proto.Recipe{DtMs: 5000, Txs: txs, Dump: true})
		if err != nil {
			if err == boxcli.ErrTimeout {
				o.err = err
			} else {
				o.died = true
			}
			return nil, false
		}
		if resp.Err != "" || resp.ApplyErr != "" {
			o.err = fmt.Errorf("%s%s", resp.Err, resp.ApplyErr)
			return nil, false
		}
		return resp, true
	}
	st := wm.state
	first := [][]byte{base}
	if pre, ok := c05Pre.Load(string(base)); ok {
		// transactions of other accounts executed in the same block right before the base
		first = append(append([][]byte{}, pre.([][]byte)...), base)
	}
	var resp *proto.Resp
	var ok bool
	if crash != "" {
		if _, err := b.Block(&proto.Recipe{DtMs: 5000, Txs: first, Crash: crash}); err == nil || !b.Dead {
			o.err = fmt.Errorf("crash point %s was not reached", crash)
			return o
		}
		if err := b.Restart(); err != nil {
			o.err = fmt.Errorf("restart after the kill: %v", err)
			return o
		}
		for _, c := range b.Boot.Calls {
			if c.M == "DeliverTx" {
				o.baseOK = c.Code == 0
				o.baseLog = c.Log
				o.replayed = true
			}
		}
		if d, err := b.Do(proto.Cmd{Op: "dump", Full: true}); err == nil {
			st = hist.State{}.Apply(d.Dump, true)
		}
	} else {
		resp, ok = step(first)
		if !ok {
			o.diedAt = "base-block"
			return o
		}
		st = st.Apply(resp.Dump, resp.DumpFull)
		for _, c := range resp.Calls {
			if c.M == "DeliverTx" {
				o.baseOK = c.Code == 0
				o.baseLog = c.Log
			}
		}
	}
	if restart && crash == "" {
		if err := b.Restart(); err != nil {
			o.err = fmt.Errorf("restart: %v", err)
			return o
		}
		// the delta dump baseline is gone after a restart: take a full dump
		if d, err := b.Do(proto.Cmd{Op: "dump", Full: true}); err == nil {
			st = hist.State{}.Apply(d.Dump, true)
		}
	}
	for k := 0; k < gap; k++ {
		var mid [][]byte
		if k == 0 {
			mid = between // other people's transactions executed in between (e.g. a refund of the sender)
		}
		resp, ok := step(mid)
		if !ok {
			o.diedAt = "gap-block"
			return o
		}
		st = st.Apply(resp.Dump, resp.DumpFull)
	}
	if resub != nil {
		cr, err := b.Check(resub)
		if err != nil {
			o.died, o.diedAt = true, "resubmission-check"
			return o
		}
		for _, c := range cr.Calls {
			if c.M == "CheckTx" {
				o.checkCode, o.checkLog = c.Code, c.Log
			}
		}
	}
	var txs [][]byte
	if resub != nil {
		txs = [][]byte{resub}
	}
	resp, ok = step(txs)
	if !ok {
		o.diedAt = "resubmission-block"
		return o
	}
	for _, c := range resp.Calls {
		if c.M == "DeliverTx" {
			o.deliver = c
		}
	}
	o.state = st.Apply(resp.Dump, resp.DumpFull)
	return o
}

func checkC05(tier string) int {
	r := verdict.New("C05", tier, "exploration")
	r.Rule = "for every transaction kind the workload produces, a transaction that executes with code 0 on a fork of a warmed-up chain is resubmitted in other encodings of the same signed content (identical bytes, leading/trailing/inner whitespace, key order, duplicate key, extra field, unicode escape, field-name case, number form), after 0 or several blocks and after a node restart; a resubmission counts only if the repository's own deserialiser yields the same signed content and signatures; it goes to CheckTx (after the tx indexer caught up) and, alone, into a byzantine block whose resulting state is compared key by key with a twin that ran an empty block instead; non-trivial = resubmission of a base that executed with code 0; distinct by (warm height, kind, encoding, gap, restart)"
	r.Assumptions = []string{"the box waits until Tendermint's asynchronous indexer has stored the executed block before resubmitting"}
	seed := verdict.Seed()
	heights := []int{12, 9}
	if tier == "thorough" {
		heights = []int{8, 14, 21, 30, 17}
	}
	var warms []*warm
	var wmu sync.Mutex
	parallel(len(heights), 5, func(i int) {
		// the last warm-up chain never reaches the fork height
		fr := int64(1)
		if i == len(heights)-1 {
			fr = 0
		}
		wm, err := makeWarm(seed*100+int64(i)+50, heights[i], fr, allScripts)
		if err != nil {
			r.Inconclusive(fmt.Sprintf("warm-up chain %d failed: %v", i, err))
			return
		}
		wmu.Lock()
		warms = append(warms, wm)
		wmu.Unlock()
	})
	type job struct {
		wm      *warm
		base    hist.TxSpec
		enc     encoding
		gap     int
		restart bool
		twin    hist.State
		between [][]byte
		crash   string
	}
	var jobs []job
	var jmu sync.Mutex
	for _, wm := range warms {
		wm := wm
		if extraSigner == nil {
			extraSigner = wm.w.Users[4%len(wm.w.Users)]
		}
		bases := wm.freshBases(2)
		// a transfer whose memo is empty (the zero value: what a decoder leaves behind for a field it rejects)
		{
			u := wm.w.Users[2%len(wm.w.Users)]
			tx := txb.Tx(txb.Send(u.Addr, wm.w.Users[1].Addr, "OLT", fmt.Sprint(4000+wm.h)), txb.DefaultFee(), "", u)
			bases = append(bases, hist.TxSpec{Kind: "SEND", Bytes: tx, Note: "transfer with an empty memo", Signers: []string{u.Addr.String()}})
		}
		// a transfer whose memo holds characters the encoder escapes
		{
			u := wm.w.Users[2%len(wm.w.Users)]
			tx := txb.Tx(txb.Send(u.Addr, wm.w.Users[1].Addr, "OLT", fmt.Sprint(4200+wm.h)), txb.DefaultFee(), fmt.Sprintf("R&D <c05-%d>", wm.h), u)
			bases = append(bases, hist.TxSpec{Kind: "SEND", Bytes: tx, Note: "transfer with a memo of escaped characters", Signers: []string{u.Addr.String()}})
		}
		// a transfer with a memo of nine and a half kilobytes (whatever is done differently for large
		// transactions must not open a second way in)
		{
			u := wm.w.Users[3%len(wm.w.Users)]
			tx := txb.Tx(txb.Send(u.Addr, wm.w.Users[1].Addr, "OLT", fmt.Sprint(4300+wm.h)), txb.DefaultFee(), fmt.Sprintf("c05-large-%d-", wm.h)+strings.Repeat("m", 9500), u)
			bases = append(bases, hist.TxSpec{Kind: "SEND", Bytes: tx, Note: "transfer with a memo of 9.5 KB", Signers: []string{u.Addr.String()}})
		}
		// a transfer signed the hardware-wallet way (ed25519 signature over a digest, prefixed with its name)
		{
			u := wm.w.Users[0]
			tx := txb.TxPreHash(txb.Send(u.Addr, wm.w.Users[1].Addr, "OLT", fmt.Sprint(4100+wm.h)), txb.DefaultFee(), fmt.Sprintf("c05-prehash-%d", wm.h), "SHA256", u)
			bases = append(bases, hist.TxSpec{Kind: "SEND", Bytes: tx, Note: "transfer signed over a SHA256 digest (hardware wallet form)", Signers: []string{u.Addr.String()}})
		}
		// an EVM account that spends itself down to exactly zero, is funded again by somebody else, and then
		// sees its old transaction resubmitted with an unsigned payload field changed
		between := map[int][][]byte{}
		{
			// a fresh EVM account (nonce 0) that nobody else uses, funded natively in the same block
			fresh := world.AccountFromEthSecp(fmt.Sprintf("c05-drain-%d", wm.h), ethcrypto.Keccak256([]byte(fmt.Sprintf("c05-drain-%d-%d", wm.seed, wm.h))))
			u := wm.w.Users[0]
			fund := txb.Tx(txb.Send(u.Addr, fresh.Addr, "OLT", "3000000000000000000"), txb.DefaultFee(), fmt.Sprintf("c05-fund-%d", wm.h), u)
			bal, _ := new(big.Int).SetString("3000000000000000000", 10)
			cost := new(big.Int).Mul(big.NewInt(21000), big.NewInt(1000000000))
			to := ethcmn.BytesToAddress(wm.w.Users[1].Addr)
			v := new(big.Int).Sub(bal, cost)
			tx := gen.OLVMTx(&gen.Ctx{W: wm.w}, &fresh, ethcrypto.Keccak256([]byte(fmt.Sprintf("c05-drain-%d-%d", wm.seed, wm.h))), 0, &to, v, nil, 21000, "1000000000", gen.ChainIDOf(wm.w), "0")
			refund := txb.Tx(txb.Send(u.Addr, fresh.Addr, "OLT", "5000000000000000000"), txb.DefaultFee(), fmt.Sprintf("c05-refund-%d", wm.h), u)
			c05Pre.Store(string(tx), [][]byte{fund})
			between[len(bases)] = [][]byte{refund}
			bases = append(bases, hist.TxSpec{Kind: "OLVM", Bytes: tx, Note: "EVM account spends its whole balance (refunded later by somebody else)", Signers: []string{fresh.Addr.String()}})
		}
		// an EVM transaction that carries a value into an execution that fails and burns all its gas (the
		// constructor is the INVALID instruction; a call into such code): it is executed, the sender pays, the
		// sequence moves on
		for k, data := range [][]byte{{0xfe}, {0x60, 0x01, 0x60, 0x00, 0xf3}} {
			key := ethcrypto.Keccak256([]byte(fmt.Sprintf("c05-burn-%d-%d-%d", wm.seed, wm.h, k)))
			fresh := world.AccountFromEthSecp(fmt.Sprintf("c05-burn-%d-%d", wm.h, k), key)
			u := wm.w.Users[0]
			fund := txb.Tx(txb.Send(u.Addr, fresh.Addr, "OLT", "3000000000000000000"), txb.DefaultFee(), fmt.Sprintf("c05-fund-burn-%d-%d", wm.h, k), u)
			var tx []byte
			note := "EVM creation with an endowment whose constructor is INVALID (all gas burnt)"
			if k == 0 {
				tx = gen.OLVMTx(&gen.Ctx{W: wm.w}, &fresh, key, 0, nil, big.NewInt(70000), data, 120000, "1000000000", gen.ChainIDOf(wm.w), "0")
			} else {
				// creation whose constructor returns one byte of code (0x00...): stored, then a later call is harmless;
				// here: the deployed code is the single byte at memory 0 (STOP): creation succeeds with an endowment
				tx = gen.OLVMTx(&gen.Ctx{W: wm.w}, &fresh, key, 0, nil, big.NewInt(70000), data, 120000, "1000000000", gen.ChainIDOf(wm.w), "0")
				note = "EVM creation with an endowment that succeeds"
			}
			c05Pre.Store(string(tx), [][]byte{fund})
			bases = append(bases, hist.TxSpec{Kind: "OLVM", Bytes: tx, Note: note, Signers: []string{fresh.Addr.String()}})
		}
		// a message call that fails inside the VM (INVALID burns all gas; REVERT leaves some): the call is
		// executed, charged, and the sender's sequence moves on
		for k, runtime := range [][]byte{{0xfe}, {0x60, 0x00, 0x60, 0x00, 0xfd}} {
			key := ethcrypto.Keccak256([]byte(fmt.Sprintf("c05-callfail-%d-%d-%d", wm.seed, wm.h, k)))
			fresh := world.AccountFromEthSecp(fmt.Sprintf("c05-callfail-%d-%d", wm.h, k), key)
			u := wm.w.Users[0]
			fund := txb.Tx(txb.Send(u.Addr, fresh.Addr, "OLT", "3000000000000000000"), txb.DefaultFee(), fmt.Sprintf("c05-fund-callfail-%d-%d", wm.h, k), u)
			n := byte(len(runtime))
			init := append([]byte{0x60, n, 0x60, 12, 0x60, 0, 0x39, 0x60, n, 0x60, 0, 0xf3}, runtime...)
			deploy := gen.OLVMTx(&gen.Ctx{W: wm.w}, &fresh, key, 0, nil, big.NewInt(0), init, 200000, "1000000000", gen.ChainIDOf(wm.w), "0")
			target := ethcrypto.CreateAddress(ethcmn.BytesToAddress(fresh.Addr), 0)
			tx := gen.OLVMTx(&gen.Ctx{W: wm.w}, &fresh, key, 1, &target, big.NewInt(int64(k)*5), nil, 60000, "1000000000", gen.ChainIDOf(wm.w), "1")
			c05Pre.Store(string(tx), [][]byte{fund, deploy})
			bases = append(bases, hist.TxSpec{Kind: "OLVM", Bytes: tx, Note: []string{"EVM call into code that is the INVALID instruction", "EVM call with a value into code that reverts"}[k], Signers: []string{fresh.Addr.String()}})
		}
		parallel(len(bases), 14, func(bi int) {
			b := bases[bi]
			// twins: base executed, then (gap+1) empty blocks
			type variant struct {
				gap     int
				restart bool
				crash   string
			}
			variants := []variant{{0, false, ""}}
			if tier == "thorough" || bi%4 == 0 {
				variants = append(variants, variant{3, true, ""})
			}
			if bi%3 == 1 || tier == "thorough" {
				// restarted node, resubmission before the first block after the restart
				variants = append(variants, variant{0, true, ""})
			}
			if bi%3 == 2 || tier == "thorough" {
				// the node is killed after Tendermint saved the base's block and before the application
				// committed it: the block is executed by the handshake replay of the next start
				variants = append(variants, variant{bi % 2, true, []string{"before:Commit", "after:EndBlock", "after:DeliverTx:0"}[bi%3]})
			}
			if between[bi] != nil {
				variants = []variant{{2, false, ""}, {3, true, ""}}
			}
			for _, v := range variants {
				tw := wm.replayProbeCrash(b.Bytes, nil, v.gap, v.restart, v.crash, between[bi]...)
				if tw.err != nil || tw.died || !tw.baseOK {
					r.Count("bases_not_executable", 1)
					if (between[bi] != nil && wm.w.P.Frankenstein != 0) || b.Note == "transfer with an empty memo" || strings.HasPrefix(b.Note, "transfer signed over") {
						r.Inconclusive(fmt.Sprintf("directed base %q did not execute on the fork (err=%v died=%v log=%s)", b.Note, tw.err, tw.died, cut(tw.baseLog, 200)))
					}
					return
				}
				if between[bi] != nil {
					r.Count("directed:drain-and-refund-base-executed", 1)
				}
				if v.crash != "" && tw.replayed {
					r.Count("bases_executed_by_handshake_replay", 1)
				}
				r.Count("bases_executed", 1)
				jmu.Lock()
				encs := reencodings(b.Bytes)
				if b.Kind == "OLVM" {
					encs = append(encs, olvmUnsignedVariants(b.Bytes)...)
				}
				for _, e := range encs {
					jobs = append(jobs, job{wm, b, e, v.gap, v.restart, tw.state, between[bi], v.crash})
				}
				jmu.Unlock()
			}
		})
	}
	sort.Slice(jobs, func(i, j int) bool {
		a, b := jobs[i], jobs[j]
		return fmt.Sprint(a.wm.h, a.base.Kind, a.enc.name, a.gap, a.crash, a.restart, a.base.Note) < fmt.Sprint(b.wm.h, b.base.Kind, b.enc.name, b.gap, b.crash, b.restart, b.base.Note)
	})
	r.Gate("resubmissions", 40)
	r.Gate("bases_executed_by_handshake_replay", 2)
	kinds := map[string]bool{}
	var kmu sync.Mutex
	parallel(len(jobs), 14, func(i int) {
		j := jobs[i]
		id := fmt.Sprintf("%d/%s/%s/gap%d/restart=%v%s/%s", j.wm.h, j.base.Kind, j.enc.name, j.gap, j.restart, j.crash, cut(j.base.Note, 30))
		same := sameSignedContent(j.base.Bytes, j.enc.bytes)
		if j.base.Kind == "OLVM" && strings.HasPrefix(j.enc.name, "olvm-unsigned") {
			// the EVM-style signature covers nonce, recipient, value, gas, price, data and chain id only
			st := &action.SignedTx{}
			same = json.Unmarshal(j.enc.bytes, st) == nil && olvmAuthentic(j.wm, st)
		}
		if !same {
			r.Count("encodings_not_equivalent_skipped", 1)
			r.Case(id, false)
			return
		}
		o := j.wm.replayProbeCrash(j.base.Bytes, j.enc.bytes, j.gap, j.restart, j.crash, j.between...)
		if o.err != nil {
			r.Diag(id + ": " + o.err.Error())
			r.Case(id, false)
			return
		}
		if o.died {
			r.Diag(fmt.Sprintf("%s: node died at %s (decided by C18)", id, o.diedAt))
			r.Case(id, false)
			return
		}
		r.Case(id, o.baseOK)
		r.Count("resubmissions", 1)
		r.Count("encoding:"+j.enc.name, 1)
		kmu.Lock()
		kinds[j.base.Kind] = true
		kmu.Unlock()
		family := "native"
		if j.base.Kind == "OLVM" {
			family = "OLVM"
		}
		wit := map[string]interface{}{"warm_seed": j.wm.seed, "warm_height": j.wm.h, "kind": j.base.Kind, "encoding": j.enc.name, "gap_blocks": j.gap, "restart": j.restart, "killed_at": j.crash, "original": string(j.base.Bytes), "resubmission": string(j.enc.bytes)}
		if o.checkCode == 0 {
			r.Violate(verdict.Violation{Signature: "C05/check-accepted/" + family + "/" + j.enc.name, What: fmt.Sprintf("%s executed in a block; its resubmission as %q (%d blocks later, restart=%v) got CheckTx code 0", j.base.Kind, j.enc.name, j.gap, j.restart), Witness: wit})
		}
		if d := stateDiff(o.state, j.twin); len(d) > 0 {
			r.Violate(verdict.Violation{Signature: "C05/deliver-effect/" + family + "/" + j.enc.name, What: fmt.Sprintf("%s executed in a block; its resubmission as %q delivered in a later block (code %d) changed %d keys compared with an empty block, first %q", j.base.Kind, j.enc.name, o.deliver.Code, len(d), d[0]), Witness: wit})
		}
	})
	var ks []string
	for k := range kinds {
		ks = append(ks, k)
	}
	sort.Strings(ks)
	r.Set("kinds_covered", ks)
	r.Count("kinds", len(ks))
	r.Gate("kinds", 8)
	for _, j := range jobs {
		if j.enc.name == "leading-space" {
			r.Sample(map[string]interface{}{"kind": j.base.Kind, "encoding": j.enc.name, "resubmission": cut(string(j.enc.bytes), 400)})
			break
		}
	}
	return r.Finish()
}
