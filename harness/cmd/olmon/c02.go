package main

import (
	"encoding/json"
	"fmt"
	"os"
	"strings"

	"olverif/internal/drive"
	"olverif/internal/hist"
	"olverif/internal/ledger"
	"olverif/internal/mon"
	"olverif/internal/verdict"
	"olverif/internal/world"
)

// stakeMap reads validator address -> stake address from the v_ records.
func stakeMap(s hist.State) map[string]string {
	out := map[string]string{}
	for k, v := range s {
		if !strings.HasPrefix(k, "v_") {
			continue
		}
		var rec struct {
			Address      string `json:"address"`
			StakeAddress string `json:"stakeAddress"`
		}
		if json.Unmarshal(v, &rec) == nil && rec.Address != "" {
			out[rec.Address] = rec.StakeAddress
		}
	}
	return out
}

func eoaSet(w *world.World) map[string]bool {
	m := map[string]bool{}
	for _, u := range w.Users {
		m[u.Addr.String()] = true
	}
	for _, u := range w.EthUsers {
		m[u.Addr.String()] = true
	}
	for _, v := range w.Vals {
		m[v.Stake.Addr.String()] = true
		m[v.ValAddr.String()] = true
	}
	return m
}

// ledgerMonitor runs the C02 and C03 oracles on one block and reports the
// findings of property `own` (others become diagnostics).
type ledgerMonitor struct {
	r    *verdict.Run
	own  string
	w    *world.World
	eoas map[string]bool
	prev *ledger.Ledger
	seed int64
}

func newLedgerMonitor(r *verdict.Run, own string, w *world.World, seed int64) *ledgerMonitor {
	return &ledgerMonitor{r: r, own: own, w: w, eoas: eoaSet(w), seed: seed}
}

func (m *ledgerMonitor) onBlock(run *hist.Runner, blk *hist.Block) bool {
	cur := ledger.Decode(blk.Cur, nil)
	if len(cur.Unknown) > 0 || len(cur.Bad) > 0 {
		m.r.Inconclusive(fmt.Sprintf("ledger decoder: unknown key prefixes %q / undecodable %q (history seed %d block %d)", first(cur.Unknown, 3), first(cur.Bad, 3), m.seed, blk.H))
		return true
	}
	if m.prev == nil {
		m.prev = ledger.Decode(blk.Prev, nil)
	}
	var fs []mon.Finding
	fs = append(fs, mon.C02(m.prev, cur, blk, wrappedAllowance(blk))...)
	fs = append(fs, mon.C03(m.prev, cur, blk, m.eoas, stakeMap(blk.Prev), guiltyIn(blk))...)
	m.prev = cur
	stop := false
	for _, f := range fs {
		if f.Prop != m.own {
			m.r.Diag(f.Sig + ": " + f.What)
			continue
		}
		m.r.Violate(verdict.Violation{Property: f.Prop, Signature: f.Sig, What: fmt.Sprintf("history seed %d: %s", m.seed, f.What), Witness: map[string]interface{}{"seed": m.seed, "height": blk.H, "txs": sampleTxs(blk), "recipes": run.Recipes()}})
		stop = true
	}
	return stop
}

func first(s []string, n int) []string {
	if len(s) > n {
		return s[:n]
	}
	return s
}

// wrappedAllowance: amounts of lock trackers released and redeem trackers
// failed in this block (filled in by the eth monitor helpers).
func wrappedAllowance(blk *hist.Block) mon.Allowance {
	return mon.WrappedAllowance(blk)
}

func guiltyIn(blk *hist.Block) []string {
	return mon.GuiltyIn(blk)
}

func checkLedger(own, tier string) int {
	r := verdict.New(own, tier, "exploration")
	if own == "C02" {
		r.Rule = "after every Commit of seeded histories (honest-proposer mixed traffic plus isolated hostile probes over amount/currency traits of every amount-bearing field) the full committed key/value set is decoded into a per-currency ledger; a case is one block transition; non-trivial = at least one transaction returned code 0 or a hook moved value; distinct by (seed, height, app hash)"
	} else {
		r.Rule = "after every Commit of seeded histories (mixed traffic plus isolated probes naming third-party addresses in every address-typed field) each externally owned account's holdings are compared with the previous block and with the set of accounts that signed a code-0 transaction in the block; a case is one block transition; non-trivial = some watched account's holdings changed; distinct by (seed, height, app hash)"
	}
	r.Assumptions = []string{"ledger prefix table covers every store (unknown prefix => inconclusive)", "generator's record of who signed a transaction (it built and signed them with the repository's key handlers)"}
	nh := tierN(tier, 4, 40)
	blocks := tierN(tier, 40, 150)
	seed := verdict.Seed()
	if os.Getenv("PROBES_ONLY") != "" {
		nh = 0
	}
	r.Gate("block_transitions", nh*blocks/2)
	// plus histories in which every delegator leaves the delegation pool while a reward withdrawal is pending
	// (the pool is empty in the block in which the withdrawal matures)
	drained := 0
	if nh > 0 {
		drained = tierN(tier, 2, 8)
	}
	// ... and (C03) histories of nothing but native transfers and plain EVM transfers between the same accounts,
	// with mempool-only traffic of those accounts arriving meanwhile: every account's change is predicted
	// exactly from the executed transactions, so a credit that is lost again inside a block shows as well
	plain := 0
	if nh > 0 && own == "C03" {
		plain = tierN(tier, 2, 8)
	}
	// ... and histories in which most registered validators are not active (two seats, seven registered) while
	// proposals are funded, voted on and finalised: what is split among validators is split among those paid
	crowded := 0
	if nh > 0 {
		crowded = tierN(tier, 1, 6)
	}
	// ... and (C02) histories whose reward schedule is over from the first block, with a rewards pool that holds
	// less than one block of the burn-out rate, and delegations
	burnt := 0
	if nh > 0 && own == "C02" {
		burnt = tierN(tier, 1, 4)
	}
	parallel(nh+drained+plain+crowded+burnt, 8, func(i int) {
		hseed := seed*1000 + int64(i)
		fr := int64(1)
		if i%3 == 1 && i < nh {
			fr = 0
		}
		params := world.Params{Frankenstein: fr, NumCandidates: 3, NumEthUsers: 3, TopValidators: 5, ChainID: fmt.Sprintf("OneLedger-%s-%d", strings.ToLower(own), hseed)}
		if i >= nh+drained+plain && i < nh+drained+plain+crowded {
			// (no fork block: it would force a top count of 64)
			params.TopValidators, params.Frankenstein = 2, 0
		}
		if i >= nh+drained+plain+crowded {
			params.YearShares = []string{"1000000000000000000000"}
			params.YearCloseWindow = 3600 * 24 * 400
			params.RewardPoolOLT = "3000000000000000000"
		}
		w0, _ := world.New(params)
		lm := newLedgerMonitor(r, own, w0, hseed)
		cfg := drive.Cfg{Tag: strings.ToLower(own), Seed: hseed, Blocks: blocks, Params: params, Scripts: allScripts, Scout: true, Jumps: true, Absents: true, Honest: true}
		cfg.Stray = i%2 == 0
		if i >= nh {
			cfg.Scripts = []string{"delegation-drain", "transfers", "valrewards"}
			cfg.Jumps = i%2 == 1
		}
		if i >= nh+drained && i < nh+drained+plain {
			cfg.Scripts = []string{"olvm-mixed"}
			cfg.Stray, cfg.Jumps, cfg.Absents = true, false, false
		}
		if i >= nh+drained+plain && i < nh+drained+plain+crowded {
			cfg.Scripts = []string{"governance", "staking", "transfers"}
			cfg.Jumps, cfg.Absents = false, false
		}
		if i >= nh+drained+plain+crowded {
			cfg.Scripts = []string{"delegation", "transfers", "valrewards"}
			cfg.Absents = false
		}
		cfg.OnBlock = func(run *hist.Runner, blk *hist.Block) bool {
			changed := len(blk.Txs) > 0
			r.Case(fmt.Sprintf("%d/%d/%s", hseed, blk.H, blk.Commit.AppHash), changed)
			r.Count("block_transitions", 1)
			for _, t := range blk.Txs {
				if t.Call.Code == 0 {
					r.Count("ok:"+t.Kind, 1)
				}
			}
			if i >= nh+drained && i < nh+drained+plain {
				for _, f := range mon.SimpleBlock(blk) {
					if f.Prop == "COUNT" {
						r.Count("plain-transfer-blocks-accounted-exactly", 1)
						continue
					}
					r.Violate(verdict.Violation{Property: "C03", Signature: "C03/exact-accounting/" + strings.TrimPrefix(f.Sig, "C17/"), What: fmt.Sprintf("history seed %d: %s", hseed, f.What), Witness: map[string]interface{}{"seed": hseed, "height": blk.H, "txs": sampleTxs(blk), "recipes": run.Recipes()}})
					return true
				}
			}
			return lm.onBlock(run, blk)
		}
		res := drive.Run(cfg)
		if res.R != nil {
			defer res.R.Close()
		}
		if res.Err != nil {
			reportRunErr(r, own, hseed, res)
			return
		}
		if i == 0 && len(res.R.Blocks) > 0 {
			b := res.R.Blocks[len(res.R.Blocks)-1]
			l := ledger.Decode(b.Cur, nil)
			tot := map[string]string{}
			for c, v := range l.Total {
				tot[c] = v.String()
			}
			r.Sample(map[string]interface{}{"seed": hseed, "height": b.H, "txs": sampleTxs(b), "ledger_totals": tot, "entries": len(l.Entries)})
		}
	})
	runProbes(r, own, tier)
	return r.Finish()
}
