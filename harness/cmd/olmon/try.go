package main

import (
	"fmt"
	"math/rand"
	"os"
	"strconv"
	"strings"

	"olverif/internal/gen"
	"olverif/internal/hist"
	"olverif/internal/txb"
	"olverif/internal/world"
)

// try: development loop — run scripts on one leader + scout and print what
// every transaction did.
func try(args []string) {
	names := "transfers,staking"
	blocks := 12
	fr := int64(1)
	if len(args) > 0 {
		names = args[0]
	}
	if len(args) > 1 {
		blocks, _ = strconv.Atoi(args[1])
	}
	if len(args) > 2 {
		fr, _ = strconv.ParseInt(args[2], 10, 64)
	}
	w, err := world.New(world.Params{Frankenstein: fr, NumCandidates: 2, NumEthUsers: 3})
	if err != nil {
		panic(err)
	}
	dir := fmt.Sprintf("/var/tmp/olverif.%d", os.Getpid())
	defer os.RemoveAll(dir)
	r, err := hist.NewRunner(w, dir, []world.NodeSpec{{Name: "lead", Validator: w.Vals[0], LogLevel: 4}}, nil, true)
	if err != nil {
		fmt.Println("ERR", err)
		return
	}
	defer r.Close()
	scripts := gen.ByNames(strings.Split(names, ","))
	rng := rand.New(rand.NewSource(1))
	memo := &txb.Memo{Tag: "try"}
	for i := 0; i < blocks; i++ {
		c := &gen.Ctx{W: w, R: rng, H: r.H + 1, S: r.State, Memo: memo, TimeMs: r.TimeMs}
		var plan hist.Plan
		plan.DtMs = 5000
		for _, s := range scripts {
			plan.Txs = append(plan.Txs, s.Plan(c)...)
		}
		blk, err := r.Step(plan)
		if err != nil {
			fmt.Println("STEP ERR", err)
			fmt.Println(r.Reps[0].Box.LogTail(6000))
			return
		}
		fmt.Printf("--- block %d proposer=%s hash=%s keys=%d\n", blk.H, blk.Proposer[:8], blk.Commit.AppHash[:12], len(blk.Cur))
		for _, rj := range blk.Rejected {
			fmt.Printf("   REJECTED %-22s %-40s %s\n", rj.Kind, rj.Note, rj.Meta["check_log"])
		}
		for _, t := range blk.Txs {
			fmt.Printf("   %-22s %-40s code=%d gas=%d %s\n", t.Kind, t.Note, t.Call.Code, t.Call.GasUsed, cut(t.Call.Log, 200))
		}
		if len(blk.End.ValUpdates) > 0 && os.Getenv("VU") != "" {
			fmt.Printf("   valupdates: %v\n", blk.End.ValUpdates)
		}
		if os.Getenv("EVENTS") != "" {
			fmt.Printf("   begin events: %v\n   end events: %v\n", blk.Begin.Events, blk.End.Events)
		}
		for _, s := range scripts {
			s.Observe(c, blk)
		}
		if os.Getenv("KEYS") != "" {
			for _, k := range blk.Cur.Keys() {
				if pv, ok := blk.Prev[k]; !ok || string(pv) != string(blk.Cur[k]) {
					fmt.Printf("      %q = %s\n", k, cut(string(blk.Cur[k]), 3000))
				}
			}
			for _, k := range blk.Prev.Keys() {
				if _, ok := blk.Cur[k]; !ok {
					fmt.Printf("      %q DELETED\n", k)
				}
			}
		}
	}
}

func cut(s string, n int) string {
	if len(s) > n {
		return s[:n] + "..."
	}
	return s
}
