package main

import (
	"encoding/hex"
	"fmt"
	"io/ioutil"
	"math/rand"
	"os"
	"path/filepath"
	"regexp"
	"sort"
	"strings"
	"sync"

	"github.com/Oneledger/protocol/action"
	evact "github.com/Oneledger/protocol/action/evidence"
	govact "github.com/Oneledger/protocol/action/governance"
	"github.com/Oneledger/protocol/data/governance"
	"github.com/ethereum/go-ethereum/rlp"

	"olverif/internal/drive"
	"olverif/internal/gen"
	"olverif/internal/hist"
	"olverif/internal/proto"
	"olverif/internal/txb"
	"olverif/internal/verdict"
	"olverif/internal/world"
)

// projAt renders the consensus projection of a response, optionally keeping
// only the DeliverTx lines of surviving transactions (by tx hash).
func projKeep(calls []proto.Call, keep map[string]bool) []string {
	var out []string
	for _, c := range calls {
		if c.Injected {
			continue
		}
		if c.M == "DeliverTx" && keep != nil && !keep[c.TxHash] {
			continue
		}
		for _, l := range hist.ProjectResults([]proto.Call{c}) {
			out = append(out, logAttr.ReplaceAllStringFunc(l, blankLogBlockHash))
		}
	}
	return out
}

var logAttr = regexp.MustCompile(`tx\.logs\.[0-9]+=hex:[0-9a-f]+`)

// blankLogBlockHash: an EVM log attribute is the RLP list (address, topics, data, block number, tx hash, tx
// index, block hash, log index, removed); the block hash necessarily differs between a block and the same
// block without its failed transactions, everything else is part of the transaction's result.
func blankLogBlockHash(attr string) string {
	i := strings.Index(attr, "=hex:")
	raw, err := hex.DecodeString(attr[i+5:])
	if err != nil {
		return attr
	}
	var fields []rlp.RawValue
	if rlp.DecodeBytes(raw, &fields) != nil || len(fields) != 9 {
		return attr
	}
	fields[6] = rlp.RawValue{0x80}
	out, err := rlp.EncodeToBytes(fields)
	if err != nil {
		return attr
	}
	return attr[:i+5] + hex.EncodeToString(out)
}

// ---------------------------------------------------------------- C06

// checkC06: the twin receives every block without the transactions whose
// DeliverTx code was non-zero on the leader; app hashes and the surviving
// results must agree at every height.
func checkC06(tier string) int {
	r := verdict.New("C06", tier, "exploration")
	r.Rule = "seeded mixed histories with a byzantine proposer (transactions refused by admission are delivered anyway; gas limits drawn below the handler's consumption; conflicting pairs) run on a leader and on a twin that receives each block without the transactions that failed on the leader; a case is one block; non-trivial = the block contained at least one failed transaction; distinct by (seed, height, set of failed tx hashes)"
	r.Assumptions = []string{"MaxGas = -1 (as in the repository's genesis generator), so the block's running gas total has no other effect", "block hashes are not compared (the twin's blocks differ by construction)"}
	nh := tierN(tier, 6, 50)
	blocks := tierN(tier, 36, 120)
	seed := verdict.Seed()
	r.Gate("blocks_with_failed_tx", nh*3)
	r.Gate("failed_tx_removed", nh*6)
	parallel(nh, 7, func(i int) {
		hseed := seed*1000 + int64(i)
		params := world.Params{Frankenstein: 1, NumCandidates: 2, NumEthUsers: 3, TopValidators: 5, ChainID: fmt.Sprintf("OneLedger-c06-%d", hseed)}
		w0, _ := world.New(params)
		frng := rand.New(rand.NewSource(hseed * 7))
		cfg := drive.Cfg{Tag: "c06", Seed: hseed, Blocks: blocks, Params: params, Scripts: allScripts, Scout: true}
		// (a third node receives every block without its first failed transaction only: were that transaction a
		// no-op, every other transaction of the block, failed ones included, would give the same result)
		cfg.Specs = []world.NodeSpec{{Name: "lead", Validator: w0.Vals[0], LogLevel: 1}, {Name: "twin", Validator: w0.Vals[0], LogLevel: 1}, {Name: "twin-one", Validator: w0.Vals[0], LogLevel: 1}}
		// gas limits around what handlers consume: the failure then happens in the fee step, after the handler wrote
		cfg.FeeFn = func(kind string) *action.Fee {
			if kind == "OLVM" || frng.Intn(7) != 0 {
				return nil
			}
			g := []int64{1, 9000, 13000, 14800, 15400, 16500, 21000, 24000, 25500, 30000, 250000}[frng.Intn(11)]
			f := txb.Fee("1000000000", g)
			return &f
		}
		// a sub-domain deleted by one transaction and created again by a later one of the same block that fails
		cfg.ExtraPlan = func(c *gen.Ctx) []hist.TxSpec {
			if c.H >= 4 && c.H%3 == 1 {
				return gen.RecreateDeletedSub(c, c.W.Users[1%len(c.W.Users)], fmt.Sprint(hseed%1000))
			}
			if c.H >= 5 && c.H%6 == 2 {
				return gen.FailingFeeConfigCreate(c, fmt.Sprint(hseed))
			}
			return nil
		}
		// byzantine proposer: everything generated goes into the block
		cfg.FilterPlan = func(c *gen.Ctx, specs []hist.TxSpec) []hist.TxSpec {
			for k := range specs {
				specs[k].Force = true
			}
			// conflicting pair: the same sender spends (almost) everything twice
			if c.H%5 == 3 {
				u := c.W.Users[5%len(c.W.Users)]
				bal := gen.BalanceOf(c.S, u.Addr, "OLT")
				if bal.Sign() > 0 {
					amt := bal.Rsh(bal, 1).String()
					for k := 0; k < 3; k++ {
						sp := gen.Build(c, "SEND", txb.Send(u.Addr, c.W.Users[0].Addr, "OLT", amt), fmt.Sprintf("conflicting spend %d", k), u)
						sp.Force = true
						specs = append(specs, sp)
					}
				}
			}
			return specs
		}
		var keep, keepOne map[string]bool
		cfg.PerReplica = func(run *hist.Runner, h int64, idx int, base proto.Recipe, sofar *hist.Block) *proto.Recipe {
			if idx == 2 {
				keepOne = map[string]bool{}
				alt := base
				alt.Txs = nil
				dropped := false
				for _, t := range sofar.Txs {
					if t.Call.Code != 0 && !dropped {
						dropped = true
						continue
					}
					alt.Txs = append(alt.Txs, t.Bytes)
					keepOne[t.Call.TxHash] = true
				}
				return &alt
			}
			if idx != 1 {
				return nil
			}
			keep = map[string]bool{}
			alt := base
			alt.Txs = nil
			for _, t := range sofar.Txs {
				if t.Call.Code == 0 {
					alt.Txs = append(alt.Txs, t.Bytes)
					keep[t.Call.TxHash] = true
				}
			}
			return &alt
		}
		cfg.OnBlock = func(run *hist.Runner, blk *hist.Block) bool {
			var failed []string
			for _, t := range blk.Txs {
				if t.Call.Code != 0 {
					failed = append(failed, t.Call.TxHash[:8])
					r.Count("failed:"+t.Kind, 1)
				} else {
					r.Count("ok:"+t.Kind, 1)
				}
			}
			if os.Getenv("DEBUG_C06") != "" { // triage aid
				for _, t := range blk.Txs {
					if strings.Contains(t.Note, os.Getenv("DEBUG_C06")) {
						fmt.Printf("DEBUG h=%d %s code=%d %q %s\n", blk.H, t.Kind, t.Call.Code, t.Note, cut(t.Call.Log, 120))
					}
				}
			}
			sort.Strings(failed)
			r.Case(fmt.Sprintf("%d/%d/%s", hseed, blk.H, strings.Join(failed, ",")), len(failed) > 0)
			r.Count("blocks_compared", 1)
			if len(failed) > 0 {
				r.Count("blocks_with_failed_tx", 1)
				r.Count("failed_tx_removed", len(failed))
			}
			if blk.Resp[1] == nil {
				r.Violate(verdict.Violation{Signature: "C06/twin-died", What: fmt.Sprintf("history seed %d: the twin died executing block %d without its failed transactions", hseed, blk.H), Witness: map[string]interface{}{"seed": hseed, "log": run.Reps[1].Box.LogTail(2000)}})
				return true
			}
			a := projKeep(blk.Resp[0].Calls, keep)
			b := projKeep(blk.Resp[1].Calls, nil)
			if idx, x, y := hist.FirstDiff(a, b); idx >= 0 {
				method := strings.SplitN(x+" ", " ", 2)[0]
				var fk []string
				for _, t := range blk.Txs {
					if t.Call.Code != 0 {
						k := t.Kind
						if t.Trait != "" {
							k += "[" + t.Trait + "]"
						}
						fk = append(fk, k)
					}
				}
				sort.Strings(fk)
				sig := "C06/" + strings.ToLower(method) + "/failed:" + strings.Join(uniq(fk), "+")
				what := fmt.Sprintf("history seed %d block %d: leader %q | twin without failed txs %q", hseed, blk.H, x, y)
				if method == "Commit" {
					k, d := diffStates(fullDump(run.Reps[0].Box), fullDump(run.Reps[1].Box))
					sig += "/key:" + keyClass(k)
					what += "; first differing key " + d
				}
				r.Violate(verdict.Violation{Signature: sig, What: what, Witness: map[string]interface{}{"seed": hseed, "height": blk.H, "txs": sampleTxs(blk), "recipes": run.Recipes()}})
				return true
			}
			if len(failed) > 0 && len(blk.Resp) > 2 {
				if blk.Resp[2] == nil {
					r.Violate(verdict.Violation{Signature: "C06/twin-died", What: fmt.Sprintf("history seed %d: the node that got block %d without its first failed transaction died", hseed, blk.H), Witness: map[string]interface{}{"seed": hseed, "log": run.Reps[2].Box.LogTail(2000)}})
					return true
				}
				r.Count("blocks_compared_without_their_first_failed_tx_only", 1)
				if idx, x, y := hist.FirstDiff(projKeep(blk.Resp[0].Calls, keepOne), projKeep(blk.Resp[2].Calls, nil)); idx >= 0 {
					method := strings.SplitN(x+" ", " ", 2)[0]
					first := ""
					for _, t := range blk.Txs {
						if t.Call.Code != 0 {
							first = t.Kind
							if t.Trait != "" {
								first += "[" + t.Trait + "]"
							}
							break
						}
					}
					r.Violate(verdict.Violation{Signature: "C06/without-first-failed-only/" + strings.ToLower(method) + "/failed:" + first, What: fmt.Sprintf("history seed %d block %d: leader %q | node that got the block without its first failed transaction (%s) %q", hseed, blk.H, x, first, y), Witness: map[string]interface{}{"seed": hseed, "height": blk.H, "txs": sampleTxs(blk), "recipes": run.Recipes()}})
					return true
				}
			}
			return false
		}
		res := drive.Run(cfg)
		if res.R != nil {
			defer res.R.Close()
		}
		if res.Err != nil {
			reportRunErr(r, "C06", hseed, res)
			return
		}
		if i == 0 {
			for _, b := range res.R.Blocks {
				for _, t := range b.Txs {
					if t.Call.Code != 0 {
						r.Sample(map[string]interface{}{"seed": hseed, "height": b.H, "failed": fmt.Sprintf("%s (%s) %s", t.Kind, t.Note, t.Trait), "log": cut(t.Call.Log, 120), "block_txs": len(b.Txs)})
						break
					}
				}
			}
		}
	})
	return r.Finish()
}

func uniq(s []string) []string {
	var out []string
	for i, x := range s {
		if i == 0 || x != s[i-1] {
			out = append(out, x)
		}
	}
	return out
}

// ---------------------------------------------------------------- C07

var boundaries = []string{"before:BeginBlock", "after:BeginBlock", "before:DeliverTx:0", "after:DeliverTx:0", "before:DeliverTx:1", "after:DeliverTx:1", "after:DeliverTx:2", "before:EndBlock", "after:EndBlock", "before:Commit", "after:Commit"}

// checkC07: the twin additionally receives CheckTx calls at call boundaries.
func checkC07(tier string) int {
	r := verdict.New("C07", tier, "exploration")
	r.Rule = "seeded mixed histories run on a leader that never receives CheckTx and on a twin that receives CheckTx calls (the block's own transactions, rejected ones, ones of later blocks: valid, invalid and state-changing kinds) injected at every class of ABCI call boundary; a case is one (block, boundary set); non-trivial = at least one injected CheckTx returned code 0 at a mid-block boundary; distinct by (seed, height, boundaries used)"
	r.Assumptions = []string{"a CheckTx can only run between two consensus calls (Tendermint's local client serialises all ABCI connections under one mutex); the injection happens exactly there"}
	nh := tierN(tier, 6, 50)
	blocks := tierN(tier, 36, 120)
	seed := verdict.Seed()
	raceBin := os.Getenv("OLBOX_RACE_BIN")
	raceEvery := tierN(tier, 6, 5)
	if raceBin != "" {
		if _, err := os.Stat(raceBin); err != nil {
			raceBin = ""
		}
	}
	r.Gate("injected_checktx", nh*blocks)
	r.Gate("boundary_classes", 8)
	bseen := map[string]bool{}
	var bmu sync.Mutex
	parallel(nh, 7, func(i int) {
		hseed := seed*1000 + int64(i)
		fr := int64(1)
		if i%3 == 2 {
			fr = 0
		}
		params := world.Params{Frankenstein: fr, NumCandidates: 4, NumEthUsers: 3, TopValidators: 5, ChainID: fmt.Sprintf("OneLedger-c07-%d", hseed)}
		w0, _ := world.New(params)
		irng := rand.New(rand.NewSource(hseed * 13))
		cfg := drive.Cfg{Tag: "c07", Seed: hseed, Blocks: blocks, Params: params, Scripts: allScripts, Scout: true, Jumps: true, Honest: true}
		cfg.Specs = []world.NodeSpec{{Name: "lead", Validator: w0.Vals[0], LogLevel: 1}, {Name: "twin", Validator: w0.Vals[0], LogLevel: 1}}
		// some histories use a twin built with the race detector whose CheckTx calls come from a second
		// goroutine through Tendermint's real mempool connection instead of from fixed boundaries
		concurrent := raceBin != "" && i%raceEvery == raceEvery-1
		if concurrent {
			cfg.Envs = [][]string{nil, {"OLBOX_BIN=" + raceBin, "GORACE=halt_on_error=0 log_path=" + filepath.Join(drive.Scratch(), fmt.Sprintf("race-%d", hseed)) + "/race.log"}}
			_ = os.MkdirAll(filepath.Join(drive.Scratch(), fmt.Sprintf("race-%d", hseed)), 0755)
		}
		var pool [][]byte // transactions seen so far (admitted and rejected) — re-checked later as well
		var lastRejected [][]byte
		var used []string
		inj := 0
		cfg.PerReplica = func(run *hist.Runner, h int64, idx int, base proto.Recipe, sofar *hist.Block) *proto.Recipe {
			if idx != 1 {
				return nil
			}
			alt := base
			alt.Inject = map[string][][]byte{}
			used = nil
			cands := append([][]byte{}, base.Txs...)
			cands = append(cands, lastRejected...)
			for k := 0; k < 3 && len(pool) > 0; k++ {
				cands = append(cands, pool[irng.Intn(len(pool))])
			}
			// check-only traffic that the hooks are about to handle themselves:
			// expiry / finalisation of live proposals, sent by a validator
			v := w0.Vals[3%len(w0.Vals)]
			for key := range run.State {
				for _, st := range []string{"propActive", "propPassed", "propFailed"} {
					if strings.HasPrefix(key, st) && len(key) == len(st)+64 && irng.Intn(3) == 0 {
						id := governance.ProposalID(key[len(st):])
						inj++
						cands = append(cands,
							txb.Tx(&govact.ExpireVotes{ProposalID: id, ValidatorAddress: v.ValAddr}, txb.DefaultFee(), fmt.Sprintf("c07-inj-%d-%d", hseed, inj), gen.ConsAccount(v)),
							txb.Tx(&govact.FinalizeProposal{ProposalID: id, ValidatorAddress: v.ValAddr}, txb.DefaultFee(), fmt.Sprintf("c07-inj-%d-%d", hseed, inj+100000), gen.ConsAccount(v)))
					}
				}
			}
			// ... and stake transactions of validators that do not exist yet (they stay check-only here)
			var newcomers [][]byte
			for _, nv := range w0.Vals {
				if !nv.InGenesis && gen.StakeOf(run.State, nv.ValAddr).Sign() == 0 {
					inj++
					newcomers = append(newcomers, txb.Tx(gen.StakeMsg(nv, fmt.Sprint(w0.P.MinSelfDelegation+int64(inj%7))), txb.DefaultFee(), fmt.Sprintf("c07-newcomer-%d-%d", hseed, inj), &nv.Stake, gen.ConsAccount(nv)))
				}
			}
			cands = append(cands, newcomers...)
			// ... and release requests of frozen validators (check-only here; the evidence script sends its own)
			var releases [][]byte
			for _, fv := range w0.Vals {
				if sr := gen.Susp(run.State, fv.ValAddr.String()); sr != nil && sr.IsFrozen() {
					inj++
					releases = append(releases, txb.Tx(&evact.Release{ValidatorAddress: fv.ValAddr}, txb.DefaultFee(), fmt.Sprintf("c07-release-%d-%d", hseed, inj), gen.ConsAccount(fv)))
				}
			}
			cands = append(cands, releases...)
			// ... and configuration proposals that only ever reach the mempool check (their values are looked at
			// there; nothing they name may be in force afterwards): one per block, rotating through the options
			if !concurrent {
				upd := []string{"stakingOptions.topValidatorCount:2", "stakingOptions.minSelfDelegationAmount:900000000", "stakingOptions.maturityTime:1", "feeOption.minFeeDecimal:3", "onsOptions.perBlockFees:77", "onsOptions.baseDomainPrice:1", "evidenceOptions.penaltyBasePercentage:39", "propOptions.general.passPercentage:99", "stakingOptions.topValidatorCount:1"}[int(h)%9]
				cp := gen.ConfigProposalBlocks(w0, run.State, h, fmt.Sprintf("c07-%d", hseed), upd)[0][0]
				b := []string{"after:BeginBlock", "before:EndBlock", "before:BeginBlock", "after:DeliverTx:0"}[int(h)%4]
				alt.Inject[b] = append(alt.Inject[b], cp)
				used = append(used, b)
				r.Count("injected_configuration_proposal", 1)
			}
			if len(releases) > 0 && !concurrent {
				b := []string{"after:BeginBlock", "before:EndBlock", "after:DeliverTx:0"}[int(h)%3]
				alt.Inject[b] = append(alt.Inject[b], releases...)
				used = append(used, b)
				r.Count("injected_release_of_a_frozen_validator", len(releases))
			}
			if len(cands) == 0 {
				return &alt
			}
			if len(newcomers) > 0 && !concurrent && h%3 != 0 {
				b := []string{"after:BeginBlock", "before:EndBlock"}[int(h/3)%2]
				alt.Inject[b] = append(alt.Inject[b], newcomers[int(h)%len(newcomers)])
				used = append(used, b)
				r.Count("injected_newcomer_stake", 1)
			}
			if concurrent {
				n := 3 + irng.Intn(6)
				for j := 0; j < n; j++ {
					alt.Concurrent = append(alt.Concurrent, cands[irng.Intn(len(cands))])
				}
				used = []string{"concurrent-goroutine"}
				return &alt
			}
			if (h%2 == 0 || h%4 == 1) && len(base.Txs) > 0 {
				// every transaction of the block passed this node's mempool check before the block arrived
				alt.Inject["before:BeginBlock"] = append(alt.Inject["before:BeginBlock"], base.Txs...)
				used = append(used, "before:BeginBlock")
			}
			nb := 2 + irng.Intn(3)
			for k := 0; k < nb; k++ {
				b := boundaries[irng.Intn(len(boundaries))]
				n := 1 + irng.Intn(3)
				for j := 0; j < n; j++ {
					alt.Inject[b] = append(alt.Inject[b], cands[irng.Intn(len(cands))])
				}
				used = append(used, b)
			}
			return &alt
		}
		cfg.OnBlock = func(run *hist.Runner, blk *hist.Block) bool {
			lastRejected = nil
			for _, rj := range blk.Rejected {
				lastRejected = append(lastRejected, rj.Bytes)
				pool = append(pool, rj.Bytes)
			}
			for _, t := range blk.Txs {
				pool = append(pool, t.Bytes)
			}
			if len(pool) > 200 {
				pool = pool[len(pool)-200:]
			}
			if blk.Resp[1] == nil {
				r.Diag(fmt.Sprintf("history seed %d: the twin died at block %d while executing injected CheckTx calls (decided by C18)", hseed, blk.H))
				r.Count("aborted_histories", 1)
				return true
			}
			inj, injOK := 0, 0
			for _, c := range blk.Resp[1].Calls {
				if c.Injected {
					inj++
					if c.Code == 0 {
						injOK++
					}
				}
			}
			sort.Strings(used)
			r.Case(fmt.Sprintf("%d/%d/%s", hseed, blk.H, strings.Join(used, ",")), injOK > 0)
			r.Count("injected_checktx", inj)
			r.Count("injected_checktx_ok", injOK)
			r.Count("blocks_compared", 1)
			for _, b := range used {
				r.Count("at:"+b, 1)
				bmu.Lock()
				bseen[classOfBoundary(b)] = true
				bmu.Unlock()
			}
			a, b := hist.ProjectResults(blk.Resp[0].Calls), hist.ProjectResults(blk.Resp[1].Calls)
			if idx, x, y := hist.FirstDiff(a, b); idx >= 0 {
				method := strings.SplitN(x+" ", " ", 2)[0]
				sig := "C07/" + strings.ToLower(method)
				what := fmt.Sprintf("history seed %d block %d: leader %q | twin with injected CheckTx at %v %q", hseed, blk.H, x, used, y)
				if method == "Commit" {
					k, d := diffStates(fullDump(run.Reps[0].Box), fullDump(run.Reps[1].Box))
					sig += "/key:" + keyClass(k)
					what += "; first differing key " + d
				} else if method == "DeliverTx" {
					sig += "/" + kindAt(blk, idx, a)
				}
				var injKinds []string
				r.Violate(verdict.Violation{Signature: sig, What: what, Witness: map[string]interface{}{"seed": hseed, "height": blk.H, "boundaries": used, "txs": sampleTxs(blk), "injected_kinds": injKinds, "recipes": run.Recipes()}})
				return true
			}
			return false
		}
		res := drive.Run(cfg)
		if res.R != nil {
			defer res.R.Close()
		}
		if concurrent && res.R != nil {
			r.Count("race_detector_histories", 1)
			matches, _ := filepath.Glob(filepath.Join(drive.Scratch(), fmt.Sprintf("race-%d", hseed), "race.log*"))
			for _, m := range matches {
				bz, err := ioutil.ReadFile(m)
				if err != nil {
					continue
				}
				for _, rep := range strings.Split(string(bz), "WARNING: DATA RACE")[1:] {
					r.Count("race_reports_total", 1)
					// a race between the mempool check path and anything else is a C07 matter;
					// others (start-up goroutines, services) are recorded as diagnostics
					if strings.Contains(rep, "txChecker") || strings.Contains(rep, ").CheckTx") {
						r.Violate(verdict.Violation{Signature: "C07/data-race/" + raceSite(rep), What: fmt.Sprintf("history seed %d: the race detector reports a data race involving the mempool check path: %s", hseed, raceSite(rep)), Witness: map[string]interface{}{"seed": hseed, "report": cut(rep, 3000)}})
					} else {
						r.Diag("data race outside the check path: " + raceSite(rep))
					}
				}
			}
		}
		if res.Err != nil {
			reportRunErr(r, "C07", hseed, res)
			return
		}
		if i == 0 && len(res.R.Blocks) > 2 {
			b := res.R.Blocks[len(res.R.Blocks)-1]
			var injs []string
			for _, c := range b.Resp[1].Calls {
				if c.Injected {
					injs = append(injs, fmt.Sprintf("CheckTx %s code=%d", c.TxHash[:10], c.Code))
				}
			}
			r.Sample(map[string]interface{}{"seed": hseed, "height": b.H, "injected": injs, "projection": hist.Project(b.Resp[1].Calls)})
		}
	})
	r.Count("boundary_classes", len(bseen))
	return r.Finish()
}

func classOfBoundary(b string) string {
	p := strings.Split(b, ":")
	if len(p) >= 2 {
		return p[0] + ":" + p[1]
	}
	return b
}

// raceSite names a race report by the first repository frames of its two stacks.
func raceSite(rep string) string {
	var sites []string
	for _, l := range strings.Split(rep, "\n") {
		l = strings.TrimSpace(l)
		if strings.HasPrefix(l, "github.com/Oneledger/protocol/") || strings.HasPrefix(l, "github.com/tendermint/") {
			f := l
			if i := strings.Index(f, "("); i > 0 {
				f = f[:i]
			}
			f = strings.TrimPrefix(strings.TrimPrefix(f, "github.com/Oneledger/protocol/"), "github.com/tendermint/")
			if len(sites) == 0 || sites[len(sites)-1] != f {
				sites = append(sites, f)
			}
			if len(sites) == 2 {
				break
			}
		}
	}
	return strings.Join(sites, "~")
}
