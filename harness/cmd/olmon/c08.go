package main

import (
	"fmt"
	"math/rand"
	"os"
	"strings"
	"sync"

	"olverif/internal/boxcli"
	"olverif/internal/drive"
	"olverif/internal/hist"
	"olverif/internal/proto"
	"olverif/internal/verdict"
	"olverif/internal/world"
)

// crashPoints enumerates the ABCI boundaries of a block with n transactions.
func crashPoints(n int) []string {
	pts := []string{"after:SaveBlock", "after:BeginBlock"}
	for k := 0; k < n && k < 3; k++ {
		pts = append(pts, fmt.Sprintf("after:DeliverTx:%d", k))
	}
	pts = append(pts, "after:EndBlock", "after:Commit", "after:ApplyBlock")
	return pts
}

func pointClass(p string) string {
	if i := strings.Index(p, "+"); i > 0 {
		return "delayed-kill-after-" + strings.Replace(p[:i], ":", "-", 1)
	}
	s := strings.Split(p, ":")
	if len(s) >= 2 {
		return s[0] + ":" + s[1]
	}
	return p
}

// checkC08: the crasher is killed (SIGKILL) at an ABCI call boundary,
// restarted from its on-disk data through the production start-up path, and
// compared with the uninterrupted leader from then on.
func checkC08(tier string) int {
	r := verdict.New("C08", tier, "fault_enumeration")
	r.Rule = "for seeded mixed histories a second node is killed with SIGKILL at an ABCI call boundary (after Tendermint saved the block, after BeginBlock, after the k-th DeliverTx, after EndBlock, after Commit, after Tendermint saved its state) of selected heights (every boundary class at several heights per history, repeated crashes), restarted through the production start-up path (real handshake and block replay) and compared with the uninterrupted leader: Info after restart, the replayed block's results and every later block; a case is one crash point; non-trivial = after the restart at least one block was replayed or continued and compared; distinct by (seed, height, boundary)"
	r.Assumptions = []string{"kill -9 at ABCI call boundaries; torn writes below the syscall boundary are out of reach", "Tendermint's handshake decides what is replayed"}
	nh := tierN(tier, 4, 30)
	blocks := tierN(tier, 44, 110)
	every := tierN(tier, 4, 3)
	seed := verdict.Seed()
	r.Gate("crash_points", nh*6)
	r.Gate("crash_classes", 8)
	classes := map[string]bool{}
	var cmu sync.Mutex
	parallel(nh, 7, func(i int) {
		hseed := seed*1000 + int64(i)
		params := world.Params{Frankenstein: 1, NumCandidates: 2, NumEthUsers: 3, TopValidators: 5, ChainID: fmt.Sprintf("OneLedger-c08-%d", hseed)}
		w0, _ := world.New(params)
		crng := rand.New(rand.NewSource(hseed * 17))
		cfg := drive.Cfg{Tag: "c08", Seed: hseed, Blocks: blocks, Params: params, Scripts: allScripts, Scout: true, Jumps: true, Absents: true, Honest: true}
		cfg.Specs = []world.NodeSpec{{Name: "lead", Validator: w0.Vals[1], LogLevel: 1}, {Name: "crasher", Validator: w0.Vals[1], LogLevel: 1}}
		if i%2 == 1 {
			// as on a real node: every submitted transaction passes both nodes' mempool check before the block
			cfg.Gossip = true
			r.Count("histories_with_mempool_checks_on_both_nodes", 1)
		}
		var point string
		var lastDup []byte // the latest refused resubmission of a lock / redeem whose tracker is finished
		ptIdx := 0
		cfg.PerReplica = func(run *hist.Runner, h int64, idx int, base proto.Recipe, sofar *hist.Block) *proto.Recipe {
			if idx != 1 {
				if idx == 0 && cfg.Gossip && h >= 3 && sofar != nil {
					// (see below: the node that is not killed meets the refused lock / redeem once more, as the last
					// thing before its block end)
					for _, rj := range sofar.Rejected {
						if (rj.Kind == "ETH_LOCK" || rj.Kind == "ETH_REDEEM" || rj.Kind == "ERC20_LOCK" || rj.Kind == "ERC20_REDEEM") && strings.Contains(rj.Note, "after the tracker finished") {
							lastDup = rj.Bytes
						}
					}
					if lastDup != nil && h%2 == 1 {
						alt := base
						alt.Inject = map[string][][]byte{}
						for k, v := range base.Inject {
							alt.Inject[k] = v
						}
						alt.Inject["before:EndBlock"] = append(append([][]byte{}, base.Inject["before:EndBlock"]...), lastDup)
						return &alt
					}
				}
				return nil
			}
			point = ""
			if cfg.Gossip && h >= 3 && sofar != nil {
				// in every other block the node that keeps running meets, as the last thing before its block end, the
				// mempool check of a lock / redeem that is refused because its tracker is finished; the other node is
				// killed right after BeginBlock and restarted (whatever that check leaves behind in the process is
				// not there on the restarted one)
				for _, rj := range append([]hist.TxSpec{{Kind: "ETH_LOCK", Note: "(the refused resubmission of an earlier block, met again)"}}, sofar.Rejected...)[:1] {
					if lastDup != nil && h%2 == 1 {
						point = "after:BeginBlock"
						r.Count("kills_right_after_a_refused_lock_or_redeem_was_checked", 1)
						if os.Getenv("DEBUG_C08") != "" { // triage aid
							n := 0
							for k := range sofar.Prev {
								if strings.HasPrefix(k, "etht") {
									n++
								}
							}
							fmt.Printf("DEBUG h=%d refused %s %q (%s) ongoing-tracker-keys=%d\n", h, rj.Kind, rj.Note, cut(rj.Meta["check_log"], 80), n)
						}
						alt := base
						alt.Crash = point
						return &alt
					}
				}
			}
			if h < 3 || (h%int64(every) != 0 && crng.Intn(9) != 0) {
				return nil
			}
			pts := crashPoints(len(base.Txs))
			// plus kills that land inside a call: some microseconds after a boundary (inside SaveBlock, inside
			// the application's Commit, inside Tendermint's state save, ...)
			for _, bnd := range []string{"before:SaveBlock", "after:SaveBlock", "before:Commit", "before:Commit", "after:Commit", "after:EndBlock"} {
				span := 2500
				if strings.HasSuffix(bnd, "SaveBlock") {
					span = 300
				}
				pts = append(pts, fmt.Sprintf("%s+%d", bnd, crng.Intn(span)))
			}
			point = pts[ptIdx%len(pts)]
			ptIdx++
			alt := base
			alt.Crash = point
			return &alt
		}
		cfg.OnBlock = func(run *hist.Runner, blk *hist.Block) bool {
			crasher := run.Reps[1]
			if point == "" {
				// plain lock-step comparison (also covers the blocks after a restart)
				if blk.Resp[1] == nil {
					r.Violate(verdict.Violation{Signature: "C08/died-after-restart/" + crashClass(crasher.Box.LogTail(3000)), What: fmt.Sprintf("history seed %d: the restarted node died executing block %d", hseed, blk.H), Witness: map[string]interface{}{"seed": hseed, "height": blk.H, "log": crasher.Box.LogTail(2500)}})
					return true
				}
				if idx, x, y := hist.FirstDiff(hist.ProjectResults(blk.Resp[0].Calls), hist.ProjectResults(blk.Resp[1].Calls)); idx >= 0 {
					r.Violate(verdict.Violation{Signature: "C08/continued/" + strings.ToLower(strings.SplitN(x+" ", " ", 2)[0]), What: fmt.Sprintf("history seed %d block %d: uninterrupted %q | node restarted earlier %q", hseed, blk.H, x, y), Witness: map[string]interface{}{"seed": hseed, "height": blk.H, "recipes": run.Recipes()}})
					return true
				}
				r.Count("blocks_compared_after_restart", 1)
				return false
			}
			pc := pointClass(point)
			hasTx := "empty-block"
			if len(blk.Txs) > 0 {
				hasTx = "block-with-tx"
			}
			// the crasher must have died by SIGKILL
			if blk.Resp[1] != nil || !crasher.Box.Dead {
				r.Inconclusive(fmt.Sprintf("history seed %d: crash point %s at block %d was not reached", hseed, point, blk.H))
				return true
			}
			r.Count("crash_points", 1)
			r.Count("at:"+pc, 1)
			cmu.Lock()
			classes[pc] = true
			cmu.Unlock()
			// restart through the production path
			err := crasher.Box.Restart()
			if err != nil {
				if err == boxcli.ErrTimeout {
					r.Inconclusive(fmt.Sprintf("history seed %d: restart watchdog fired", hseed))
					return true
				}
				r.Case(fmt.Sprintf("%d/%d/%s", hseed, blk.H, point), true)
				r.Violate(verdict.Violation{Signature: "C08/recovery/" + pc + "/" + hasTx, What: fmt.Sprintf("history seed %d: after a kill at %s of block %d the node cannot start again from its on-disk data (%v; %s)", hseed, point, blk.H, err, crashClass(crasher.Box.LogTail(6000))), Witness: map[string]interface{}{"seed": hseed, "height": blk.H, "point": point, "log": crasher.Box.LogTail(3000), "recipes": run.Recipes()}})
				return true
			}
			boot := crasher.Box.Boot
			// Info must report the last completed commit: h-1 if the kill came
			// before the application's Commit returned, h otherwise
			var info *proto.Call
			for k := range boot.Calls {
				if boot.Calls[k].M == "Info" {
					info = &boot.Calls[k]
					break
				}
			}
			wantH := blk.H - 1
			wantHash := ""
			if len(run.Blocks) >= 2 {
				wantHash = run.Blocks[len(run.Blocks)-2].Commit.AppHash
			}
			if point == "after:Commit" || point == "after:ApplyBlock" {
				wantH, wantHash = blk.H, blk.Commit.AppHash
			}
			if info == nil {
				r.Inconclusive(fmt.Sprintf("history seed %d: no Info call recorded at restart", hseed))
				return true
			}
			delayed := strings.Contains(point, "+")
			if delayed && info.InfoHeight == blk.H && !strings.HasPrefix(point, "before:SaveBlock") {
				// the kill came somewhere inside a call: either commit may be the last completed one
				wantH, wantHash = blk.H, blk.Commit.AppHash
			}
			if delayed {
				r.Count(fmt.Sprintf("inside-call-kill:app-at-h%+d", info.InfoHeight-blk.H), 1)
			}
			if info.InfoHeight != wantH || (wantHash != "" && info.AppHash != wantHash) {
				r.Case(fmt.Sprintf("%d/%d/%s", hseed, blk.H, point), true)
				r.Violate(verdict.Violation{Signature: "C08/info/" + pc, What: fmt.Sprintf("history seed %d: killed at %s of block %d; after restart Info reports height %d hash %s, the last completed commit is height %d hash %s", hseed, point, blk.H, info.InfoHeight, info.AppHash, wantH, wantHash), Witness: map[string]interface{}{"seed": hseed, "height": blk.H, "point": point}})
				return true
			}
			// after the handshake the node must be at height h (Tendermint had
			// saved the block), and the replayed calls must equal the leader's
			if delayed && boot.Height == blk.H-1 && (strings.HasPrefix(point, "before:SaveBlock") || strings.HasPrefix(point, "after:SaveBlock")) {
				// Tendermint had not (completely) saved the block: it is proposed again and must execute
				// exactly as on the uninterrupted node
				r.Count("inside-call-kill:block-not-saved-resent", 1)
				again := *blk.Recipe
				again.Crash, again.Inject, again.Concurrent = "", nil, nil
				resp, err := crasher.Box.Block(&again)
				r.Case(fmt.Sprintf("%d/%d/%s", hseed, blk.H, point), true)
				if err != nil || resp.Err != "" || resp.ApplyErr != "" {
					r.Violate(verdict.Violation{Signature: "C08/recovery/" + pc + "/block-proposed-again", What: fmt.Sprintf("history seed %d: killed at %s of block %d before the block was saved; after the restart the same block cannot be executed (%v %s)", hseed, point, blk.H, err, crashClass(crasher.Box.LogTail(4000))), Witness: map[string]interface{}{"seed": hseed, "height": blk.H, "point": point, "log": crasher.Box.LogTail(3000)}})
					return true
				}
				if idx, x, y := hist.FirstDiff(hist.ProjectResults(blk.Resp[0].Calls), hist.ProjectResults(resp.Calls)); idx >= 0 {
					r.Violate(verdict.Violation{Signature: "C08/continued/" + pc + "/" + strings.ToLower(strings.SplitN(x+" ", " ", 2)[0]), What: fmt.Sprintf("history seed %d: killed at %s of block %d; the block proposed again gave %q where the uninterrupted node gave %q", hseed, point, blk.H, y, x), Witness: map[string]interface{}{"seed": hseed, "height": blk.H, "point": point}})
					return true
				}
				return false
			}
			if boot.Height != blk.H {
				r.Case(fmt.Sprintf("%d/%d/%s", hseed, blk.H, point), true)
				r.Violate(verdict.Violation{Signature: "C08/replay-height/" + pc, What: fmt.Sprintf("history seed %d: killed at %s of block %d; after restart and handshake the node is at height %d", hseed, point, blk.H, boot.Height), Witness: map[string]interface{}{"seed": hseed, "height": blk.H, "point": point, "log": crasher.Box.LogTail(2000)}})
				return true
			}
			replayed := 0
			var rep []proto.Call
			for _, c := range boot.Calls {
				if c.M == "BeginBlock" || c.M == "DeliverTx" || c.M == "EndBlock" || c.M == "Commit" {
					rep = append(rep, c)
					replayed++
				}
			}
			r.Case(fmt.Sprintf("%d/%d/%s", hseed, blk.H, point), true)
			if replayed > 0 {
				r.Count("blocks_replayed_by_handshake", 1)
				if idx, x, y := hist.FirstDiff(hist.ProjectResults(blk.Resp[0].Calls), hist.ProjectResults(rep)); idx >= 0 {
					k, d := diffStates(fullDump(run.Reps[0].Box), fullDump(crasher.Box))
					r.Violate(verdict.Violation{Signature: "C08/replayed/" + pc + "/" + strings.ToLower(strings.SplitN(x+" ", " ", 2)[0]) + "/key:" + keyClass(k), What: fmt.Sprintf("history seed %d: killed at %s of block %d; the replay during the handshake gave %q where the uninterrupted node gave %q; first differing key %s", hseed, point, blk.H, y, x, d), Witness: map[string]interface{}{"seed": hseed, "height": blk.H, "point": point, "recipes": run.Recipes()}})
					return true
				}
			}
			if boot.AppHash != blk.Commit.AppHash {
				r.Violate(verdict.Violation{Signature: "C08/apphash-after-replay/" + pc, What: fmt.Sprintf("history seed %d: killed at %s of block %d; after replay the app hash is %s, uninterrupted %s", hseed, point, blk.H, boot.AppHash, blk.Commit.AppHash), Witness: map[string]interface{}{"seed": hseed, "height": blk.H, "point": point}})
				return true
			}
			return false
		}
		res := drive.Run(cfg)
		if res.R != nil {
			defer res.R.Close()
		}
		if res.Err != nil {
			if ae, ok := res.Err.(*hist.ApplyError); ok && ae.Block != nil && len(ae.Block.Resp) > 1 && ae.Block.Resp[1] != nil && ae.Block.Resp[1].ApplyErr == "" && ae.Block.Resp[1].Err == "" {
				// Tendermint refused the results of the node that never stopped and accepted those of the node that
				// was restarted earlier: the two did not produce the same validator updates
				r.Violate(verdict.Violation{Signature: "C08/continued/tendermint-refused-on-one-node-only/" + classifyApplyErr(ae.Msg), What: fmt.Sprintf("history seed %d block %d: the uninterrupted node's block results were refused by Tendermint (%s), those of the node restarted earlier were accepted", hseed, ae.Block.H, ae.Msg), Witness: map[string]interface{}{"seed": hseed, "height": ae.Block.H, "recipes": res.R.Recipes()}})
				return
			}
			if ae, ok := res.Err.(*hist.ApplyError); ok && ae.Block != nil && res.R != nil && len(res.R.Reps) > 1 && res.R.Reps[1].Box.Dead && point != "" {
				// the node that never stopped could not apply the block in which the other one was killed: if the
				// restarted one replays that very block without trouble, the two computed different results
				crasher := res.R.Reps[1]
				if err := crasher.Box.Restart(); err == nil && crasher.Box.Boot != nil && crasher.Box.Boot.Height == ae.Block.H {
					r.Violate(verdict.Violation{Signature: "C08/replayed/tendermint-refused-on-the-uninterrupted-node-only/" + classifyApplyErr(ae.Msg), What: fmt.Sprintf("history seed %d block %d: the uninterrupted node's block results were refused by Tendermint (%s); the node killed at %s and restarted replayed the same block and reached height %d", hseed, ae.Block.H, ae.Msg, point, crasher.Box.Boot.Height), Witness: map[string]interface{}{"seed": hseed, "height": ae.Block.H, "point": point, "recipes": res.R.Recipes()}})
					return
				}
			}
			reportRunErr(r, "C08", hseed, res)
			return
		}
		if i == 0 {
			r.Sample(map[string]interface{}{"seed": hseed, "blocks": res.Blocks, "crash_points_used": ptIdx, "example": "kill -9 at after:DeliverTx:0 of a block with transactions, restart, handshake replays the block, compare with the uninterrupted leader"})
		}
	})
	r.Count("crash_classes", len(classes))
	return r.Finish()
}
