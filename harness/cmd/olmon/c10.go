package main

import (
	"bytes"
	"fmt"
	"os"
	"strings"

	"olverif/internal/drive"
	"olverif/internal/gen"
	"olverif/internal/hist"
	"olverif/internal/mon"
	"olverif/internal/txb"
	"olverif/internal/verdict"
	"olverif/internal/world"

	"github.com/Oneledger/protocol/action/staking"
)

// stakeRelevantEqual: validator, freeze and staking-option records unchanged.
func stakeRelevantEqual(a, b hist.State) bool {
	chk := func(x, y hist.State) bool {
		for k, v := range x {
			if strings.HasPrefix(k, "v_") || strings.HasPrefix(k, "es__ssvk_") || strings.HasSuffix(k, "_stakingopt") || k == "g_stakingOptions_defaultOptions" || strings.HasPrefix(k, "purged_unstake") {
				if !bytes.Equal(v, y[k]) {
					return false
				}
			}
		}
		return true
	}
	return chk(a, b) && chk(b, a)
}

var stakeKinds = map[string]bool{"STAKE": true, "UNSTAKE": true, "ALLEGATION": true, "ALLEGATION_VOTE": true, "RELEASE": true}

func checkC10(tier string) int {
	r := verdict.New("C10", tier, "exploration")
	r.Rule = "seeded histories around the election boundary (5-8 candidates with stakes clustered at the minimum and the top count, stake/unstake/withdraw across the boundary, allegations with guilty verdicts and releases, starved signers, duplicate-vote evidence), bursts followed by quiet tails; Tendermint's own acceptance of the updates is the first oracle (ApplyBlock), a statement-level check of every update against the previous block's decoded records the second, and after five quiet blocks Tendermint's validator set is compared with the election computed from the dump; a case is one block; non-trivial = the block carried validator updates that changed the set, or a convergence comparison; distinct by (seed, height, updates)"
	r.Assumptions = []string{"Tendermint's UpdateWithChangeSet / validateValidatorUpdates as acceptance oracle", "either reading (previous or current block) of an option changed in the block is accepted"}
	nh := tierN(tier, 8, 60)
	blocks := tierN(tier, 56, 160)
	seed := verdict.Seed()
	r.Gate("blocks", nh*blocks/2)
	r.Gate("convergence_checks", nh)
	r.Gate("set_changing_blocks", nh)
	r.Gate("blocks_with_more_eligible_than_seats", nh)
	parallel(nh, 8, func(i int) {
		if only := os.Getenv("VERIF_ONLY"); only != "" && only != fmt.Sprint(i) { // triage aid
			return
		}
		hseed := seed*1000 + int64(i)
		top := int64(4 + i%3)
		params := world.Params{Frankenstein: 0, NumGenesisVals: 4, NumCandidates: 4, NumEthUsers: 0, TopValidators: top, ChainID: fmt.Sprintf("OneLedger-c10-%d", hseed)}
		if i%4 == 3 {
			params.Frankenstein = 1 // forced options (top 64 / min 500000) at block 1
		}
		if os.Getenv("VERIF_BVD") != "" || i%8 == 4 { // VERIF_BVD: triage aid (every history)
			// the vote window of production chains (the only range the option validation admits): for the first
			// thousand blocks nobody can be flagged for missed votes, but verdicts on allegations still freeze
			params.BlockVotesDiff, params.MinVotesRequired = 1000, 700
			r.Count("histories_with_a_vote_window_longer_than_the_run", 1)
		}
		cfg := drive.Cfg{Tag: "c10", Seed: hseed, Blocks: blocks, Params: params, Scripts: []string{"stakingb", "evidence", "transfers", "governance"}, Scout: true, Jumps: true, Absents: true, Evid: true, Honest: true}
		if i%4 == 1 {
			// the fork block forces new staking options (minimum 500 000, top count 64) at height 20, long
			// after the node started; a candidate staked 1 000 000 before (not enough then, enough from 20 on)
			params.Frankenstein = 20
			cfg.Params = params
			w1, _ := world.New(params)
			var small *world.Validator
			for _, v := range w1.Vals {
				if !v.InGenesis {
					small = v
				}
			}
			cfg.ExtraPlan = func(c *gen.Ctx) []hist.TxSpec {
				if c.H == 3 && small != nil {
					sp := gen.Build(c, "STAKE", gen.StakeMsg(small, "1000000"), "a candidate stakes less than the current minimum, more than the one the fork block brings", &small.Stake, gen.ConsAccount(small))
					return []hist.TxSpec{sp}
				}
				return nil
			}
			r.Count("histories_with_options_forced_by_the_fork_block_mid_run", 1)
		}
		darkHex := ""
		if i%4 == 2 {
			// a validator goes dark (its node is off: it signs no commit any more) and then takes all its
			// stake out: it has to leave Tendermint's set all the same
			w0, _ := world.New(params)
			dark := w0.Vals[1]
			darkHex = hist.HexAddr(dark.ValAddr.String())
			cfg.ForceAbsent = func(h int64) []string {
				if h >= 12 {
					return []string{hist.HexAddr(dark.ValAddr.String())}
				}
				return nil
			}
			cfg.ExtraPlan = func(c *gen.Ctx) []hist.TxSpec {
				if c.H == 18 {
					if cur := gen.StakeOf(c.S, dark.ValAddr).Int64(); cur > 0 {
						sp := gen.Build(c, "UNSTAKE", &staking.Unstake{ValidatorAddress: dark.ValAddr, StakeAddress: dark.Stake.Addr, Stake: txb.Amt("OLT", fmt.Sprint(cur))}, "a validator whose node is off unstakes everything", &dark.Stake, gen.ConsAccount(dark))
						return []hist.TxSpec{sp}
					}
				}
				return nil
			}
			r.Count("histories_with_a_validator_gone_dark", 1)
		}
		if cfg.ExtraPlan == nil {
			// a candidate is elected in one block and falls below the minimum again in the next, before it has
			// appeared in any last-commit list
			wq, _ := world.New(params)
			var flick *world.Validator
			for _, v := range wq.Vals {
				if !v.InGenesis {
					flick = v
				}
			}
			cfg.ExtraPlan = func(c *gen.Ctx) []hist.TxSpec {
				if flick == nil {
					return nil
				}
				min := mon.StakingOptions(c.S).Min()
				cur := gen.StakeOf(c.S, flick.ValAddr).Int64()
				switch c.H {
				case 22, 38:
					if cur < min {
						// (above the weakest elected validator when all seats are taken)
						target := min
						if el, _ := mon.Election(c.S); int64(len(el)) >= mon.StakingOptions(c.S).TopValidatorCount {
							for _, p := range el {
								if target == min || p < target {
									target = p
								}
							}
						}
						if target < min {
							target = min
						}
						return []hist.TxSpec{gen.Build(c, "STAKE", gen.StakeMsg(flick, fmt.Sprint(target-cur+40)), "a candidate stakes in just above the line (and drops below the minimum in the next block)", &flick.Stake, gen.ConsAccount(flick))}
					}
				case 25, 26, 27, 41, 42, 43:
					// ... and stakes in again as soon as the waiting time after its removal allows (the first of
					// these attempts that is not refused comes exactly at the end of that waiting time)
					if cur < min {
						return []hist.TxSpec{gen.Build(c, "STAKE", gen.StakeMsg(flick, fmt.Sprint(min-cur+60)), "the removed candidate stakes in again at the first height the waiting time allows (directed)", &flick.Stake, gen.ConsAccount(flick))}
					}
				case 34:
					// an active genesis validator takes out exactly its whole stake
					for _, v := range wq.Vals {
						if v.InGenesis && v != wq.Vals[0] {
							if cur := gen.StakeOf(c.S, v.ValAddr).Int64(); cur > 0 {
								return []hist.TxSpec{gen.Build(c, "UNSTAKE", &staking.Unstake{ValidatorAddress: v.ValAddr, StakeAddress: v.Stake.Addr, Stake: txb.Amt("OLT", fmt.Sprint(cur))}, "an active validator unstakes exactly its whole stake", &v.Stake, gen.ConsAccount(v))}
							}
						}
					}
				case 23, 39:
					if cur >= min {
						return []hist.TxSpec{gen.Build(c, "UNSTAKE", &staking.Unstake{ValidatorAddress: flick.ValAddr, StakeAddress: flick.Stake.Addr, Stake: txb.Amt("OLT", fmt.Sprint(cur-min+1))}, "the candidate elected in the previous block unstakes to just below the minimum", &flick.Stake, gen.ConsAccount(flick))}
					}
				}
				return nil
			}
		}
		quiet := 0
		var lastSet string
		cfg.FilterPlan = func(c *gen.Ctx, specs []hist.TxSpec) []hist.TxSpec {
			// (the mempool check judges by the previous block's height: the stake that comes at the very end of the
			// waiting time reaches a block only through a proposer that does not ask it)
			for k := range specs {
				if strings.Contains(specs[k].Note, "(directed)") {
					specs[k].Force = true
				}
			}
			// quiet tail: blocks 9..15 of every 16 carry no stake-changing traffic
			if c.H%16 >= 9 || (c.H >= 35 && c.H <= 40) {
				var keep []hist.TxSpec
				for _, s := range specs {
					if !stakeKinds[s.Kind] || strings.Contains(s.Note, "(directed)") {
						keep = append(keep, s)
					}
				}
				return keep
			}
			return specs
		}
		// (the blocks after the directed whole-stake unstake of block 34 are quiet in every respect)
		cfg.QuietAt = func(h int64) bool { return h >= 35 && h <= 41 }
		cfg.OnBlock = func(run *hist.Runner, blk *hist.Block) bool {
			r.Count("blocks", 1)
			if el, top := mon.Contention(blk.Prev); int64(el) > top {
				r.Count("blocks_with_more_eligible_than_seats", 1)
			}
			if len(blk.Recipe.Evidence) > 0 {
				r.Count("blocks_with_duplicate_vote_evidence_requested", 1)
			}
			var us []string
			changing := false
			for _, u := range blk.End.ValUpdates {
				us = append(us, fmt.Sprintf("%s=%d", u.PubKey[:8], u.Power))
			}
			set := strings.Join(us, ",")
			if os.Getenv("DEBUG_C10") != "" {
				fmt.Printf("DEBUG h=%d updates=[%s] absent=%v\n", blk.H, set, blk.Recipe.Absent)
				for _, t := range blk.Txs {
					if stakeKinds[t.Kind] {
						fmt.Printf("DEBUG   %s code=%d %q %s\n", t.Kind, t.Call.Code, t.Note, cut(t.Call.Log, 100))
					}
				}
			}
			if set != lastSet {
				changing = true
				r.Count("set_changing_blocks", 1)
			}
			lastSet = set
			r.Case(fmt.Sprintf("%d/%d/%s", hseed, blk.H, set), changing)
			for _, t := range blk.Txs {
				if t.Call.Code == 0 {
					r.Count("ok:"+t.Kind, 1)
				}
			}
			for _, f := range mon.C10(blk) {
				r.Violate(verdict.Violation{Signature: f.Sig, What: fmt.Sprintf("history seed %d: %s", hseed, f.What), Witness: map[string]interface{}{"seed": hseed, "height": blk.H, "updates": us, "txs": sampleTxs(blk), "recipes": run.Recipes()}})
				return true
			}
			onlyDark := darkHex != ""
			for _, a := range blk.Recipe.Absent {
				if !strings.EqualFold(a, darkHex) {
					onlyDark = false
				}
			}
			if stakeRelevantEqual(blk.Prev, blk.Cur) && (len(blk.Recipe.Absent) == 0 || onlyDark) {
				quiet++
			} else {
				quiet = 0
			}
			if quiet == 5 {
				vs, err := run.ValSet()
				if err != nil {
					r.Inconclusive(fmt.Sprintf("history seed %d: valset query failed: %v", hseed, err))
					return true
				}
				r.Count("convergence_checks", 1)
				r.Case(fmt.Sprintf("%d/%d/converged", hseed, blk.H), true)
				for _, f := range mon.C10Converged(blk.Cur, vs.Vals, blk.H) {
					if f.Prop == "COUNT" {
						r.Count(f.Sig, 1)
						continue
					}
					r.Violate(verdict.Violation{Signature: f.Sig, What: fmt.Sprintf("history seed %d: %s", hseed, f.What), Witness: map[string]interface{}{"seed": hseed, "height": blk.H, "tendermint_set": vs.Vals, "recipes": run.Recipes()}})
					return true
				}
			}
			return false
		}
		res := drive.Run(cfg)
		if res.R != nil {
			defer res.R.Close()
		}
		if res.Err != nil {
			reportRunErr(r, "C10", hseed, res)
			return
		}
		if i == 0 && len(res.R.Blocks) > 0 {
			b := res.R.Blocks[len(res.R.Blocks)-1]
			el, _ := mon.Election(b.Cur)
			r.Sample(map[string]interface{}{"seed": hseed, "height": b.H, "updates": b.End.ValUpdates, "election_from_dump": el})
		}
	})
	return r.Finish()
}
