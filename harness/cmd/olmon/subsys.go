package main

import (
	"fmt"
	"github.com/Oneledger/protocol/action/staking"
	"github.com/Oneledger/protocol/data/rewards"
	"math/big"
	"math/rand"
	"os"
	"strings"

	"github.com/Oneledger/protocol/consensus"
	"github.com/Oneledger/protocol/data/balance"
	"github.com/Oneledger/protocol/data/chain"
	"github.com/Oneledger/protocol/data/keys"
	"github.com/Oneledger/protocol/data/network_delegation"

	"olverif/internal/drive"
	"olverif/internal/gen"
	"olverif/internal/hist"
	"olverif/internal/mon"
	"olverif/internal/proto"
	"olverif/internal/txb"
	"olverif/internal/verdict"
	"olverif/internal/world"
)

// subsysCfg describes a history-based check of one subsystem property.
type subsysCfg struct {
	id       string
	rule     string
	assume   []string
	scripts  []string
	nhQ, nhT int
	blQ, blT int
	params   func(i int, hseed int64) world.Params
	newMon   func(w *world.World) func(run *hist.Runner, blk *hist.Block) []mon.Finding
	gates    map[string]int // counter -> need per history
	nontriv  func(blk *hist.Block) bool
	restarts bool // add a replica that is restarted mid-history and compare reward events
	jumps    bool
	absents  bool
	tune     func(cfg *drive.Cfg, i int)
}

func runSubsys(sc subsysCfg, tier string) int {
	r := verdict.New(sc.id, tier, "exploration")
	r.Rule = sc.rule
	r.Assumptions = sc.assume
	nh := tierN(tier, sc.nhQ, sc.nhT)
	blocks := tierN(tier, sc.blQ, sc.blT)
	seed := verdict.Seed()
	r.Gate("blocks", nh*blocks*2/3)
	for g, n := range sc.gates {
		r.Gate(g, n*nh)
	}
	only := os.Getenv("VERIF_ONLY") // triage aid: run a single history index
	parallel(nh, 8, func(i int) {
		if only != "" && only != fmt.Sprint(i) {
			return
		}
		hseed := seed*1000 + int64(i)
		params := sc.params(i, hseed)
		params.ChainID = fmt.Sprintf("OneLedger-%s-%d", sc.id, hseed)
		w0, _ := world.New(params)
		monitor := sc.newMon(w0)
		cfg := drive.Cfg{Tag: sc.id, Seed: hseed, Blocks: blocks, Params: params, Scripts: sc.scripts, Scout: true, Jumps: sc.jumps, Absents: sc.absents, Honest: true}
		if i%2 == 1 {
			// every second history has a byzantine proposer that also includes most of what its mempool
			// check refused: rules enforced on the check path only would show on the delivered path
			cfg.Byzantine = 60
			r.Count("histories_with_byzantine_proposer", 1)
		}
		if i%4 >= 2 {
			// as on a real node, the mempool check runs on every submitted transaction before the block arrives
			cfg.Gossip = true
			r.Count("histories_with_mempool_checks_on_the_replica", 1)
		}
		if os.Getenv("VERIF_NO_GOSSIP") != "" { // triage aids
			cfg.Gossip = false
		}
		if os.Getenv("VERIF_NO_BYZ") != "" {
			cfg.Byzantine = 0
		}
		rrng := rand.New(rand.NewSource(hseed * 5))
		if sc.restarts {
			cfg.Specs = []world.NodeSpec{{Name: "lead", Validator: w0.Vals[0], LogLevel: 1}, {Name: "restarter", Validator: w0.Vals[0], LogLevel: 1}}
		}
		if sc.tune != nil {
			sc.tune(&cfg, i)
		}
		cfg.PerReplica = func(run *hist.Runner, h int64, idx int, base proto.Recipe, sofar *hist.Block) *proto.Recipe {
			return nil
		}
		cfg.OnBlock = func(run *hist.Runner, blk *hist.Block) bool {
			if dbg := os.Getenv("VERIF_DEBUG_H"); dbg != "" {
				var lo, hi int64
				fmt.Sscanf(dbg, "%d-%d", &lo, &hi)
				if blk.H >= lo && blk.H <= hi {
					fmt.Printf("DEBUG block %d time=%d begin=%v\n", blk.H, run.TimeMs, blk.Begin.Events)
					if pf := os.Getenv("VERIF_DEBUG_KEYS"); pf != "" {
						for k, v := range blk.Cur {
							if strings.HasPrefix(k, pf) {
								fmt.Printf("DEBUG   key %q = %s\n", k, cut(string(v), 700))
							}
						}
					}
					for _, t := range blk.Txs {
						fmt.Printf("DEBUG   tx %s code=%d note=%q log=%s payload=%s\n", t.Kind, t.Call.Code, t.Note, cut(t.Call.Log, 100), cut(fmt.Sprint(mon.Payload(t.Bytes)), 300))
					}
					for _, t := range blk.Rejected {
						fmt.Printf("DEBUG   rejected %s note=%q %s\n", t.Kind, t.Note, cut(t.Meta["check_log"], 120))
					}
				}
			}
			r.Count("blocks", 1)
			nt := len(blk.Txs) > 0
			if sc.nontriv != nil {
				nt = sc.nontriv(blk)
			}
			r.Case(fmt.Sprintf("%d/%d/%s", hseed, blk.H, blk.Commit.AppHash), nt)
			for _, t := range blk.Txs {
				if t.Meta["byzantine"] != "" {
					r.Count("refused_by_check_but_delivered", 1)
				}
				if t.Call.Code == 0 {
					r.Count("ok:"+t.Kind, 1)
				} else {
					r.Count("failed:"+t.Kind, 1)
				}
			}
			for _, f := range monitor(run, blk) {
				if f.Prop == "COUNT" {
					r.Count(f.Sig, 1)
					continue
				}
				if f.Prop != sc.id {
					r.Diag(f.Sig + ": " + f.What)
					continue
				}
				r.Violate(verdict.Violation{Signature: f.Sig, What: fmt.Sprintf("history seed %d: %s", hseed, f.What), Witness: map[string]interface{}{"seed": hseed, "height": blk.H, "txs": sampleTxs(blk), "recipes": run.Recipes()}})
				return true
			}
			if !sc.restarts && i%4 == 1 && blk.H > 3 && blk.H%7 == 3 && os.Getenv("VERIF_NO_RESTART") == "" {
				// the node is stopped and started again between two blocks now and then: whatever the
				// statement says about the chain's records holds whether or not the process was restarted
				if err := run.Reps[0].Box.Restart(); err != nil {
					r.Inconclusive(fmt.Sprintf("history seed %d: restart failed: %v", hseed, err))
					return true
				}
				r.Count("node_restarts_between_blocks", 1)
			}
			if sc.restarts {
				if blk.Resp[1] == nil {
					r.Diag(fmt.Sprintf("history seed %d: restarted replica died at block %d", hseed, blk.H))
					return true
				}
				var oe string
				for _, c := range blk.Resp[1].Calls {
					if c.M == "BeginBlock" {
						b2 := &hist.Block{Begin: c}
						oe = mon.RewardEvent(b2)
					}
				}
				if le := mon.RewardEvent(blk); le != oe {
					r.Violate(verdict.Violation{Signature: sc.id + "/restart/reward-event-differs", What: fmt.Sprintf("history seed %d block %d: the per-block rewards of a node restarted within the calculation cycle differ from the uninterrupted node's: %s | %s", hseed, blk.H, cut(le, 300), cut(oe, 300)), Witness: map[string]interface{}{"seed": hseed, "height": blk.H, "recipes": run.Recipes()}})
					return true
				}
				if blk.Resp[1].AppAppHash != blk.Resp[0].AppAppHash {
					r.Violate(verdict.Violation{Signature: sc.id + "/restart/app-hash-differs", What: fmt.Sprintf("history seed %d block %d: app hash of the restarted node differs", hseed, blk.H), Witness: map[string]interface{}{"seed": hseed, "height": blk.H, "recipes": run.Recipes()}})
					return true
				}
				if blk.H > 2 && rrng.Intn(5) == 0 {
					if err := run.Reps[1].Box.Restart(); err != nil {
						r.Inconclusive(fmt.Sprintf("history seed %d: restart failed: %v", hseed, err))
						return true
					}
					r.Count("restarts", 1)
				}
			}
			return false
		}
		res := drive.Run(cfg)
		if res.R != nil {
			defer res.R.Close()
		}
		if res.Err != nil {
			reportRunErr(r, sc.id, hseed, res)
			return
		}
		if i == 0 && len(res.R.Blocks) > 0 {
			b := res.R.Blocks[len(res.R.Blocks)-1]
			r.Sample(map[string]interface{}{"seed": hseed, "height": b.H, "txs": sampleTxs(b), "begin_events": b.Begin.Events})
		}
	})
	return r.Finish()
}

func wrapStateful(f func(blk *hist.Block) []mon.Finding) func(run *hist.Runner, blk *hist.Block) []mon.Finding {
	return func(run *hist.Runner, blk *hist.Block) []mon.Finding { return f(blk) }
}

func checkC11(tier string) int {
	return runSubsys(subsysCfg{
		id:      "C11",
		rule:    "seeded histories of stake/unstake/withdraw by validators and candidates with short maturities, allegation verdicts (penalties, freezes) and releases in between; a per-delegator accumulator driven by the successful transactions (amounts, heights, maturity option in force read from the dump, loosest reading) bounds withdrawals, and the decoded stake records are checked every block; a case is one block; non-trivial = the block contains a successful staking transaction or a stake record changed; distinct by (seed, height, app hash)",
		assume:  []string{"a withdrawal is allowed from block unstake height + maturity on (the loosest reading of 'after the maturity period has elapsed')"},
		scripts: []string{"stakingb", "evidence", "transfers"},
		nhQ:     8, nhT: 50, blQ: 48, blT: 150,
		params: func(i int, hseed int64) world.Params {
			return world.Params{Frankenstein: int64(i % 2), NumGenesisVals: 4, NumCandidates: 4, TopValidators: 6, StakeMaturity: int64(2 + i%4)}
		},
		newMon: func(w *world.World) func(run *hist.Runner, blk *hist.Block) []mon.Finding {
			m := mon.NewC11()
			return wrapStateful(m.OnBlock)
		},
		tune: func(cfg *drive.Cfg, i int) {
			if i%8 == 6 {
				// a quiet chain of four validators (transfers only): every validator unstakes to just below the minimum
				// in block 10, so from the next block on nobody is elected (the last active set stays); the unstaked
				// amounts, and a second small unstake of block 12, mature during that stretch; in block 22 they all
				// stake in again
				w1, _ := world.New(cfg.Params)
				cfg.Scripts = []string{"transfers"}
				cfg.ExtraPlan = func(c *gen.Ctx) []hist.TxSpec {
					var out []hist.TxSpec
					min := mon.StakingOptions(c.S).Min()
					for k, v := range w1.Vals {
						if !v.InGenesis {
							continue
						}
						cur := gen.StakeOf(c.S, v.ValAddr).Int64()
						switch {
						case c.H == 10 && cur >= min && min > 1:
							out = append(out, gen.Build(c, "UNSTAKE", &staking.Unstake{ValidatorAddress: v.ValAddr, StakeAddress: v.Stake.Addr, Stake: txb.Amt("OLT", fmt.Sprint(cur-min+1))}, "every validator unstakes to just below the minimum in the same block", &v.Stake, gen.ConsAccount(v)))
						case c.H == 13 && k == 0 && cur > 20:
							out = append(out, gen.Build(c, "UNSTAKE", &staking.Unstake{ValidatorAddress: v.ValAddr, StakeAddress: v.Stake.Addr, Stake: txb.Amt("OLT", "10")}, "a second, small unstake while nobody is elected", &v.Stake, gen.ConsAccount(v)))
						case c.H == 22 && cur < min:
							out = append(out, gen.Build(c, "STAKE", gen.StakeMsg(v, fmt.Sprint(min-cur+100+int64(k))), "the validators stake in again", &v.Stake, gen.ConsAccount(v)))
						case (c.H == 19 || c.H == 30) && k < 2:
							out = append(out, gen.Build(c, "WITHDRAW", &staking.Withdraw{ValidatorAddress: v.ValAddr, StakeAddress: v.Stake.Addr, Stake: txb.Amt("OLT", "5")}, "withdraw a little of what has matured", &v.Stake, gen.ConsAccount(v)))
						}
					}
					return out
				}
			}
		},
		gates:   map[string]int{"ok:STAKE": 2, "ok:UNSTAKE": 1, "ok:WITHDRAW": 1},
		absents: true,
	}, tier)
}

func checkC12(tier string) int {
	return runSubsys(subsysCfg{
		id:      "C12",
		rule:    "seeded histories of delegate/undelegate/withdraw-rewards/reinvest by several delegators with several operations per block and per delegator, run past the maturity heights; every block the pool balance is compared with the sum of active delegations, the active set with the block's successful transactions (exact accounting), and the payments BeginBlock reports are matched one-to-one against obligations (address, amount, request height + maturity) built from the successful transactions; a case is one block; non-trivial = a delegation transaction succeeded or a payment matured in the block; distinct by (seed, height, app hash)",
		assume:  []string{"BeginBlock's deleg_undelegate / deleg_rewards_mature_* event attributes report the payments (a payment that leaves no event is caught by the C02/C03 ledger rules)"},
		scripts: []string{"delegation", "transfers", "valrewards"},
		nhQ:     8, nhT: 40, blQ: 48, blT: 260,
		params: func(i int, hseed int64) world.Params {
			p := world.Params{Frankenstein: 1, NumGenesisVals: 4}
			if i%2 == 1 {
				// a genesis as the state-export path produces it: pending
				// undelegations at heights whose decimal strings are prefixes of one another
				p.Mutate = seedPending
			}
			return p
		},
		newMon: func(w *world.World) func(run *hist.Runner, blk *hist.Block) []mon.Finding {
			m := mon.NewC12()
			return wrapStateful(m.OnBlock)
		},
		tune: func(cfg *drive.Cfg, i int) {
			if i%4 == 2 {
				cfg.Scripts = []string{"delegation-drain", "transfers", "valrewards"}
			}
		},
		gates: map[string]int{"ok:ADD_NETWORK_DELEGATE": 2, "ok:NETWORK_UNDELEGATE": 2, "ok:REWARDS_WITHDRAW_NETWORK_DELEGATE": 1},
		jumps: true,
	}, tier)
}

func checkC13(tier string) int {
	return runSubsys(subsysCfg{
		id:      "C13",
		rule:    "seeded histories with validator sets of skewed power, absent signers, delegation pools of zero/small/dominant size, block-time sequences crossing calculation-cycle and reward-year boundaries (40-day jumps; short years via the close window) until the schedule burns out, and a twin node restarted at random points inside calculation cycles; every block the rewards credited (increments of validator reward chunks and delegator reward balances from the dump) are compared with the amount accounted as consumed, that amount with what was left of the reward year when the cycle began (or the burnout rate capped by the pool), cumulative validator withdrawals with the matured chunks, and the restarted twin's reward event and app hash with the leader's; a case is one block; non-trivial = rewards were credited in the block; distinct by (seed, height, app hash)",
		assume:  []string{"reward-interval changes by governance are not reachable with the scaled-down genesis (the matured-chunk clause is skipped if interval records exist)"},
		scripts: []string{"delegation", "valrewards", "transfers", "stakingb"},
		nhQ:     8, nhT: 50, blQ: 170, blT: 220,
		params: func(i int, hseed int64) world.Params {
			p := world.Params{Frankenstein: 1, NumGenesisVals: 1 + i%5, GenesisPowers: []int64{3000000, 41000000, 3500000, 7000000, 3000001}, RewardInterval: int64(2 + i%3), BlocksPerCycle: int64(4 + i%4)}
			if i%3 == 2 {
				p.YearShares = []string{"7000000000000000000000", "300000000000000000000"}
				p.RewardPoolOLT = "7100000000000000000000"
			}
			if i%8 == 5 {
				// the schedule is over from the first block (the only year is inside its close window) and the
				// rewards pool holds less than one block of the burnout rate
				p.YearShares = []string{"1000000000000000000000"}
				p.YearCloseWindow = 3600 * 24 * 400
				p.RewardPoolOLT = "3000000000000000000"
			}
			if i%8 == 7 {
				// a chain started from the dumped state of an earlier one: every validator has three reward chunks on
				// record, the first of them matured there already (a chunk matures two intervals after its own; the
				// third is the one rewards were going to when the state was dumped; the interval record says where the
				// numbering goes on)
				p.Mutate = func(st *consensus.AppState) {
					chunk := balance.NewAmountFromBigInt(world.BigFromString("5000000000000000000000"))
					all := balance.NewAmountFromBigInt(world.BigFromString("5000000000000000000000"))
					total := new(big.Int)
					for _, sk := range st.Staking {
						for idx := int64(1); idx <= 3; idx++ {
							st.Rewards.RewardState.Rewards = append(st.Rewards.RewardState.Rewards, rewards.IntervalReward{Address: sk.ValidatorAddress, Index: idx, Amount: chunk})
						}
						st.Rewards.RewardState.AddrList = append(st.Rewards.RewardState.AddrList, sk.ValidatorAddress)
						// (of the 5000 that had matured there, 2000 had been withdrawn)
						st.Rewards.CumuState.MaturedBalances = append(st.Rewards.CumuState.MaturedBalances, rewards.RewardAmount{Address: sk.ValidatorAddress, Amount: balance.NewAmountFromBigInt(world.BigFromString("3000000000000000000000"))})
						st.Rewards.CumuState.WithdrawnAmounts = append(st.Rewards.CumuState.WithdrawnAmounts, rewards.RewardAmount{Address: sk.ValidatorAddress, Amount: balance.NewAmountFromBigInt(world.BigFromString("2000000000000000000000"))})
						total.Add(total, all.BigInt())
					}
					st.Rewards.RewardState.Intervals = append(st.Rewards.RewardState.Intervals, rewards.Interval{LastIndex: 3, LastHeight: 2})
					st.Rewards.CumuState.TotalDistributed = balance.NewAmountFromBigInt(total)
				}
			}
			return p
		},
		newMon: func(w *world.World) func(run *hist.Runner, blk *hist.Block) []mon.Finding {
			m := mon.NewC13FromGenesis(w.Doc.AppState)
			return wrapStateful(m.OnBlock)
		},
		gates:   map[string]int{"ok:WITHDRAW_REWARD": 1},
		nontriv: func(blk *hist.Block) bool { return mon.RewardEvent(blk) != "" },
		tune: func(cfg *drive.Cfg, i int) {
			// the boxes record, before every BeginBlock, what a freshly started node would pull
			cfg.Envs = [][]string{{"OLBOX_TWINPULL=1"}, {"OLBOX_TWINPULL=1"}}
		},
		restarts: true,
		jumps:    true,
		absents:  true,
	}, tier)
}

// seedPending adds pending undelegations (and their owners' active
// delegations) to a genesis state, at heights 1/2/3 and 10..39.
func seedPending(st *consensus.AppState) {
	olt := balance.Currency{Id: 0, Name: "OLT", Chain: chain.ONELEDGER, Decimal: 18, Unit: "nue"}
	var users []keys.Address
	for _, b := range st.Balances {
		if b.Currency == "VT" && len(users) < 4 {
			users = append(users, b.Address)
		}
	}
	for i, h := range []int64{2, 3, 12, 15, 21, 23, 30, 31, 35} {
		a := users[i%len(users)]
		addr := a
		c := olt.NewCoinFromInt(int64(100 + i))
		st.NetDelegators.PendingList = append(st.NetDelegators.PendingList, network_delegation.PendingDelegator{Address: &addr, Amount: &c, Height: h})
	}
}

func checkC14(tier string) int {
	return runSubsys(subsysCfg{
		id:      "C14",
		rule:    "seeded histories driving proposals through every lifecycle branch (pass, fail by votes, cancel, miss the goal, expire in voting, configuration update) with funders, validators, late-staked validators and outsiders who send expire/finalize transactions at arbitrary heights relative to the deadlines, interleaved with staking changes; a per-proposal lifecycle automaton (store prefix + status + outcome across dumps), the outcome recomputed from the recorded votes with exact rationals, exact escrow accounting from the successful transactions, and governance option records compared block to block; a case is one block; non-trivial = a proposal changed phase or funds moved; distinct by (seed, height, app hash)",
		assume:  []string{"the recorded vote records (validator, opinion, power) are what the outcome is recomputed from"},
		scripts: []string{"governance-strangers", "transfers", "staking"},
		nhQ:     8, nhT: 50, blQ: 48, blT: 150,
		params: func(i int, hseed int64) world.Params {
			// (every fourth history: deadlines of 10000 blocks and more, as the option validation demands, so that
			// configuration proposals can change the proposal options themselves; nothing expires there)
			return world.Params{Frankenstein: 1, NumGenesisVals: 4, NumCandidates: 2, VotingDeadline: int64(6 + i%5), FundingDeadline: 12, ProdGov: i%4 == 3}
		},
		newMon: func(w *world.World) func(run *hist.Runner, blk *hist.Block) []mon.Finding {
			m := mon.NewC14(w.P.Frankenstein)
			return wrapStateful(m.OnBlock)
		},
		tune: func(cfg *drive.Cfg, i int) {
			// two candidates stake far less than the minimum: validator records that are never active (whatever is
			// shared out among "the validators" at a finalisation, the shares add up to the validators' part)
			w1, _ := world.New(cfg.Params)
			cfg.ExtraPlan = func(c *gen.Ctx) []hist.TxSpec {
				var out []hist.TxSpec
				if c.H == 2 {
					for _, v := range w1.Vals {
						if !v.InGenesis {
							out = append(out, gen.Build(c, "STAKE", gen.StakeMsg(v, "100"), "a candidate stakes far less than the minimum (a validator record that is never active)", &v.Stake, gen.ConsAccount(v)))
						}
					}
				}
				if c.H == 9 || c.H == 12 {
					// ... and a candidate that was elected falls below the minimum again: its record stays, inactive
					min := mon.StakingOptions(c.S).Min()
					for _, v := range w1.Vals {
						if cur := gen.StakeOf(c.S, v.ValAddr).Int64(); !v.InGenesis && cur >= min {
							out = append(out, gen.Build(c, "UNSTAKE", &staking.Unstake{ValidatorAddress: v.ValAddr, StakeAddress: v.Stake.Addr, Stake: txb.Amt("OLT", fmt.Sprint(cur-min+1))}, "an elected candidate unstakes to just below the minimum (its record stays, inactive)", &v.Stake, gen.ConsAccount(v)))
							break
						}
					}
				}
				return out
			}
		},
		gates: map[string]int{"ok:PROPOSAL_CREATE": 6, "ok:PROPOSAL_FUND": 5, "ok:PROPOSAL_VOTE": 4, "ok:PROPOSAL_CANCEL": 1, "ok:PROPOSAL_WITHDRAW_FUNDS": 2},
	}, tier)
}

func checkC15(tier string) int {
	return runSubsys(subsysCfg{
		id:      "C15",
		rule:    "seeded histories in which the harness plays users (ETH and ERC-20 locks and redeems with locally signed Ethereum transactions) and the 3-4 witnesses (finality reports in seed-dependent orders, success/failure/mixed plans), plus non-witness reporters, repeated votes, votes under another witness's index, a first reporter and a threshold-crossing reporter that lie about the beneficiary, duplicate submissions while ongoing / after success / after failure; every block the vote slots are replayed from the successful reports (own slot, first vote), releases and failures checked against the more-than-two-thirds threshold, every wrapped-balance change matched against confirmed locks / refunds / redeems of that owner, the three tracker stores checked for double records and the supply counter against circulation; a case is one block; non-trivial = a tracker record or wrapped balance changed; distinct by (seed, height, app hash)",
		assume:  []string{"a failed lock may be resubmitted (its failed tracker is replaced), as the lock handler documents"},
		scripts: []string{"eth-hostile", "transfers"},
		nhQ:     8, nhT: 60, blQ: 40, blT: 90,
		params: func(i int, hseed int64) world.Params {
			return world.Params{Frankenstein: 1, NumGenesisVals: 4, NumCandidates: 1, NumWitnesses: 3 + i%2}
		},
		newMon: func(w *world.World) func(run *hist.Runner, blk *hist.Block) []mon.Finding {
			return wrapStateful(mon.NewC15().OnBlock)
		},
		gates: map[string]int{"ok:ETH_LOCK": 2, "ok:ETH_REDEEM": 1, "ok:ERC20_LOCK": 1, "ok:ETH_REPORT_FINALITY_MINT": 8},
	}, tier)
}

func checkC17(tier string) int {
	return runSubsys(subsysCfg{
		id:      "C17",
		rule:    "seeded histories mixing native traffic with OLVM plain transfers, contract creations and calls that succeed, revert, run out of gas or fail the consensus pre-checks (nonce behind, gas below intrinsic); half of the histories carry at most one OLVM transaction per block so that ledger deltas are attributable. Every block: sender debit against gasUsed x price (+ value), nonce +1, recipient credit of plain transfers, fee records against the gas used of all executed transactions, no change on pre-check failure; after every block the balance and nonce of every EVM-visible account are read through the EVM state adapter (a private copy's state objects) and compared with the native records of the dump; a case is one block; non-trivial = the block contains an OLVM transaction; distinct by (seed, height, app hash)",
		assume:  []string{"ResponseDeliverTx.GasUsed is the gas the fee step charges"},
		scripts: []string{"olvm", "transfers", "delegation"},
		nhQ:     8, nhT: 50, blQ: 48, blT: 130,
		params: func(i int, hseed int64) world.Params {
			return world.Params{Frankenstein: 1, NumGenesisVals: 4, NumEthUsers: 4}
		},
		tune: func(cfg *drive.Cfg, i int) {
			cfg.Honest = false // pre-check failures reach a block only through a byzantine proposer
			if i%2 == 0 {
				cfg.Scripts = []string{"olvm-one", "transfers"}
			}
			if i%4 == 3 {
				// blocks made only of plain EVM transfers and native transfers touching the same accounts:
				// every account's delta is predicted exactly
				cfg.Scripts = []string{"olvm-mixed"}
			}
		},
		newMon: func(w *world.World) func(run *hist.Runner, blk *hist.Block) []mon.Finding {
			return func(run *hist.Runner, blk *hist.Block) []mon.Finding {
				fs := mon.C17(blk)
				// the EVM view of every account that has an account record or is an eth user
				var addrs []string
				seen := map[string]bool{}
				for _, u := range w.EthUsers {
					seen[fmt.Sprintf("%x", []byte(u.Addr))] = true
				}
				for k := range blk.Cur {
					if len(k) == 7+20 && k[:7] == "keeper_" {
						seen[fmt.Sprintf("%x", k[7:])] = true
					}
				}
				for a := range seen {
					addrs = append(addrs, a)
				}
				resp, err := run.Reps[0].Box.Do(proto.Cmd{Op: "evm", Addrs: addrs})
				if err == nil && resp.Evm != nil {
					fs = append(fs, mon.C17View(blk.Cur, resp.Evm, blk.H)...)
				}
				return fs
			}
		},
		gates: map[string]int{"ok:OLVM": 15},
		nontriv: func(blk *hist.Block) bool {
			for _, t := range blk.Txs {
				if t.Kind == "OLVM" {
					return true
				}
			}
			return false
		},
	}, tier)
}

func checkC19(tier string) int {
	return runSubsys(subsysCfg{
		id:      "C19",
		rule:    "seeded histories with 4-7 active validators (so that the ceiling and the strict inequalities matter), several allegations against different validators open at once and decided in the same block, yes/no/stalled plans, votes and allegations by outsiders, double votes, stake/unstake/withdraw attempts by frozen validators, releases, re-staking after release, stake changes between vote and tally, block times around the release time; every verdict is re-derived with exact rationals from the recorded and the block's successful votes of distinct active validators against the configured shares (required = ceil(active x vote share), active = validators elected in that block), penalties against the configured percentage of the previous stake, the bounty credit against the penalty share, releases against freeze time + release time; a case is one block; non-trivial = an allegation record, freeze record or verdict changed; distinct by (seed, height, app hash)",
		assume:  []string{"'currently active' = the validators elected in the block of the tally, as the mechanism text states"},
		scripts: []string{"evidence", "stakingb", "transfers"},
		nhQ:     8, nhT: 50, blQ: 48, blT: 150,
		params: func(i int, hseed int64) world.Params {
			p := world.Params{Frankenstein: int64(i % 2), NumGenesisVals: 4 + i%4, NumCandidates: 1, TopValidators: 8, ReleaseTime: int64(i % 3 / 2)}
			if i%8 == 5 {
				// the missed-votes window of a production chain (the smallest the option validation admits): the run
				// ends long before the window is complete, verdicts freeze all the same
				p.BlockVotesDiff, p.MinVotesRequired = 1000, 700
			}
			return p
		},
		newMon: func(w *world.World) func(run *hist.Runner, blk *hist.Block) []mon.Finding {
			return wrapStateful(mon.NewC19().OnBlock)
		},
		tune: func(cfg *drive.Cfg, i int) {
			if i%3 == 2 {
				// release time of one day: the blocks after the first verdict are 5 s, then two hours, then
				// twelve hours, then a day and a half apart, with a release request after each
				cfg.DtFn = func(h int64) int64 {
					switch {
					case h >= 5 && h <= 9:
						return 5000
					case h == 10:
						return 2 * 3600 * 1000
					case h == 13:
						return 12 * 3600 * 1000
					case h == 16:
						return 36 * 3600 * 1000
					case h >= 11 && h <= 18:
						return 5000
					}
					return 0
				}
			}
		},
		gates: map[string]int{"ok:ALLEGATION": 2, "ok:ALLEGATION_VOTE": 4},
		jumps: true,
	}, tier)
}

func checkC20(tier string) int {
	return runSubsys(subsysCfg{
		id:      "C20",
		rule:    "seeded histories of create/update/sell/purchase/send/renew/delete-sub by owners and strangers on names and sub-names with short lifetimes (so that names expire within the history), purchases below/at/above the asking price, of expired names at the base price, price-option changes by governance; every block the decoded domain records are compared with the previous block's: each change of owner, beneficiary, sale status, price, address or sub-names must be backed by a successful transaction signed by the previous owner or by a purchase whose payload and ledger effects meet the asking (or base) price, every new or moved expiry by the number of blocks the payment buys under the option record in force before or after the block; a case is one block; non-trivial = a domain record changed; distinct by (seed, height, app hash)",
		assume:  []string{"the height an expiry is counted from may be read as the previous or the current block (the code uses the last committed version)"},
		scripts: []string{"ons", "governance", "transfers"},
		nhQ:     8, nhT: 50, blQ: 48, blT: 150,
		params: func(i int, hseed int64) world.Params {
			p := world.Params{Frankenstein: 1, NumGenesisVals: 4}
			if i%8 == 6 {
				// a price of ten OLT per block: more base units than a 64-bit integer holds
				p.PerBlockFees = "10000000000000000000"
			}
			return p
		},
		tune: func(cfg *drive.Cfg, i int) {
			cfg.Honest = i%2 == 0 // the others let a byzantine proposer deliver the script's must-fail traffic
		},
		newMon: func(w *world.World) func(run *hist.Runner, blk *hist.Block) []mon.Finding {
			return wrapStateful(mon.C20)
		},
		gates: map[string]int{"ok:DOMAIN_CREATE": 3, "ok:DOMAIN_PURCHASE": 1, "ok:DOMAIN_RENEW": 1, "ok:DOMAIN_SELL": 1, "ok:DOMAIN_UPDATE": 1},
	}, tier)
}
