package main

import (
	"bytes"
	"crypto/sha256"
	"crypto/sha512"
	"encoding/json"
	"fmt"
	"math/big"
	"math/rand"
	"os"
	"sort"
	"strings"
	"sync"

	ethcmn "github.com/ethereum/go-ethereum/common"
	ethtypes "github.com/ethereum/go-ethereum/core/types"
	ethcrypto "github.com/ethereum/go-ethereum/crypto"
	tmed "github.com/tendermint/tendermint/crypto/ed25519"
	tmsecp "github.com/tendermint/tendermint/crypto/secp256k1"

	"github.com/Oneledger/protocol/action"
	olvmact "github.com/Oneledger/protocol/action/olvm"
	"github.com/Oneledger/protocol/data/balance"
	"github.com/Oneledger/protocol/data/keys"

	"olverif/internal/gen"
	"olverif/internal/hist"
	"olverif/internal/txb"
	"olverif/internal/verdict"
	"olverif/internal/world"
)

// authentic decides, independently of the repository's ValidateBasic and
// Signers(), whether a (possibly mutated) transaction still carries, for every
// address whose authority the ORIGINAL required, a signature that verifies
// under that address's key over exactly (type, payload, fee, memo).
func authentic(w *warm, base hist.TxSpec, mutant []byte) bool {
	st := &action.SignedTx{}
	if err := json.Unmarshal(mutant, st); err != nil {
		return false
	}
	if base.Kind == "OLVM" {
		// EVM-style signature over the reconstructed legacy transaction; in addition the decoded payload must
		// be the one that was signed for — every payload field, including those the signature scheme leaves
		// out (type, access list): a payload changed after signing is not the signer's transaction
		orig := &action.SignedTx{}
		if json.Unmarshal(base.Bytes, orig) != nil {
			return false
		}
		pa, pb := &olvmact.Transaction{}, &olvmact.Transaction{}
		if json.Unmarshal(orig.Data, pa) != nil || json.Unmarshal(st.Data, pb) != nil {
			return false
		}
		ja, _ := json.Marshal(pa)
		jb, _ := json.Marshal(pb)
		// (the EVM-style signature covers the gas limit and the price value; the price currency is part of
		// the fee all the same)
		fa, _ := json.Marshal(orig.Fee)
		fb, _ := json.Marshal(st.Fee)
		// (the key declared next to the signature plays no part: the sender is recovered from the signature)
		return olvmAuthentic(w, st) && bytes.Equal(ja, jb) && bytes.Equal(fa, fb)
	}
	rb := st.RawTx.RawBytes()
	if len(st.Signatures) != len(base.Signers) {
		return false
	}
	orig := &action.SignedTx{}
	if err := json.Unmarshal(base.Bytes, orig); err != nil || len(orig.Signatures) != len(base.Signers) {
		return false
	}
	for i, req := range base.Signers {
		// the address's own key is the one the original was signed with: same algorithm, same bytes
		sg := st.Signatures[i]
		if sg.Signer.KeyType != orig.Signatures[i].Signer.KeyType || !bytes.Equal(sg.Signer.Data, orig.Signatures[i].Signer.Data) {
			return false
		}
		addr, ok := libVerify(sg.Signer.KeyType, sg.Signer.Data, rb, sg.Signed)
		if !ok || addr != req {
			return false
		}
	}
	return true
}

// libVerify verifies a signature with the crypto libraries directly (not through the repository's key
// handlers) and returns the address the key stands for.
func libVerify(alg keys.Algorithm, pub, msg, sig []byte) (string, bool) {
	switch alg {
	case keys.ED25519:
		if len(pub) != 32 {
			return "", false
		}
		var k tmed.PubKeyEd25519
		copy(k[:], pub)
		if len(sig) > 64 && len(sig) >= 6 {
			// hardware-wallet form: the 6-byte name of a digest, then exactly one 64-byte signature over
			// that digest of the message
			var digest []byte
			switch string(sig[:6]) {
			case "SHA224":
				d := sha256.Sum224(msg)
				digest = d[:]
			case "SHA256":
				d := sha256.Sum256(msg)
				digest = d[:]
			case "SHA384":
				d := sha512.Sum384(msg)
				digest = d[:]
			case "SHA512":
				d := sha512.Sum512(msg)
				digest = d[:]
			default:
				return "", false
			}
			if len(sig) != 6+64 {
				return "", false
			}
			return keys.Address(k.Address()).String(), k.VerifyBytes(digest, sig[6:])
		}
		if len(sig) != 64 {
			return "", false
		}
		return keys.Address(k.Address()).String(), k.VerifyBytes(msg, sig)
	case keys.SECP256K1:
		if len(pub) != 33 {
			return "", false
		}
		var k tmsecp.PubKeySecp256k1
		copy(k[:], pub)
		return keys.Address(k.Address()).String(), k.VerifyBytes(msg, sig)
	case keys.ETHSECP:
		pk, err := ethcrypto.DecompressPubkey(pub)
		if err != nil {
			return "", false
		}
		s := sig
		if len(s) == 65 {
			s = s[:64]
		}
		return keys.Address(ethcrypto.PubkeyToAddress(*pk).Bytes()).String(), ethcrypto.VerifySignature(pub, msg, s)
	}
	// no account is keyed with any other algorithm
	return "", false
}

func olvmAuthentic(w *warm, st *action.SignedTx) bool {
	tx := &olvmact.Transaction{}
	if err := json.Unmarshal(st.Data, tx); err != nil || len(st.Signatures) != 1 || tx.ChainID == nil {
		return false
	}
	var to *ethcmn.Address
	if tx.To != nil {
		a := ethcmn.BytesToAddress(tx.To.Bytes())
		to = &a
	}
	ethTx := ethtypes.NewTx(&ethtypes.LegacyTx{Nonce: tx.Nonce, To: to, Value: tx.Amount.Value.BigInt(), Gas: uint64(st.Fee.Gas), GasPrice: st.Fee.Price.Value.BigInt(), Data: tx.Data})
	chain := gen.ChainIDOf(w.w)
	signer := ethtypes.NewEIP155Signer(chain)
	signed, err := ethTx.WithSignature(signer, st.Signatures[0].Signed)
	if err != nil {
		return false
	}
	from, err := signer.Sender(signed)
	if err != nil {
		return false
	}
	return bytes.Equal(from.Bytes(), tx.From.Bytes()) && tx.ChainID.Cmp(chain) == 0 && st.Memo == fmt.Sprint(tx.Nonce)
}

type mutant struct {
	name  string
	bytes []byte
}

// mutants derives single-field mutations of a signed transaction.
func mutants(w *warm, base hist.TxSpec, rng *rand.Rand) []mutant {
	var out []mutant
	parse := func() *action.SignedTx {
		st := &action.SignedTx{}
		_ = json.Unmarshal(base.Bytes, st)
		return st
	}
	add := func(name string, f func(st *action.SignedTx) bool) {
		st := parse()
		if f(st) {
			out = append(out, mutant{name, st.SignedBytes()})
		}
	}
	other := w.w.Users[4%len(w.w.Users)]
	add("payload-digit", func(st *action.SignedTx) bool {
		d := append([]byte{}, st.Data...)
		var pos []int
		for i, c := range d {
			if c >= '0' && c <= '9' {
				pos = append(pos, i)
			}
		}
		if len(pos) == 0 {
			return false
		}
		p := pos[rng.Intn(len(pos))]
		d[p] = '0' + (d[p]-'0'+1+byte(rng.Intn(8)))%10
		st.Data = d
		return true
	})
	add("payload-address-char", func(st *action.SignedTx) bool {
		d := append([]byte{}, st.Data...)
		i := bytes.Index(d, []byte("0lt"))
		if i < 0 || i+10 >= len(d) {
			return false
		}
		p := i + 3 + rng.Intn(6)
		if d[p] == 'a' {
			d[p] = 'b'
		} else {
			d[p] = 'a'
		}
		st.Data = d
		return true
	})
	add("fee-price", func(st *action.SignedTx) bool {
		v := st.Fee.Price.Value.BigInt()
		nv := new(big.Int).Add(v, big.NewInt(1))
		st.Fee.Price.Value = *balanceAmount(nv)
		return true
	})
	add("fee-currency", func(st *action.SignedTx) bool { st.Fee.Price.Currency = "VT"; return true })
	add("fee-gas", func(st *action.SignedTx) bool { st.Fee.Gas++; return true })
	add("fee-gas-tripled", func(st *action.SignedTx) bool { st.Fee.Gas *= 3; return true })
	add("fee-gas-negative", func(st *action.SignedTx) bool { st.Fee.Gas = -1; return true })
	add("memo", func(st *action.SignedTx) bool { st.Memo += "x"; return true })
	add("type", func(st *action.SignedTx) bool {
		if st.Type == action.SEND {
			st.Type = action.SENDPOOL
		} else {
			st.Type = action.SEND
		}
		return true
	})
	add("signer-pubkey", func(st *action.SignedTx) bool {
		if len(st.Signatures) == 0 {
			return false
		}
		st.Signatures[0].Signer = other.Pub
		return true
	})
	add("signature-bit", func(st *action.SignedTx) bool {
		if len(st.Signatures) == 0 || len(st.Signatures[0].Signed) == 0 {
			return false
		}
		s := append([]byte{}, st.Signatures[0].Signed...)
		s[rng.Intn(len(s))] ^= 1 << uint(rng.Intn(8))
		st.Signatures[0].Signed = s
		return true
	})
	add("signature-bytes-appended", func(st *action.SignedTx) bool {
		if len(st.Signatures) == 0 || len(st.Signatures[0].Signed) == 0 || base.Kind == "OLVM" {
			return false
		}
		st.Signatures[0].Signed = append(append([]byte{}, st.Signatures[0].Signed...), 0x90, 0x00)
		return true
	})
	add("signature-s-replaced-by-n-minus-s", func(st *action.SignedTx) bool {
		// the other root of a secp256k1 signature (r, n-s) verifies under plain ECDSA; only the low one is valid
		if len(st.Signatures) == 0 || st.Signatures[0].Signer.KeyType != keys.SECP256K1 || len(st.Signatures[0].Signed) != 64 {
			return false
		}
		n, _ := new(big.Int).SetString("fffffffffffffffffffffffffffffffebaaedce6af48a03bbfd25e8cd0364141", 16)
		sg := append([]byte{}, st.Signatures[0].Signed...)
		sv := new(big.Int).Sub(n, new(big.Int).SetBytes(sg[32:]))
		sb := sv.Bytes()
		copy(sg[32:], make([]byte, 32))
		copy(sg[64-len(sb):], sb)
		st.Signatures[0].Signed = sg
		return true
	})
	add("signer-key-bytes-appended", func(st *action.SignedTx) bool {
		if len(st.Signatures) == 0 || base.Kind == "OLVM" {
			return false
		}
		st.Signatures[0].Signer.Data = append(append([]byte{}, st.Signatures[0].Signer.Data...), 0x00, 0x01)
		return true
	})
	add("signature-digest-name-changed", func(st *action.SignedTx) bool {
		if len(st.Signatures) == 0 || len(st.Signatures[0].Signed) != 70 {
			return false
		}
		sg := append([]byte{}, st.Signatures[0].Signed...)
		if string(sg[:6]) == "SHA256" {
			copy(sg, "SHA512")
		} else {
			copy(sg, "SHA256")
		}
		st.Signatures[0].Signed = sg
		return true
	})
	add("drop-signer", func(st *action.SignedTx) bool {
		if len(st.Signatures) == 0 {
			return false
		}
		st.Signatures = st.Signatures[:len(st.Signatures)-1]
		return true
	})
	add("duplicate-signer", func(st *action.SignedTx) bool {
		if len(st.Signatures) == 0 {
			return false
		}
		st.Signatures = append(st.Signatures, st.Signatures[0])
		return true
	})
	add("reorder-signers", func(st *action.SignedTx) bool {
		if len(st.Signatures) < 2 {
			return false
		}
		st.Signatures[0], st.Signatures[1] = st.Signatures[1], st.Signatures[0]
		return true
	})
	add("substitute-signer", func(st *action.SignedTx) bool {
		// the payload keeps naming the victim; an attacker signs with its own key
		if len(st.Signatures) == 0 || base.Kind == "OLVM" {
			return false
		}
		h, _ := other.Priv.GetHandler()
		sig, err := h.Sign(st.RawTx.RawBytes())
		if err != nil {
			return false
		}
		st.Signatures[len(st.Signatures)-1] = action.Signature{Signer: other.Pub, Signed: sig}
		return true
	})
	add("key-algorithm", func(st *action.SignedTx) bool {
		if len(st.Signatures) == 0 {
			return false
		}
		if st.Signatures[0].Signer.KeyType == keys.ED25519 {
			st.Signatures[0].Signer.KeyType = keys.SECP256K1
		} else {
			st.Signatures[0].Signer.KeyType = keys.ED25519
		}
		return true
	})
	// one required signer's (valid) signature in every slot: the other required signer never signed
	add("first-signer-in-both-slots", func(st *action.SignedTx) bool {
		if len(st.Signatures) < 2 {
			return false
		}
		st.Signatures[1] = st.Signatures[0]
		return true
	})
	add("second-signer-in-both-slots", func(st *action.SignedTx) bool {
		if len(st.Signatures) < 2 {
			return false
		}
		st.Signatures[0] = st.Signatures[1]
		return true
	})
	// the same key bytes declared under each other algorithm, with a junk signature and with the original one
	for _, alg := range []keys.Algorithm{keys.ED25519, keys.SECP256K1, keys.BTCECSECP, keys.ETHSECP} {
		alg := alg
		for _, junk := range []bool{false, true} {
			junk := junk
			name := "same-key-bytes-as-" + alg.String()
			if junk {
				name += "-junk-signature"
			}
			add(name, func(st *action.SignedTx) bool {
				if len(st.Signatures) == 0 || base.Kind == "OLVM" || st.Signatures[0].Signer.KeyType == alg {
					return false
				}
				st.Signatures[0].Signer.KeyType = alg
				if junk {
					st.Signatures[0].Signed = detJunk(len(st.Signatures[0].Signed))
				}
				return true
			})
		}
	}
	if base.Kind == "OLVM" {
		olvmPayload := func(name string, f func(p *olvmact.Transaction)) {
			add(name, func(st *action.SignedTx) bool {
				p := &olvmact.Transaction{}
				if json.Unmarshal(st.Data, p) != nil {
					return false
				}
				f(p)
				d, err := json.Marshal(p)
				if err != nil {
					return false
				}
				st.Data = d
				return true
			})
		}
		// signed by somebody else's key, the payload still naming the victim as sender
		for _, declare := range []bool{true, false} {
			declare := declare
			name := "olvm-signed-by-attacker-victim-key-declared"
			if declare {
				name = "olvm-signed-by-attacker-own-key-declared"
			}
			add(name, func(st *action.SignedTx) bool {
				p := &olvmact.Transaction{}
				if json.Unmarshal(st.Data, p) != nil || len(st.Signatures) != 1 {
					return false
				}
				att := w.w.EthUsers[1%len(w.w.EthUsers)]
				if att.Addr.String() == keys.Address(p.From).String() {
					att = w.w.EthUsers[0]
				}
				var to *ethcmn.Address
				if p.To != nil {
					a := ethcmn.BytesToAddress(p.To.Bytes())
					to = &a
				}
				ethTx := ethtypes.NewTx(&ethtypes.LegacyTx{Nonce: p.Nonce, To: to, Value: p.Amount.Value.BigInt(), Gas: uint64(st.Fee.Gas), GasPrice: st.Fee.Price.Value.BigInt(), Data: p.Data})
				k, err := ethcrypto.ToECDSA(w.w.EthKeys[att.Addr.String()])
				if err != nil {
					return false
				}
				sig, err := ethcrypto.Sign(ethtypes.NewEIP155Signer(gen.ChainIDOf(w.w)).Hash(ethTx).Bytes(), k)
				if err != nil {
					return false
				}
				st.Signatures[0].Signed = sig
				if declare {
					st.Signatures[0].Signer = att.Pub
				}
				return true
			})
		}
		olvmPayload("olvm-payload-type", func(p *olvmact.Transaction) { p.TxType = 1 })
		olvmPayload("olvm-payload-access-list-added", func(p *olvmact.Transaction) {
			p.AccessList = &ethtypes.AccessList{{Address: ethcmn.Address{1}, StorageKeys: []ethcmn.Hash{{2}}}}
		})
		olvmPayload("olvm-payload-empty-access-list", func(p *olvmact.Transaction) { p.AccessList = &ethtypes.AccessList{} })
	}
	// a transfer out of an account keyed the Ethereum way, "signed" with that key over a 32-byte piece of the
	// transaction only (its tail; its head): no signature over part of a transaction authorises the transaction
	if base.Kind == "SEND" && len(w.w.EthUsers) > 0 {
		e := w.w.EthUsers[0]
		if k, err := ethcrypto.ToECDSA(w.w.EthKeys[e.Addr.String()]); err == nil {
			for _, part := range []string{"tail", "head", "tail-then-amount-changed"} {
				st := parse()
				amount := "7"
				st.RawTx = txb.Raw(txb.Send(e.Addr, other.Addr, "OLT", amount), txb.DefaultFee(), st.Memo+"/ethsecp-"+part)
				rb := st.RawTx.RawBytes()
				if len(rb) < 64 {
					continue
				}
				piece := rb[len(rb)-32:]
				if part == "head" {
					piece = rb[:32]
				}
				sig, err := ethcrypto.Sign(piece, k)
				if err != nil {
					continue
				}
				if part == "tail-then-amount-changed" {
					st.RawTx = txb.Raw(txb.Send(e.Addr, other.Addr, "OLT", "7000000"), txb.DefaultFee(), st.Memo+"/ethsecp-"+part)
				}
				st.Signatures = []action.Signature{{Signer: keys.PublicKey{KeyType: keys.ETHSECP, Data: ethcrypto.CompressPubkey(&k.PublicKey)}, Signed: sig}}
				out = append(out, mutant{"ethsecp-key-signature-over-the-" + part + "-only", st.SignedBytes()})
			}
		}
	}
	add("key-algorithm-btcec", func(st *action.SignedTx) bool {
		// btcec public key of the attacker with an arbitrary signature
		if len(st.Signatures) == 0 || base.Kind == "OLVM" {
			return false
		}
		v := w.w.Vals[0]
		st.Signatures[0].Signer = v.EcdsaPub
		return true
	})
	return out
}

// stateDiff lists the keys whose values differ between two states.
func stateDiff(a, b hist.State) []string {
	m := map[string]bool{}
	for k, v := range a {
		if !bytes.Equal(v, b[k]) {
			m[k] = true
		}
	}
	for k, v := range b {
		if !bytes.Equal(v, a[k]) {
			m[k] = true
		}
	}
	var out []string
	for k := range m {
		out = append(out, k)
	}
	sort.Strings(out)
	return out
}

// freshBases returns one or two transactions per kind that are fresh (never
// executed) on the warm snapshot; each is verified to be valid on a fork.
func (wm *warm) freshBases(perKind int) []hist.TxSpec {
	var out []hist.TxSpec
	seen := map[string]int{}
	for _, b := range wm.planned {
		if seen[b.Kind] >= perKind {
			continue
		}
		sp := b
		if b.Kind != "OLVM" {
			st := &action.SignedTx{}
			if json.Unmarshal(b.Bytes, st) != nil {
				continue
			}
			tx, ok := wm.resign(b, st.Data)
			if !ok {
				continue
			}
			sp.Bytes = tx
		}
		seen[b.Kind]++
		out = append(out, sp)
	}
	return out
}

func checkC04(tier string) int {
	r := verdict.New("C04", tier, "exploration")
	r.Rule = "for every transaction kind the workload produces, a well-formed signed transaction that is valid on a fork of a warmed-up chain is mutated in one field (payload digit, payload address character, each fee field, memo, type, signer public key, signature bit, dropped/duplicated/reordered/substituted signer, key algorithm); a mutant counts only if an independent re-verification (the harness's own check of every originally required signer's signature over type+payload+fee+memo) says it is no longer authentic; each mutant goes to CheckTx and, alone, into a byzantine block on its own fork, whose resulting state is compared key by key with an empty-block twin; non-trivial = mutant of a base that itself succeeds on the fork; distinct by (warm height, kind, mutation)"
	r.Assumptions = []string{"ed25519/secp256k1 verification of the linked crypto libraries for the independent authenticity decision", "the generator's record of which addresses signed the base transaction"}
	seed := verdict.Seed()
	heights := []int{10, 18, 13}
	perKind := 1
	if tier == "thorough" {
		heights = []int{7, 11, 16, 22, 30, 38, 9, 26}
		perKind = 2
	}
	var warms []*warm
	var wmu sync.Mutex
	parallel(len(heights), 8, func(i int) {
		// the last warm-up chain (the last two in the thorough tier) never reaches the fork height: the
		// rules of the consensus path hold before the fork as well
		fr := int64(1)
		if i >= len(heights)-1-len(heights)/8 {
			fr = 0
		}
		wm, err := makeWarm(seed*100+int64(i), heights[i], fr, allScripts)
		if err != nil {
			r.Inconclusive(fmt.Sprintf("warm-up chain %d failed: %v", i, err))
			return
		}
		wmu.Lock()
		warms = append(warms, wm)
		wmu.Unlock()
	})
	type job struct {
		wm     *warm
		base   hist.TxSpec
		m      mutant
		empty  hist.State
		baseOK bool
	}
	var jobs []job
	var jmu sync.Mutex
	for _, wm := range warms {
		wm := wm
		es, err := wm.emptyStates(0)
		if err != nil {
			r.Inconclusive(err.Error())
			continue
		}
		bases := wm.freshBases(perKind)
		// one plain transfer per key algorithm that can sign native transactions (ed25519, secp256k1;
		// Ethereum-style keys only verify 32-byte digests and are exercised through OLVM), so that
		// every key-related mutation meets every kind of account key
		for _, u := range []*world.Account{wm.w.Users[0], wm.w.Users[3%len(wm.w.Users)]} {
			m := &txb.Memo{Tag: fmt.Sprintf("c04-keyed-%d-%s", wm.h, u.Name)}
			tx := txb.Tx(txb.Send(u.Addr, wm.w.Users[1].Addr, "OLT", "321"), txb.DefaultFee(), m.Next(), u)
			bases = append(bases, hist.TxSpec{Kind: "SEND", Bytes: tx, Note: "transfer from a " + u.Priv.Keytype.String() + " account", Signers: []string{u.Addr.String()}})
		}
		// ... and transfers signed the hardware-wallet way (signature over a digest, prefixed with its name)
		for k, tag := range []string{"SHA256", "SHA512"} {
			u := wm.w.Users[0]
			tx := txb.TxPreHash(txb.Send(u.Addr, wm.w.Users[1].Addr, "OLT", fmt.Sprint(654+k)), txb.DefaultFee(), fmt.Sprintf("c04-prehash-%d-%s", wm.h, tag), tag, u)
			bases = append(bases, hist.TxSpec{Kind: "SEND", Bytes: tx, Note: "transfer signed over a " + tag + " digest (hardware wallet form)", Signers: []string{u.Addr.String()}})
		}
		// ... and an EVM transfer signed with a gas limit of exactly the simulation block gas limit (and one above)
		if wm.w.P.Frankenstein != 0 && len(wm.w.EthUsers) > 1 {
			for k, g := range []int64{100000000, 100000001} {
				e := wm.w.EthUsers[k%len(wm.w.EthUsers)]
				n, _ := gen.KeeperNonce(wm.state, e.Addr)
				to := ethcmn.BytesToAddress(wm.w.EthUsers[(k+1)%len(wm.w.EthUsers)].Addr)
				tx := gen.OLVMTx(&gen.Ctx{W: wm.w}, e, wm.w.EthKeys[e.Addr.String()], n, &to, big.NewInt(5), nil, g, "1000000000", gen.ChainIDOf(wm.w), fmt.Sprint(n))
				bases = append(bases, hist.TxSpec{Kind: "OLVM", Bytes: tx, Note: fmt.Sprintf("EVM transfer signed with gas limit %d", g), Signers: []string{e.Addr.String()}})
			}
		}
		rng := rand.New(rand.NewSource(wm.seed * 31))
		var muts [][]mutant
		for _, b := range bases {
			muts = append(muts, mutants(wm, b, rng))
		}
		parallel(len(bases), 14, func(bi int) {
			b := bases[bi]
			o := wm.runProbe(b.Bytes, b, true, false, 0, false)
			ok := o.Err == nil && !o.Died && o.Included && o.Deliver.Code == 0
			r.Count("bases", 1)
			if ok {
				r.Count("bases_valid_on_fork", 1)
				r.Count("base_ok:"+b.Kind, 1)
			}
			jmu.Lock()
			for _, m := range muts[bi] {
				jobs = append(jobs, job{wm, b, m, es[0], ok})
			}
			jmu.Unlock()
		})
	}
	sort.Slice(jobs, func(i, j int) bool {
		a, b := jobs[i], jobs[j]
		return fmt.Sprint(a.wm.h, a.base.Kind, a.m.name) < fmt.Sprint(b.wm.h, b.base.Kind, b.m.name)
	})
	r.Gate("mutants_not_authentic", 60)
	r.Gate("kinds", 12)
	kinds := map[string]bool{}
	var kmu sync.Mutex
	parallel(len(jobs), 14, func(i int) {
		j := jobs[i]
		id := fmt.Sprintf("%d/%s/%s/%s", j.wm.h, j.base.Kind, j.m.name, cut(j.base.Note, 40))
		if authentic(j.wm, j.base, j.m.bytes) {
			r.Count("mutants_still_authentic_skipped", 1)
			r.Case(id, false)
			return
		}
		// the node has checked the genuine transaction before (half of the mutants): a node that remembers
		// anything from that validation must not let it vouch for the mutant
		// (and every fee mutant of an EVM transaction: its fee is signed for, yet is not part of the payload)
		if i%2 == 0 || (j.base.Kind == "OLVM" && strings.HasPrefix(j.m.name, "fee-")) {
			probePrime.Store(string(j.m.bytes), j.base.Bytes)
			r.Count("mutants_after_the_genuine_transaction_was_checked", 1)
		}
		o := j.wm.runProbe(j.m.bytes, j.base, true, true, 0, false)
		if o.Err != nil {
			r.Diag(id + ": " + o.Err.Error())
			r.Case(id, false)
			return
		}
		r.Case(id, j.baseOK)
		r.Count("mutants_not_authentic", 1)
		r.Count("mutation:"+j.m.name, 1)
		kmu.Lock()
		kinds[j.base.Kind] = true
		kmu.Unlock()
		if o.Checked && o.CheckCode == 0 && !o.Panicked && o.DiedAt != "CheckTx" {
			// (what happens to the node afterwards — it may die delivering it — is C18's matter)
			r.Violate(verdict.Violation{Signature: "C04/check-accepted/" + j.base.Kind + "/" + j.m.name, What: fmt.Sprintf("%s mutant (%s) is no longer authentic but CheckTx answered code 0", j.base.Kind, j.m.name), Witness: map[string]interface{}{"warm_seed": j.wm.seed, "warm_height": j.wm.h, "kind": j.base.Kind, "mutation": j.m.name, "base": string(j.base.Bytes), "mutant": string(j.m.bytes), "node_died_later_at": o.DiedAt}})
			return
		}
		if o.Died || o.Panicked {
			// "rejected without effect" is not what happened if delivering the mutant took the node down
			r.Violate(verdict.Violation{Signature: "C04/node-died/" + j.base.Kind + "/" + j.m.name, What: fmt.Sprintf("%s mutant (%s) is no longer authentic; handling it took the node down at %s: %s", j.base.Kind, j.m.name, o.DiedAt, crashLine(o.LogTail)), Witness: map[string]interface{}{"warm_seed": j.wm.seed, "warm_height": j.wm.h, "kind": j.base.Kind, "mutation": j.m.name, "mutant": string(j.m.bytes), "log": cut(o.LogTail, 1500)}})
			return
		}
		if os.Getenv("DEBUG_C04") != "" && strings.Contains(j.m.name, os.Getenv("DEBUG_C04")) {
			fmt.Printf("DEBUG %s check=%d %q deliver=%d %q\n", id, o.CheckCode, cut(o.CheckLog, 160), o.Deliver.Code, cut(o.Deliver.Log, 160))
		}
		wit := map[string]interface{}{"warm_seed": j.wm.seed, "warm_height": j.wm.h, "kind": j.base.Kind, "mutation": j.m.name, "base": string(j.base.Bytes), "mutant": string(j.m.bytes)}
		if o.CheckCode == 0 {
			r.Violate(verdict.Violation{Signature: "C04/check-accepted/" + j.base.Kind + "/" + j.m.name, What: fmt.Sprintf("%s mutant (%s) is no longer authentic but CheckTx answered code 0", j.base.Kind, j.m.name), Witness: wit})
			return
		}
		if o.Deliver.Code == 0 {
			r.Violate(verdict.Violation{Signature: "C04/deliver-code0/" + j.base.Kind + "/" + j.m.name, What: fmt.Sprintf("%s mutant (%s) is no longer authentic (CheckTx: %s) but DeliverTx in a byzantine block answered code 0", j.base.Kind, j.m.name, cut(o.CheckLog, 80)), Witness: wit})
			return
		}
		if d := stateDiff(o.States[0], j.empty); len(d) > 0 {
			r.Violate(verdict.Violation{Signature: "C04/deliver-effect/" + j.base.Kind + "/" + j.m.name, What: fmt.Sprintf("%s mutant (%s) returned code %d when delivered, but the state differs from an empty block's in %d keys, first %q", j.base.Kind, j.m.name, o.Deliver.Code, len(d), d[0]), Witness: wit})
			return
		}
	})
	r.Count("kinds", len(kinds))
	var ks []string
	for k := range kinds {
		ks = append(ks, k)
	}
	sort.Strings(ks)
	r.Set("kinds_covered", ks)
	if len(jobs) > 0 {
		for _, j := range jobs {
			if j.m.name == "substitute-signer" {
				r.Sample(map[string]interface{}{"kind": j.base.Kind, "mutation": j.m.name, "base": cut(string(j.base.Bytes), 500), "mutant": cut(string(j.m.bytes), 500)})
				break
			}
		}
		r.Sample(map[string]interface{}{"kind": jobs[0].base.Kind, "mutation": jobs[0].m.name, "mutant": cut(string(jobs[0].m.bytes), 500)})
	}
	return r.Finish()
}

var _ = strings.ToLower

func balanceAmount(b *big.Int) *balance.Amount { return balance.NewAmountFromBigInt(b) }

func detJunk(n int) []byte {
	out := make([]byte, n)
	for i := range out {
		out[i] = byte(37*i + 11)
	}
	return out
}
