package main

import "olverif/internal/verdict"

// runProbes executes the isolated hostile probes that belong to property own.
func runProbes(r *verdict.Run, own, tier string) {}
