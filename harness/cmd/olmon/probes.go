package main

import (
	"encoding/json"
	"fmt"
	rewact "github.com/Oneledger/protocol/action/rewards"
	"math/rand"
	"os"
	"path/filepath"
	"sort"
	"strings"
	"sync"

	"github.com/Oneledger/protocol/action"
	olvmact "github.com/Oneledger/protocol/action/olvm"
	"github.com/Oneledger/protocol/data/keys"
	ethcmn "github.com/ethereum/go-ethereum/common"
	ethtypes "github.com/ethereum/go-ethereum/core/types"

	"olverif/internal/boxcli"
	"olverif/internal/drive"
	"olverif/internal/gen"
	"olverif/internal/hist"
	"olverif/internal/ledger"
	"olverif/internal/mon"
	"olverif/internal/proto"
	"olverif/internal/txb"
	"olverif/internal/verdict"
	"olverif/internal/world"
)

// warm is a warmed-up chain frozen as a directory snapshot that probes fork.
type warm struct {
	w        *world.World
	dir      string // snapshot of the leader's node directory (box stopped)
	keyring  string
	h        int64
	state    hist.State
	planned  []hist.TxSpec // honest transactions the scripts would send next
	accounts map[string]*world.Account
	seed     int64
	n        int64
	mu       sync.Mutex
	empty    map[int]hist.State // state after k empty blocks on a fork (memoised)
}

func allAccounts(w *world.World) map[string]*world.Account {
	m := map[string]*world.Account{}
	for _, u := range w.Users {
		m[u.Addr.String()] = u
	}
	for _, u := range w.EthUsers {
		m[u.Addr.String()] = u
	}
	for _, v := range w.Vals {
		m[v.Stake.Addr.String()] = &v.Stake
		m[v.ValAddr.String()] = gen.ConsAccount(v)
	}
	return m
}

// makeWarm runs the mixed scripts for `blocks` blocks, asks the scripts what
// they would send next, stops the node and keeps its directory.
// onWarmFail, when set, sees a warm-up history that could not be completed before its nodes are closed (C18
// decides node deaths, also those that ordinary traffic causes).
var onWarmFail func(seed int64, res *drive.Result)

func makeWarm(seed int64, blocks int, fr int64, scripts []string) (*warm, error) {
	params := world.Params{Frankenstein: fr, NumCandidates: 3, NumEthUsers: 3, TopValidators: 5, ChainID: fmt.Sprintf("OneLedger-warm-%d-%d", seed, blocks)}
	wm := &warm{seed: seed, empty: map[int]hist.State{}}
	cfg := drive.Cfg{Tag: "warm", Seed: seed, Blocks: blocks, Params: params, Scripts: scripts, Scout: true, KeepAll: true, Honest: true}
	var plannedNext []hist.TxSpec
	// the planning of block `blocks+1` happens in FilterPlan of an extra step that is not executed:
	cfg.Blocks = blocks + 1
	cfg.FilterPlan = func(c *gen.Ctx, specs []hist.TxSpec) []hist.TxSpec {
		if c.H == int64(blocks)+1 {
			plannedNext = append([]hist.TxSpec{}, specs...)
			return nil // last block stays empty; its planned traffic becomes probe material
		}
		if c.H >= int64(blocks)-1 {
			plannedNext = append(plannedNext, specs...)
		}
		return specs
	}
	res := drive.Run(cfg)
	if res.Err != nil {
		if res.R != nil {
			if onWarmFail != nil {
				onWarmFail(seed, res)
			}
			res.R.Close()
		}
		return nil, res.Err
	}
	r := res.R
	wm.w = res.W
	wm.h = r.H
	wm.state = r.State
	wm.keyring = r.Keyring
	wm.accounts = allAccounts(res.W)
	// planned traffic: only what the scripts planned for the never-executed block
	var fresh []hist.TxSpec
	done := map[string]bool{}
	for _, b := range r.Blocks {
		for _, t := range b.Txs {
			done[string(t.Bytes)] = true
		}
	}
	for _, s := range plannedNext {
		if !done[string(s.Bytes)] {
			fresh = append(fresh, s)
		}
	}
	// bases for hostile variants: the planned traffic plus the latest successful
	// transactions of every kind seen during the warm-up (variants are re-signed
	// with a fresh memo, so they are new transactions)
	perKind := map[string]int{}
	for _, s := range fresh {
		perKind[s.Kind]++
	}
	for bi := len(r.Blocks) - 1; bi >= 0; bi-- {
		for _, t := range r.Blocks[bi].Txs {
			if t.Call.Code == 0 && perKind[t.Kind] < 2 {
				perKind[t.Kind]++
				fresh = append(fresh, t.TxSpec)
			}
		}
	}
	// kinds the warm-up never executed successfully still get bases (the honest form may fail: the hostile
	// variants are what counts): a validator's reward withdrawal, and one naming an address that is no validator
	if w := wm.w; perKind["WITHDRAW_REWARD"] == 0 && len(w.Vals) > 0 && len(w.Users) > 1 {
		v := w.Vals[0]
		mk := func(val keys.Address, signer *world.Account, note string) hist.TxSpec {
			bz := txb.Tx(&rewact.Withdraw{ValidatorAddress: val, SignerAddress: signer.Addr, WithdrawAmount: txb.Amt("OLT", "1")}, txb.DefaultFee(), fmt.Sprintf("warm-wr-%d-%s", seed, note), signer)
			return hist.TxSpec{Kind: "WITHDRAW_REWARD", Bytes: bz, Note: "reward withdrawal (" + note + ")", Signers: []string{signer.Addr.String()}}
		}
		fresh = append(fresh, mk(v.ValAddr, &v.Stake, "validator"), mk(w.Users[1].Addr, w.Users[1], "address that is no validator"))
	}
	wm.planned = fresh
	r.Reps[0].Box.Quit()
	if r.Scout != nil {
		r.Scout.Box.Kill()
	}
	wm.dir = r.Reps[0].Root
	return wm, nil
}

// fork copies the snapshot and boots a box on the copy.
func (wm *warm) fork() (*boxcli.Box, string, error) {
	wm.mu.Lock()
	wm.n++
	n := wm.n
	wm.mu.Unlock()
	dir := filepath.Join(filepath.Dir(wm.dir), fmt.Sprintf("fork-%d", n))
	if err := boxcli.CopyDir(wm.dir, dir); err != nil {
		return nil, dir, err
	}
	b, err := boxcli.Start(fmt.Sprintf("fork-%d", n), dir, wm.keyring, nil, nil)
	return b, dir, err
}

// probeOut is what one probe observed.
type probeOut struct {
	CheckCode   uint32
	CheckLog    string
	Checked     bool
	Included    bool
	Deliver     proto.Call
	Died        bool
	DiedAt      string
	ExitCode    int
	Signal      string
	Panicked    bool
	LogTail     string
	States      []hist.State // state after each block (first = block containing the tx)
	Blocks      []*hist.Block
	LivenessOK  bool
	LivenessLog string
	Err         error
}

// runProbe executes one transaction on a fork. check: issue CheckTx first;
// force: include it whatever CheckTx said; follow: number of empty blocks after.
func (wm *warm) runProbe(tx []byte, spec hist.TxSpec, check, force bool, follow int, liveness bool) *probeOut {
	out := &probeOut{}
	b, dir, err := wm.fork()
	defer os.RemoveAll(dir)
	if err != nil {
		out.Err = err
		return out
	}
	defer b.Kill()
	died := func(at string) *probeOut {
		out.Died, out.DiedAt, out.ExitCode, out.Signal = true, at, b.ExitCode, b.Signal
		out.LogTail = b.LogTail(2500)
		return out
	}
	include := force
	// EVM transactions are refused by the mempool check of a process that has not begun a block yet ("not
	// enabled"): when the probe goes into the block anyway, its mempool check (and the genuine transaction's
	// before it) is made right after the probe block's BeginBlock instead
	var inBlock [][]byte
	if spec.Kind == "OLVM" && check && force && tx != nil {
		if pr, ok := probePrime.Load(string(tx)); ok {
			inBlock = append(inBlock, pr.([]byte))
		}
		inBlock = append(inBlock, tx)
		check = false
	} else if pr, ok := probePrime.Load(string(tx)); ok {
		// the node has seen (and checked) the genuine transaction before the probe arrives
		if _, err := b.Check(pr.([]byte)); err != nil {
			if err == boxcli.ErrTimeout {
				out.Err = err
				return out
			}
			return died("CheckTx(prime)")
		}
	}
	if check {
		resp, err := b.Check(tx)
		if err != nil {
			if err == boxcli.ErrTimeout {
				out.Err = err
				return out
			}
			return died("CheckTx")
		}
		out.Checked = true
		for _, c := range resp.Calls {
			if c.M == "CheckTx" {
				out.CheckCode, out.CheckLog = c.Code, c.Log
			}
		}
		if resp.Panicked {
			out.Panicked = true
			out.DiedAt = "CheckTx"
			out.LogTail = b.LogTail(2500)
		}
		if out.CheckCode == 0 && !resp.Panicked {
			include = true
		}
	}
	prev := wm.state
	for k := 0; k <= follow; k++ {
		rc := &proto.Recipe{DtMs: 5000, Dump: true}
		if k == 0 && include {
			rc.Txs = [][]byte{tx}
			out.Included = true
		}
		if k == 0 && inBlock != nil {
			rc.Inject = map[string][][]byte{"after:BeginBlock": inBlock}
		}
		if cp, ok := probeCrash.Load(string(tx)); ok && k == 0 && tx != nil {
			// the node is killed after Tendermint saved the probe's block and before the application committed
			// it: the block is executed by the handshake replay of the next start
			rc.Crash = cp.(string)
			rc.Dump = false
			if _, err := b.Block(rc); err == nil || !b.Dead {
				out.Err = fmt.Errorf("crash point %s was not reached", rc.Crash)
				return out
			}
			if err := b.Restart(); err != nil {
				return died("restart-after-kill")
			}
			blk := &hist.Block{H: wm.h + 1, Prev: prev, Recipe: rc}
			for _, c := range b.Boot.Calls {
				switch c.M {
				case "BeginBlock":
					blk.Begin = c
				case "EndBlock":
					blk.End = c
				case "Commit":
					blk.Commit = c
				case "DeliverTx":
					out.Deliver = c
					blk.Txs = append(blk.Txs, hist.TxResult{TxSpec: spec, Call: c})
				}
			}
			d, err := b.Do(proto.Cmd{Op: "dump", Full: true})
			if err != nil {
				return died("dump-after-restart")
			}
			cur := hist.State{}.Apply(d.Dump, true)
			blk.Cur = cur
			out.States = append(out.States, cur)
			out.Blocks = append(out.Blocks, blk)
			prev = cur
			continue
		}
		resp, err := b.Block(rc)
		if err != nil {
			if err == boxcli.ErrTimeout {
				out.Err = err
				return out
			}
			return died(fmt.Sprintf("block+%d", k))
		}
		if resp.Err != "" || resp.ApplyErr != "" {
			out.Err = fmt.Errorf("block+%d: %s%s", k, resp.Err, resp.ApplyErr)
			out.LogTail = b.LogTail(1500)
			if resp.Panicked {
				out.Panicked = true
				out.DiedAt = fmt.Sprintf("block+%d", k)
			}
			return out
		}
		blk := &hist.Block{H: resp.Height, Prev: prev, Recipe: rc}
		for _, c := range resp.Calls {
			switch c.M {
			case "BeginBlock":
				blk.Begin = c
			case "EndBlock":
				blk.End = c
			case "Commit":
				blk.Commit = c
			case "CheckTx":
				if k == 0 && c.Injected && inBlock != nil {
					// (the last injected check is the probe's)
					out.Checked, out.CheckCode, out.CheckLog = true, c.Code, c.Log
				}
			case "DeliverTx":
				if c.Injected {
					continue
				}
				if k == 0 {
					out.Deliver = c
					blk.Txs = append(blk.Txs, hist.TxResult{TxSpec: spec, Call: c})
				}
			}
		}
		cur := prev.Apply(resp.Dump, resp.DumpFull)
		blk.Cur = cur
		out.States = append(out.States, cur)
		out.Blocks = append(out.Blocks, blk)
		prev = cur
		if resp.Panicked {
			out.Panicked = true
			out.DiedAt = fmt.Sprintf("block+%d", k)
			out.LogTail = b.LogTail(2500)
			return out
		}
	}
	if liveness {
		// a plain transfer that works on an untouched fork must still work
		u := wm.w.Users[1]
		ltx := txb.Tx(txb.Send(u.Addr, wm.w.Users[2].Addr, "VT", "1"), txb.DefaultFee(), fmt.Sprintf("liveness-%d", wm.n), u)
		resp, err := b.Check(ltx)
		if err != nil {
			return died("liveness-check")
		}
		code := uint32(99)
		for _, c := range resp.Calls {
			if c.M == "CheckTx" {
				code, out.LivenessLog = c.Code, c.Log
			}
		}
		if code == 0 {
			resp2, err := b.Block(&proto.Recipe{DtMs: 5000, Txs: [][]byte{ltx}})
			if err != nil {
				return died("liveness-block")
			}
			for _, c := range resp2.Calls {
				if c.M == "DeliverTx" {
					out.LivenessOK = c.Code == 0
					out.LivenessLog = c.Log
				}
			}
			if resp2.Panicked {
				out.Panicked = true
				out.DiedAt = "liveness-block"
			}
		}
	}
	return out
}

// emptyStates returns the states after 1..k+1 empty blocks on an untouched
// fork (the twin every probe is compared with).
func (wm *warm) emptyStates(follow int) ([]hist.State, error) {
	wm.mu.Lock()
	if st, ok := wm.empty[follow]; ok {
		_ = st
	}
	wm.mu.Unlock()
	o := wm.runProbe(nil, hist.TxSpec{}, false, false, follow, false)
	if o.Err != nil || o.Died {
		return nil, fmt.Errorf("empty twin failed: %v died=%v %s", o.Err, o.Died, o.LogTail)
	}
	return o.States, nil
}

// ---------------------------------------------------------------- hostile payloads

// probeCrash: probe transaction bytes -> call boundary of the probe's block at which the node is killed (the
// block is then executed by the handshake replay of the restart).
var probeCrash sync.Map

// probePrime: probe transaction bytes -> a genuine transaction the node checks first (same process), so that
// anything the node remembers from validating the genuine one is in place when the probe arrives.
var probePrime sync.Map

type hostile struct {
	Spec  hist.TxSpec
	Kind  string
	Field string
	Trait string
}

var amountTraits = []struct{ name, val string }{
	{"-1", "-1"}, {"-(2^64-1)", "-18446744073709551615"}, {"0", "0"}, {"2^63-1", "9223372036854775807"}, {"2^63", "9223372036854775808"}, {"2^64-1", "18446744073709551615"},
	{"2^64+1", "18446744073709551617"}, {"10^40", "10000000000000000000000000000000000000000"}, {"-10^30", "-1000000000000000000000000000000"},
}

var currencyTraits = []struct{ name, val string }{{"VT", "VT"}, {"ETH", "ETH"}, {"unknown", "XYZ"}, {"empty", ""}, {"TTC", "TTC"}, {"BTC", "BTC"}}

// isAmountObj recognises {"currency":..,"value":..}.
func isAmountObj(v interface{}) (map[string]interface{}, bool) {
	m, ok := v.(map[string]interface{})
	if !ok {
		return nil, false
	}
	_, c := m["currency"]
	_, val := m["value"]
	return m, c && val && len(m) == 2
}

// resign rebuilds a signed transaction with a new payload, signed by the same
// signers (their keys are the harness's).
func (wm *warm) resign(base hist.TxSpec, payload []byte) ([]byte, bool) {
	st := &action.SignedTx{}
	if err := json.Unmarshal(base.Bytes, st); err != nil {
		return nil, false
	}
	raw := st.RawTx
	raw.Data = payload
	raw.Memo = raw.Memo + "-h"
	var privs []keys.PrivateKey
	for _, s := range base.Signers {
		a, ok := wm.accounts[s]
		if !ok {
			return nil, false
		}
		privs = append(privs, a.Priv)
	}
	return txb.Pack(raw, txb.SignWith(raw, privs...)), true
}

// hostileVariants derives, from an honest transaction, correctly signed
// variants with one hostile field each.
func (wm *warm) hostileVariants(base hist.TxSpec, rng *rand.Rand, perField int) []hostile {
	if base.Kind == "OLVM" {
		return nil // OLVM payloads are signed EIP-155 style; covered by the OLVM probes
	}
	st := &action.SignedTx{}
	if err := json.Unmarshal(base.Bytes, st); err != nil {
		return nil
	}
	var payload map[string]interface{}
	if err := json.Unmarshal(st.Data, &payload); err != nil {
		return nil
	}
	var out []hostile
	add := func(field, trait string, mutate func(p map[string]interface{})) {
		var p map[string]interface{}
		_ = json.Unmarshal(st.Data, &p)
		mutate(p)
		bz, err := json.Marshal(p)
		if err != nil {
			return
		}
		tx, ok := wm.resign(base, bz)
		if !ok {
			return
		}
		sp := base
		sp.Bytes = tx
		sp.Trait = trait
		sp.Field = field
		sp.Note = base.Note + " [" + field + ":" + trait + "]"
		out = append(out, hostile{Spec: sp, Kind: base.Kind, Field: field, Trait: trait})
	}
	fields := make([]string, 0, len(payload))
	for f := range payload {
		fields = append(fields, f)
	}
	sort.Strings(fields)
	otherAddr := wm.w.Users[5%len(wm.w.Users)].Addr.String()
	poolAddr := mon.DelegationPool
	for _, f := range fields {
		f := f
		v := payload[f]
		if am, ok := isAmountObj(v); ok {
			_ = am
			picked := map[int]bool{}
			for _, t := range pickN(rng, len(amountTraits), perField) {
				picked[t] = true
			}
			// (the values between the signed and the unsigned 64-bit limit go into every amount field: whatever
			// width a handler reads an amount with, these are the ones that change sign on the way)
			for t, tr := range amountTraits {
				if tr.name == "2^63" || tr.name == "2^64-1" {
					picked[t] = true
				}
			}
			for t := range amountTraits {
				if !picked[t] {
					continue
				}
				tr := amountTraits[t]
				add(f, "amount="+tr.name, func(p map[string]interface{}) { p[f].(map[string]interface{})["value"] = tr.val })
			}
			for _, t := range pickN(rng, len(currencyTraits), 2+perField) {
				tr := currencyTraits[t]
				add(f, "currency="+tr.name, func(p map[string]interface{}) { p[f].(map[string]interface{})["currency"] = tr.val })
			}
			continue
		}
		switch x := v.(type) {
		case string:
			if strings.HasPrefix(x, "0lt") {
				add(f, "address=other-user", func(p map[string]interface{}) { p[f] = otherAddr })
				add(f, "address=pool", func(p map[string]interface{}) { p[f] = poolAddr })
				add(f, "address=empty", func(p map[string]interface{}) { p[f] = "" })
				add(f, "address=short", func(p map[string]interface{}) { p[f] = "0lt0102" })
			} else if _, isNum := bigOK(x); isNum && len(x) > 0 {
				// amounts that travel as bare decimal strings (e.g. fundingGoal)
				for _, t := range pickN(rng, len(amountTraits), 2) {
					tr := amountTraits[t]
					add(f, "amount="+tr.name, func(p map[string]interface{}) { p[f] = tr.val })
				}
			} else {
				add(f, "string=empty", func(p map[string]interface{}) { p[f] = "" })
			}
		case float64:
			add(f, "int=-1", func(p map[string]interface{}) { p[f] = -1 })
			add(f, "int=huge", func(p map[string]interface{}) { p[f] = 9223372036854775807 })
			add(f, "int=0", func(p map[string]interface{}) { p[f] = 0 })
		case nil:
		default:
			add(f, "null", func(p map[string]interface{}) { p[f] = nil })
		}
	}
	return out
}

func bigOK(s string) (bool, bool) {
	if s == "" {
		return false, false
	}
	for i, c := range s {
		if !(c >= '0' && c <= '9') && !(i == 0 && c == '-') {
			return false, false
		}
	}
	return true, true
}

func pickN(rng *rand.Rand, n, k int) []int {
	p := rng.Perm(n)
	if k > n {
		k = n
	}
	return p[:k]
}

// ---------------------------------------------------------------- C02/C03 probes

// runProbes executes the isolated hostile probes of the ledger properties:
// each hostile variant goes through honest admission on its own fork, then the
// ledger monitors watch that block and the blocks past every maturity.
func runProbes(r *verdict.Run, own, tier string) {
	seed := verdict.Seed()
	heights := []int{9, 16}
	per := 2
	if tier == "thorough" {
		heights = []int{7, 12, 18, 26, 34}
		per = 8
	}
	var warms []*warm
	var wmu sync.Mutex
	parallel(len(heights), 4, func(i int) {
		fr := int64(1)
		wm, err := makeWarm(seed*100+int64(i), heights[i], fr, allScripts)
		if err != nil {
			r.Inconclusive(fmt.Sprintf("warm-up chain %d failed: %v", i, err))
			return
		}
		wmu.Lock()
		warms = append(warms, wm)
		wmu.Unlock()
	})
	type job struct {
		wm *warm
		h  hostile
	}
	var jobs []job
	for _, wm := range warms {
		rng := rand.New(rand.NewSource(wm.seed))
		seenKind := map[string]int{}
		for _, base := range wm.planned {
			if seenKind[base.Kind] >= 2 {
				continue
			}
			seenKind[base.Kind]++
			for _, hv := range wm.hostileVariants(base, rng, per) {
				if own == "C02" && !strings.HasPrefix(hv.Trait, "amount=") && !strings.HasPrefix(hv.Trait, "currency=") {
					continue
				}
				if own == "C03" && !strings.HasPrefix(hv.Trait, "address=") && !strings.HasPrefix(hv.Trait, "amount=-") {
					continue
				}
				jobs = append(jobs, job{wm, hv})
			}
		}
	}
	if own == "C03" {
		// transactions that name a victim but were not signed by it (every signature/key mutation of C04 that
		// an independent verification finds not authentic): delivered by a proposer that skips its own check,
		// they must not move anything out of the victim's holdings. The signers recorded for the monitor are
		// the addresses whose signature really verifies.
		for _, wm := range warms {
			rng := rand.New(rand.NewSource(wm.seed * 7))
			bases := wm.freshBases(1)
			for _, u := range []*world.Account{wm.w.Users[0], wm.w.Users[3%len(wm.w.Users)]} {
				m := &txb.Memo{Tag: fmt.Sprintf("c03-keyed-%d-%s", wm.h, u.Name)}
				tx := txb.Tx(txb.Send(u.Addr, wm.w.Users[1].Addr, "OLT", "400000000000000000000"), txb.DefaultFee(), m.Next(), u)
				bases = append(bases, hist.TxSpec{Kind: "SEND", Bytes: tx, Note: "transfer from a " + u.Priv.Keytype.String() + " account", Signers: []string{u.Addr.String()}})
			}
			for _, b := range bases {
				for _, m := range mutants(wm, b, rng) {
					if b.Kind == "OLVM" && !strings.HasPrefix(m.name, "olvm-signed-by-attacker") {
						continue
					}
					if strings.HasPrefix(m.name, "fee") || m.name == "type" {
						continue
					}
					// (payload and memo mutants carry the victim's old signature on different content)
					if authentic(wm, b, m.bytes) {
						continue
					}
					sp := hist.TxSpec{Kind: b.Kind, Bytes: m.bytes, Note: b.Note + " / " + m.name, Signers: verifiedSigners(m.bytes), Force: true}
					probePrime.Store(string(m.bytes), b.Bytes)
					if own == "C03" && len(jobs)%4 == 1 {
						probeCrash.Store(string(m.bytes), []string{"before:Commit", "after:EndBlock"}[len(jobs)%2])
					}
					jobs = append(jobs, job{wm, hostile{Spec: sp, Kind: b.Kind, Field: "<signatures>", Trait: "forged=" + m.name}})
				}
			}
		}
	}
	r.Gate("probes", 20)
	parallel(len(jobs), 14, func(i int) {
		j := jobs[i]
		o := j.wm.runProbe(j.h.Spec.Bytes, j.h.Spec, true, j.h.Spec.Force, 6, false)
		id := fmt.Sprintf("probe/%d/%s/%s/%s/%s", j.wm.h, j.h.Kind, j.h.Field, j.h.Trait, cut(j.h.Spec.Note, 30))
		if j.h.Spec.Force {
			r.Count("forged_probes", 1)
		}
		if o.Err != nil {
			r.Diag(id + ": " + o.Err.Error())
			r.Case(id, false)
			return
		}
		r.Case(id, o.Included)
		r.Count("probes", 1)
		if o.Included {
			r.Count("probes_admitted", 1)
		}
		if o.Died || o.Panicked {
			r.Diag(fmt.Sprintf("%s: node died/panicked at %s (decided by C18)", id, o.DiedAt))
			return
		}
		eoas := eoaSet(j.wm.w)
		var prevL *ledger.Ledger
		for _, blk := range o.Blocks {
			cur := ledger.Decode(blk.Cur, nil)
			if len(cur.Unknown) > 0 || len(cur.Bad) > 0 {
				r.Inconclusive(fmt.Sprintf("ledger decoder: unknown %q bad %q in %s", first(cur.Unknown, 2), first(cur.Bad, 2), id))
				return
			}
			if prevL == nil {
				prevL = ledger.Decode(blk.Prev, nil)
			}
			var fs []mon.Finding
			fs = append(fs, mon.C02(prevL, cur, blk, mon.WrappedAllowance(blk))...)
			fs = append(fs, mon.C03(prevL, cur, blk, eoas, stakeMap(blk.Prev), mon.GuiltyIn(blk))...)
			prevL = cur
			for _, f := range fs {
				// attribute to the probe's single hostile input
				parts := strings.SplitN(f.Sig, "/", 4)
				sig := f.Sig
				if len(parts) >= 3 {
					sig = strings.Join(parts[:3], "/") + "/" + j.h.Kind + "." + j.h.Field + "/" + j.h.Trait
				}
				if f.Prop != own {
					r.Diag(sig + ": " + f.What)
					continue
				}
				r.Violate(verdict.Violation{Property: f.Prop, Signature: sig, What: fmt.Sprintf("probe on a warmed-up chain (height %d): %s with %s=%s passed admission and was delivered (code %d): %s", j.wm.h, j.h.Kind, j.h.Field, j.h.Trait, o.Deliver.Code, f.What), Witness: map[string]interface{}{"warm_seed": j.wm.seed, "warm_height": j.wm.h, "tx": string(j.h.Spec.Bytes), "kind": j.h.Kind, "field": j.h.Field, "trait": j.h.Trait}})
				return
			}
		}
	})
	if len(jobs) > 0 {
		r.Sample(map[string]interface{}{"probe": jobs[0].h.Kind + "." + jobs[0].h.Field + " " + jobs[0].h.Trait, "tx": cut(string(jobs[0].h.Spec.Bytes), 400)})
	}
}

// verifiedSigners lists the addresses whose signature over the transaction's signed content verifies with
// the crypto libraries (independently of the repository's key handlers).
func verifiedSigners(tx []byte) []string {
	st := &action.SignedTx{}
	if json.Unmarshal(tx, st) != nil {
		return nil
	}
	var out []string
	if st.Type == action.OLVM {
		p := &olvmact.Transaction{}
		if json.Unmarshal(st.Data, p) != nil || len(st.Signatures) != 1 {
			return nil
		}
		var to *ethcmn.Address
		if p.To != nil {
			a := ethcmn.BytesToAddress(p.To.Bytes())
			to = &a
		}
		ethTx := ethtypes.NewTx(&ethtypes.LegacyTx{Nonce: p.Nonce, To: to, Value: p.Amount.Value.BigInt(), Gas: uint64(st.Fee.Gas), GasPrice: st.Fee.Price.Value.BigInt(), Data: p.Data})
		if p.ChainID == nil {
			return nil
		}
		signer := ethtypes.NewEIP155Signer(p.ChainID)
		signed, err := ethTx.WithSignature(signer, st.Signatures[0].Signed)
		if err != nil {
			return nil
		}
		from, err := signer.Sender(signed)
		if err != nil {
			return nil
		}
		return []string{keys.Address(from.Bytes()).String()}
	}
	rb := st.RawTx.RawBytes()
	for _, sg := range st.Signatures {
		if addr, ok := libVerify(sg.Signer.KeyType, sg.Signer.Data, rb, sg.Signed); ok {
			out = append(out, addr)
		}
	}
	return out
}
