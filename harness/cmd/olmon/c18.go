package main

import (
	"encoding/json"
	"fmt"
	"math/big"
	"math/rand"
	"os"
	"sort"
	"strings"
	"sync"

	"github.com/ethereum/go-ethereum/accounts/abi"
	ethcmn "github.com/ethereum/go-ethereum/common"
	"github.com/ethereum/go-ethereum/core/types"
	ethcrypto "github.com/ethereum/go-ethereum/crypto"
	"github.com/ethereum/go-ethereum/rlp"

	"github.com/Oneledger/protocol/action"
	ethact "github.com/Oneledger/protocol/action/eth"
	onsact "github.com/Oneledger/protocol/action/ons"
	"github.com/Oneledger/protocol/chains/ethereum/contract"
	onsdata "github.com/Oneledger/protocol/data/ons"
	"github.com/Oneledger/protocol/external_apps/bid/bid_action"
	"github.com/Oneledger/protocol/external_apps/bid/bid_data"

	"olverif/internal/boxcli"
	"olverif/internal/drive"
	"olverif/internal/gen"
	"olverif/internal/hist"
	"olverif/internal/proto"
	"olverif/internal/txb"
	"olverif/internal/verdict"
)

type c18input struct {
	where string // KIND.field or generator name
	trait string
	bytes []byte
}

// c18Prelude: input bytes -> blocks of ordinary transactions executed on the fork before the input is sent (the
// state the input needs in order to get past the first existence checks); inputs of one batch share it.
var c18Prelude sync.Map

// rawInputs: byte strings that are not (complete) transactions.
func rawInputs(rng *rand.Rand, sample []byte) []c18input {
	var out []c18input
	add := func(trait string, b []byte) { out = append(out, c18input{"raw", trait, b}) }
	add("empty", []byte{})
	add("null", []byte("null"))
	add("empty-object", []byte("{}"))
	add("empty-array", []byte("[]"))
	add("number", []byte("12345678901234567890123456789"))
	add("string", []byte(`"hello"`))
	add("type-only", []byte(`{"type":1}`))
	add("type-huge", []byte(`{"type":99999999999999999999}`))
	add("type-negative", []byte(`{"type":-1,"data":"e30="}`))
	add("data-not-base64", []byte(`{"type":1,"data":"!!!","fee":{},"memo":"","signatures":[]}`))
	add("signatures-null", []byte(`{"type":1,"data":"e30=","fee":{"price":{"currency":"OLT","value":"1000000000"},"gas":1},"memo":"m","signatures":null}`))
	add("signature-null-element", []byte(`{"type":1,"data":"e30=","fee":{"price":{"currency":"OLT","value":"1000000000"},"gas":1},"memo":"m","signatures":[null]}`))
	add("deep-nesting", []byte(strings.Repeat("[", 20000)+strings.Repeat("]", 20000)))
	add("deep-object", []byte(strings.Repeat(`{"a":`, 5000)+"1"+strings.Repeat("}", 5000)))
	add("nul-bytes", make([]byte, 64))
	for k := 0; k < 6; k++ {
		b := make([]byte, 1+rng.Intn(300))
		rng.Read(b)
		add(fmt.Sprintf("random-%d", k), b)
	}
	if len(sample) > 10 {
		add("truncated-half", sample[:len(sample)/2])
		add("truncated-last", sample[:len(sample)-1])
		c := append([]byte{}, sample...)
		c[rng.Intn(len(c))] ^= 0xff
		add("byte-flip", c)
		add("doubled", append(append([]byte{}, sample...), sample...))
	}
	for _, t := range []int{1, 0x11, 0x21, 0x30, 0x33, 0x34, 0x35, 0x41, 0x51, 0x52, 0x61, 0x62, 0x63, 0x91, 0x92, 0x93, 0x94, 0x95, 0x101, 0x201, 0x204} {
		// every handler with an empty / null / array payload, unsigned
		for _, p := range []string{"e30=", "bnVsbA==", "W10=", "", "MQ=="} {
			add(fmt.Sprintf("type-%#x-payload-%s", t, p), []byte(fmt.Sprintf(`{"type":%d,"data":"%s","fee":{"price":{"currency":"OLT","value":"1000000000"},"gas":400000},"memo":"m","signatures":[]}`, t, p)))
		}
	}
	return out
}

// outerMutations: JSON-structure mutations of a valid signed transaction.
func outerMutations(kind string, tx []byte) []c18input {
	var out []c18input
	var m map[string]json.RawMessage
	if json.Unmarshal(tx, &m) != nil {
		return nil
	}
	set := func(trait, key, val string) {
		c := map[string]json.RawMessage{}
		for k, v := range m {
			c[k] = v
		}
		c[key] = json.RawMessage(val)
		b, err := json.Marshal(c)
		if err == nil {
			out = append(out, c18input{kind + ".<" + key + ">", trait, b})
		}
	}
	for _, key := range []string{"type", "data", "fee", "memo", "signatures"} {
		set("null", key, "null")
		set("array", key, "[]")
		set("object", key, "{}")
		set("huge-number", key, "1e400")
		set("negative", key, "-1")
		set("string", key, `"x"`)
	}
	set("fee-null-price", "fee", `{"price":null,"gas":1}`)
	set("fee-null-value", "fee", `{"price":{"currency":"OLT","value":null},"gas":1}`)
	set("fee-bad-value", "fee", `{"price":{"currency":"OLT","value":"abc"},"gas":1}`)
	set("fee-negative-gas", "fee", `{"price":{"currency":"OLT","value":"1000000000"},"gas":-9223372036854775808}`)
	set("fee-negative-price", "fee", `{"price":{"currency":"OLT","value":"-1000000000"},"gas":400000}`)
	set("fee-unknown-currency", "fee", `{"price":{"currency":"XYZ","value":"1000000000"},"gas":400000}`)
	set("sig-null-signer", "signatures", `[{"Signer":null,"Signed":"AA=="}]`)
	set("sig-empty-key", "signatures", `[{"Signer":{"keyType":"ed25519","data":""},"Signed":""}]`)
	set("sig-unknown-algo", "signatures", `[{"Signer":{"keyType":"rsa","data":"AA=="},"Signed":"AA=="}]`)
	set("sig-short-secp", "signatures", `[{"Signer":{"keyType":"secp256k1","data":"AAEC"},"Signed":"AA=="}]`)
	set("sig-bad-ethsecp", "signatures", `[{"Signer":{"keyType":"ethsecp","data":"AAEC"},"Signed":"AA=="}]`)
	set("sig-bad-btcec", "signatures", `[{"Signer":{"keyType":"btcecsecp","data":"AAEC"},"Signed":"AA=="}]`)
	set("sig-prehash-tag", "signatures", `[{"Signer":{"keyType":"ed25519","data":"nhr3iOMAVQJEb8nfprQNTpBpMpK4EcEiEMztbdroVyI="},"Signed":"AQIDBAUG"}]`)
	return out
}

var lockABI18, _ = abi.JSON(strings.NewReader(contract.LockRedeemABI))

// ethInputs: correctly signed lock/redeem/report transactions whose embedded
// Ethereum transaction or vote is hostile.
func ethInputs(w *warm, rng *rand.Rand) []c18input {
	var out []c18input
	u := w.w.Users[0]
	key, _ := ethcrypto.ToECDSA(ethcrypto.Keccak256([]byte("c18")))
	sign := func(tx *types.Transaction) []byte {
		s, err := types.SignTx(tx, types.NewEIP155Signer(big.NewInt(4)), key)
		if err != nil {
			return nil
		}
		b, _ := rlp.EncodeToBytes(s)
		return b
	}
	lockData, _ := lockABI18.Pack("lock")
	redeemData, _ := lockABI18.Pack("redeem", big.NewInt(5))
	n := 0
	mk := func(kind string, msg action.Msg) []byte {
		n++
		return txb.Tx(msg, txb.DefaultFee(), fmt.Sprintf("c18-eth-%d", n), u)
	}
	creation := sign(types.NewContractCreation(1, big.NewInt(1000), 100000, big.NewInt(1), lockData))
	noData := sign(types.NewTransaction(2, w.w.EthContract, big.NewInt(1000), 100000, big.NewInt(1), nil))
	shortData := sign(types.NewTransaction(3, w.w.EthContract, big.NewInt(0), 100000, big.NewInt(1), redeemData[:4]))
	otherFn := sign(types.NewTransaction(4, w.w.EthContract, big.NewInt(0), 100000, big.NewInt(1), lockData))
	hugeVal := sign(types.NewTransaction(5, w.w.EthContract, new(big.Int).Lsh(big.NewInt(1), 255), 100000, big.NewInt(1), lockData))
	for _, v := range []struct {
		trait string
		raw   []byte
	}{{"contract-creation-tx", creation}, {"no-call-data", noData}, {"redeem-selector-only", shortData}, {"lock-selector", otherFn}, {"huge-value", hugeVal}, {"empty-rlp", []byte{}}, {"garbage-rlp", []byte{0xf8, 0xff, 0x01}}, {"truncated-rlp", creation[:len(creation)/2]}} {
		out = append(out, c18input{"ETH_LOCK.ETHTxn", v.trait, mk("ETH_LOCK", &ethact.Lock{Locker: u.Addr, ETHTxn: v.raw})})
		out = append(out, c18input{"ETH_REDEEM.ETHTxn", v.trait, mk("ETH_REDEEM", &ethact.Redeem{Owner: u.Addr, To: ethcmn.Address{}, ETHTxn: v.raw})})
		out = append(out, c18input{"ERC20_LOCK.ETHTxn", v.trait, mk("ERC20_LOCK", &ethact.ERC20Lock{Locker: u.Addr, ETHTxn: v.raw})})
		out = append(out, c18input{"ERC20_REDEEM.ETHTxn", v.trait, mk("ERC20_REDEEM", &ethact.ERC20Redeem{Owner: u.Addr, To: ethcmn.Address{}, ETHTxn: v.raw})})
	}
	// finality reports on an existing ongoing tracker with hostile indexes
	var tracker *ethcmn.Hash
	for k := range w.state {
		if strings.HasPrefix(k, "etht_") && len(k) == 5+32 {
			h := ethcmn.BytesToHash([]byte(k[5:]))
			tracker = &h
			break
		}
	}
	if tracker != nil {
		v := w.w.Vals[0]
		for _, idx := range []int64{-1, -9223372036854775808, 4, 64, 9223372036854775807} {
			n++
			msg := &ethact.ReportFinality{TrackerName: *tracker, Locker: u.Addr, ValidatorAddress: v.ValAddr, VoteIndex: idx, Success: true}
			out = append(out, c18input{"ETH_REPORT_FINALITY_MINT.VoteIndex", fmt.Sprintf("index=%d", idx), txb.Tx(msg, txb.DefaultFee(), fmt.Sprintf("c18-rep-%d", n), gen.ConsAccount(v))})
		}
		n++
		out = append(out, c18input{"ETH_REPORT_FINALITY_MINT.Locker", "nil-locker", txb.Tx(&ethact.ReportFinality{TrackerName: *tracker, Locker: nil, ValidatorAddress: v.ValAddr, VoteIndex: 0, Success: true}, txb.DefaultFee(), fmt.Sprintf("c18-rep-%d", n), gen.ConsAccount(v))})
	}
	return out
}

// bidConversationInputs: a name is created and bid on (two prelude blocks), then its owner and the bidder send
// correctly signed moves with hostile amounts into the live conversation.
func bidConversationInputs(w *warm) []c18input {
	var out []c18input
	owner, bidder := w.w.Users[2%len(w.w.Users)], w.w.Users[3%len(w.w.Users)]
	asset := fmt.Sprintf("c18bid%d.ol", w.h)
	// the prelude blocks get the fork's next two heights
	deadline := w.w.P.GenesisTime.Unix() + 10*365*24*3600 // far in the future on every chain
	born := w.h + 2
	create := txb.Tx(&onsact.DomainCreate{Owner: owner.Addr, Beneficiary: owner.Addr, Name: onsdata.GetNameFromString(asset), BuyingPrice: txb.Amt("OLT", "2000000000000000000000")}, txb.DefaultFee(), fmt.Sprintf("c18-bid-asset-%d", w.h), owner)
	first := txb.Tx(&bid_action.CreateBid{AssetOwner: owner.Addr, AssetName: asset, AssetType: bid_data.BidAssetOns, Bidder: bidder.Addr, Amount: txb.Amt("OLT", "10000000000000000000"), Deadline: deadline}, txb.DefaultFee(), fmt.Sprintf("c18-bid-first-%d", w.h), bidder)
	conv := bid_data.NewBidConv(owner.Addr, asset, bid_data.BidAssetOns, bidder.Addr, deadline, born).BidConvId
	prelude := [][][]byte{{create}, {first}}
	n := 0
	for _, cur := range []string{"ETH", "TTC", "BTC", "VT", "XYZ", "", "OLT"} {
		for _, val := range []string{"20000000000000000000", "0", "-5", "10000000000000000000"} {
			n++
			am := action.Amount{Currency: cur, Value: txb.Amt("OLT", val).Value}
			out = append(out, c18input{"BID_CONTER_OFFER.<live conversation>", fmt.Sprintf("amount=%s %q", val, cur), txb.Tx(&bid_action.CounterOffer{BidConvId: conv, AssetOwner: owner.Addr, Amount: am}, txb.DefaultFee(), fmt.Sprintf("c18-bid-co-%d-%d", w.h, n), owner)})
			c18Prelude.Store(string(out[len(out)-1].bytes), prelude)
			n++
			out = append(out, c18input{"BID_CREATE.<live conversation>", fmt.Sprintf("rebid amount=%s %q", val, cur), txb.Tx(&bid_action.CreateBid{BidConvId: conv, Bidder: bidder.Addr, Amount: am}, txb.DefaultFee(), fmt.Sprintf("c18-bid-re-%d-%d", w.h, n), bidder)})
			c18Prelude.Store(string(out[len(out)-1].bytes), prelude)
		}
	}
	// the same follow-up offers when the owner's counter offer is the active one (the new offer is compared with it)
	counter := txb.Tx(&bid_action.CounterOffer{BidConvId: conv, AssetOwner: owner.Addr, Amount: txb.Amt("OLT", "30000000000000000000")}, txb.DefaultFee(), fmt.Sprintf("c18-bid-counter-%d", w.h), owner)
	prelude2 := [][][]byte{{create}, {first}, {counter}}
	for _, cur := range []string{"ETH", "TTC", "BTC", "VT", "XYZ", "", "OLT"} {
		for _, val := range []string{"20000000000000000000", "0", "40000000000000000000"} {
			n++
			am := action.Amount{Currency: cur, Value: txb.Amt("OLT", val).Value}
			out = append(out, c18input{"BID_CREATE.<conversation with a counter offer>", fmt.Sprintf("rebid amount=%s %q", val, cur), txb.Tx(&bid_action.CreateBid{BidConvId: conv, Bidder: bidder.Addr, Amount: am}, txb.DefaultFee(), fmt.Sprintf("c18-bid-re2-%d-%d", w.h, n), bidder)})
			c18Prelude.Store(string(out[len(out)-1].bytes), prelude2)
			n++
			out = append(out, c18input{"BID_BIDDER_DECISION.<conversation with a counter offer>", fmt.Sprintf("decision after amount=%s %q", val, cur), txb.Tx(&bid_action.BidderDecision{BidConvId: conv, Bidder: bidder.Addr, Decision: bid_data.BidDecision(1 + n%2)}, txb.DefaultFee(), fmt.Sprintf("c18-bid-dec-%d-%d", w.h, n), bidder)})
			c18Prelude.Store(string(out[len(out)-1].bytes), prelude2)
		}
	}
	return out
}

// configChangeInputs: a configuration proposal with a hostile value is created, funded, voted through by every
// validator and given time to be finalised (six prelude blocks; the option validation should refuse it at
// creation), then ordinary, correctly signed transactions that use the option arrive.
func configChangeInputs(w *warm) []c18input {
	var out []c18input
	u := w.w.Users[1%len(w.w.Users)]
	for k, upd := range []string{"onsOptions.perBlockFees:0", "onsOptions.perBlockFees:-1", "onsOptions.baseDomainPrice:-1", "feeOption.minFeeDecimal:-1", "feeOption.minFeeDecimal:40", "evidenceOptions.penaltyBasePercentage:0", "stakingOptions.topValidatorCount:0", "rewardOptions.rewardInterval:0"} {
		prelude := gen.ConfigProposalBlocks(w.w, w.state, w.h, fmt.Sprintf("c18-%d-%d", w.h, k), upd)
		name := fmt.Sprintf("c18cfg%dx%d.ol", w.h, k)
		create := txb.Tx(&onsact.DomainCreate{Owner: u.Addr, Beneficiary: u.Addr, Name: onsdata.GetNameFromString(name), BuyingPrice: txb.Amt("OLT", "2000000000000000000000")}, txb.DefaultFee(), fmt.Sprintf("c18-cfg-create-%d-%d", w.h, k), u)
		out = append(out, c18input{"DOMAIN_CREATE.<after a configuration proposal>", upd, create})
		c18Prelude.Store(string(create), prelude)
		send := txb.Tx(txb.Send(u.Addr, w.w.Users[0].Addr, "OLT", "5"), txb.DefaultFee(), fmt.Sprintf("c18-cfg-send-%d-%d", w.h, k), u)
		out = append(out, c18input{"SEND.<after a configuration proposal>", upd, send})
		c18Prelude.Store(string(send), prelude)
	}
	return out
}

// signedFeeInputs: correctly signed transactions (two kinds) whose fee is hostile: the fee is part of the
// signed content, so these pass the signature check and reach fee validation and fee charging.
func signedFeeInputs(w *warm) []c18input {
	var out []c18input
	u := w.w.Users[0]
	n := 0
	big1 := new(big.Int).Lsh(big.NewInt(1), 200)
	type fv struct {
		trait string
		cur   string
		val   *big.Int
		gas   int64
	}
	var fvs []fv
	for _, cur := range []string{"", "VT", "ETH", "XYZ", "olt", " OLT"} {
		for _, val := range []*big.Int{big.NewInt(1000000000), big.NewInt(0), big1} {
			fvs = append(fvs, fv{fmt.Sprintf("currency=%q,price=%s", cur, cut(val.String(), 12)), cur, val, 400000})
		}
	}
	for _, val := range []*big.Int{big.NewInt(0), big.NewInt(-1000000000), big1, new(big.Int).Neg(big1)} {
		fvs = append(fvs, fv{"currency=OLT,price=" + cut(val.String(), 12), "OLT", val, 400000})
	}
	for _, gas := range []int64{0, -1, 1, 9223372036854775807, -9223372036854775808} {
		fvs = append(fvs, fv{fmt.Sprintf("gas=%d", gas), "OLT", big.NewInt(1000000000), gas})
	}
	for _, f := range fvs {
		fee := action.Fee{Price: action.Amount{Currency: f.cur, Value: *balanceAmount(f.val)}, Gas: f.gas}
		n++
		out = append(out, c18input{"SEND.<signed fee>", f.trait, txb.Tx(txb.Send(u.Addr, w.w.Users[1].Addr, "OLT", "5"), fee, fmt.Sprintf("c18-fee-%d", n), u)})
		n++
		out = append(out, c18input{"DOMAIN_CREATE.<signed fee>", f.trait, txb.Tx(&onsact.DomainCreate{Owner: u.Addr, Beneficiary: u.Addr, Name: onsdata.GetNameFromString(fmt.Sprintf("c18fee%d.ol", n)), BuyingPrice: txb.Amt("OLT", "1000000")}, fee, fmt.Sprintf("c18-fee-%d", n), u)})
	}
	return out
}

// truncationSweep: a genuine lock and a genuine redeem Ethereum transaction cut at every byte length (the
// raw bytes, and the call data inside a re-signed transaction), carried by correctly signed lock/redeem
// transactions of the four kinds.
func truncationSweep(w *warm) []c18input {
	var out []c18input
	u := w.w.Users[0]
	key, _ := ethcrypto.ToECDSA(ethcrypto.Keccak256([]byte("c18-trunc")))
	sign := func(tx *types.Transaction) []byte {
		s, err := types.SignTx(tx, types.NewEIP155Signer(big.NewInt(4)), key)
		if err != nil {
			return nil
		}
		b, _ := rlp.EncodeToBytes(s)
		return b
	}
	n := 0
	mk := func(msg action.Msg) []byte {
		n++
		return txb.Tx(msg, txb.DefaultFee(), fmt.Sprintf("c18-trunc-%d", n), u)
	}
	redeemData, _ := lockABI18.Pack("redeem", big.NewInt(5))
	erc20ABI, _ := abi.JSON(strings.NewReader(contract.ERC20BasicABI))
	transferData, _ := erc20ABI.Pack("transfer", w.w.EthContract, big.NewInt(77))
	fullRedeem := sign(types.NewTransaction(7, w.w.EthContract, big.NewInt(0), 100000, big.NewInt(1), redeemData))
	fullTransfer := sign(types.NewTransaction(8, w.w.EthContract, big.NewInt(0), 100000, big.NewInt(1), transferData))
	ercABI, _ := abi.JSON(strings.NewReader(contract.LockRedeemERCABI))
	ercRedeemData, _ := ercABI.Pack("redeem", big.NewInt(9), w.w.EthContract)
	fullErcRedeem := sign(types.NewTransaction(11, w.w.EthContract, big.NewInt(0), 100000, big.NewInt(1), ercRedeemData))
	add := func(trait string, raw []byte) {
		out = append(out, c18input{"ETH_REDEEM.ETHTxn", trait, mk(&ethact.Redeem{Owner: u.Addr, To: ethcmn.Address{}, ETHTxn: raw})})
		out = append(out, c18input{"ERC20_REDEEM.ETHTxn", trait, mk(&ethact.ERC20Redeem{Owner: u.Addr, To: ethcmn.Address{}, ETHTxn: raw})})
		out = append(out, c18input{"ERC20_LOCK.ETHTxn", trait, mk(&ethact.ERC20Lock{Locker: u.Addr, ETHTxn: raw})})
		out = append(out, c18input{"ETH_LOCK.ETHTxn", trait, mk(&ethact.Lock{Locker: u.Addr, ETHTxn: raw})})
	}
	// well-formed token transactions that do not do what the OneLedger message says: sent to the token
	// contract, but transferring to somebody else than the lock contract, by another method, with no data
	tok := ethcmn.HexToAddress("0x00000000000000000000000000000000000c0de3")
	ercLock := ethcmn.HexToAddress("0x00000000000000000000000000000000000c0de2")
	elsewhere, _ := erc20ABI.Pack("transfer", ethcmn.HexToAddress("0x00000000000000000000000000000000000dead1"), big.NewInt(77))
	toLock, _ := erc20ABI.Pack("transfer", ercLock, big.NewInt(77))
	zeroAmt, _ := erc20ABI.Pack("transfer", ercLock, big.NewInt(0))
	hugeAmt, _ := erc20ABI.Pack("transfer", ercLock, new(big.Int).Lsh(big.NewInt(1), 255))
	for k, v := range []struct {
		trait string
		to    ethcmn.Address
		data  []byte
	}{
		{"token-transfer-to-somebody-else", tok, elsewhere},
		{"token-transfer-to-the-lock-contract", tok, toLock},
		{"token-transfer-of-nothing", tok, zeroAmt},
		{"token-transfer-of-2^255", tok, hugeAmt},
		{"token-call-without-data", tok, nil},
		{"token-call-selector-only", tok, elsewhere[:4]},
		{"token-transfer-with-trailing-bytes", tok, append(append([]byte{}, toLock...), 1, 2, 3)},
		{"erc-lock-contract-called-with-token-transfer", ercLock, toLock},
		{"eth-contract-called-with-erc-redeem", w.w.EthContract, ercRedeemData},
		{"token-called-with-erc-redeem", tok, ercRedeemData},
		{"erc-lock-contract-called-with-erc-redeem-of-unknown-token", ercLock, func() []byte {
			d, _ := ercABI.Pack("redeem", big.NewInt(9), ethcmn.HexToAddress("0x00000000000000000000000000000000000dead2"))
			return d
		}()},
		{"erc-lock-contract-called-with-erc-redeem", ercLock, func() []byte { d, _ := ercABI.Pack("redeem", big.NewInt(9), tok); return d }()},
	} {
		add(v.trait, sign(types.NewTransaction(uint64(40+k), v.to, big.NewInt(0), 100000, big.NewInt(1), v.data)))
	}
	for _, full := range []struct {
		name string
		raw  []byte
		data []byte
		nc   uint64
	}{{"redeem", fullRedeem, redeemData, 9}, {"erc20-transfer", fullTransfer, transferData, 10}, {"erc20-redeem", fullErcRedeem, ercRedeemData, 12}} {
		for l := 1; l < len(full.raw); l += 1 + l/48 {
			add(fmt.Sprintf("%s-raw-cut-at-%d", full.name, l), full.raw[:l])
		}
		for l := 0; l < len(full.data); l += 1 + l/24 {
			add(fmt.Sprintf("%s-calldata-cut-at-%d", full.name, l), sign(types.NewTransaction(full.nc, w.w.EthContract, big.NewInt(0), 100000, big.NewInt(1), full.data[:l])))
		}
	}
	return out
}

// olvmInputs: correctly signed OLVM transactions with hostile programs/fields.
func olvmInputs(w *warm) []c18input {
	var out []c18input
	if len(w.w.EthUsers) == 0 {
		return nil
	}
	e := w.w.EthUsers[0]
	key := w.w.EthKeys[e.Addr.String()]
	nonce, _ := gen.KeeperNonce(w.state, e.Addr)
	c := &gen.Ctx{W: w.w}
	chain := gen.ChainIDOf(w.w)
	progs := []struct {
		trait string
		code  []byte
	}{
		{"init-BASEFEE", []byte{0x48, 0x50, 0x00}},
		{"init-BLOCKHASH", []byte{0x60, 0x01, 0x40, 0x50, 0x00}},
		{"init-BLOCKHASH-future", []byte{0x61, 0xff, 0xff, 0x40, 0x50, 0x00}},
		{"init-env-opcodes", []byte{0x41, 0x50, 0x42, 0x50, 0x43, 0x50, 0x44, 0x50, 0x45, 0x50, 0x46, 0x50, 0x47, 0x50, 0x3a, 0x50, 0x32, 0x50, 0x00}},
		{"init-invalid-opcode", []byte{0xfe}},
		{"init-selfdestruct", []byte{0x33, 0xff}},
		{"init-huge-memory", []byte{0x60, 0x01, 0x7f, 0xff, 0xff, 0xff, 0xff, 0xff, 0xff, 0xff, 0xff, 0xff, 0xff, 0xff, 0xff, 0xff, 0xff, 0xff, 0xff, 0xff, 0xff, 0xff, 0xff, 0xff, 0xff, 0xff, 0xff, 0xff, 0xff, 0xff, 0xff, 0xff, 0xff, 0xff, 0xff, 0x52}},
		{"init-create-loop", []byte{0x5b, 0x60, 0x00, 0x60, 0x00, 0x60, 0x00, 0xf0, 0x50, 0x60, 0x00, 0x56}},
		{"init-precompiles", []byte{0x60, 0x00, 0x60, 0x00, 0x60, 0x00, 0x60, 0x00, 0x60, 0x00, 0x60, 0x09, 0x5a, 0xf1, 0x50, 0x60, 0x00, 0x60, 0x00, 0x60, 0x00, 0x60, 0x00, 0x60, 0x00, 0x60, 0x08, 0x5a, 0xf1, 0x00}},
		{"init-returns-large-code", []byte{0x61, 0x70, 0x00, 0x60, 0x00, 0xf3}},
	}
	for i, p := range progs {
		bz := gen.OLVMTx(c, e, key, nonce, nil, big.NewInt(0), p.code, 300000, "1000000000", chain, fmt.Sprint(nonce))
		out = append(out, c18input{"OLVM.Data", p.trait, bz})
		_ = i
	}
	// nested frames: the constructor starts an inner creation frame that pays a fresh address, touches existing
	// accounts for the first time in the transaction and then fails; the outer frame touches them again
	{
		x := ethcmn.BytesToAddress(w.w.EthUsers[1%len(w.w.EthUsers)].Addr)
		y := ethcmn.BytesToAddress(w.w.Users[0].Addr)
		push20 := func(a ethcmn.Address) []byte { return append([]byte{0x73}, a.Bytes()...) }
		cat := func(parts ...[]byte) []byte {
			var b []byte
			for _, q := range parts {
				b = append(b, q...)
			}
			return b
		}
		pay := func(a ethcmn.Address) []byte {
			return cat([]byte{0x60, 0x00, 0x60, 0x00, 0x60, 0x00, 0x60, 0x00, 0x60, 0x01}, push20(a), []byte{0x5a, 0xf1, 0x50})
		}
		for k, end := range [][]byte{{0x60, 0x00, 0x60, 0x00, 0xfd}, {0xfe}, {0x5b, 0x60, 0x00, 0x56}, {0x00}} {
			fresh := ethcmn.BytesToAddress(ethcrypto.Keccak256([]byte(fmt.Sprintf("c18-fresh-%d-%d", w.seed, k)))[12:])
			fresh2 := ethcmn.BytesToAddress(ethcrypto.Keccak256([]byte(fmt.Sprintf("c18-fresh2-%d-%d", w.seed, k)))[12:])
			inner := cat(pay(fresh), push20(x), []byte{0x31, 0x50}, pay(fresh2), push20(y), []byte{0x3b, 0x50}, pay(x), end)
			tail := cat(push20(x), []byte{0x31, 0x50}, pay(x), push20(y), []byte{0x31, 0x50}, pay(y), pay(fresh), []byte{0x00})
			// PUSH2 len PUSH2 off PUSH1 0 CODECOPY ; PUSH2 len PUSH1 0 PUSH1 10 CREATE POP ; tail ; inner as data
			n := len(inner)
			head := func(off int) []byte {
				return cat([]byte{0x61, byte(n >> 8), byte(n), 0x61, byte(off >> 8), byte(off), 0x60, 0x00, 0x39, 0x61, byte(n >> 8), byte(n), 0x60, 0x00, 0x60, 0x0a, 0xf0, 0x50}, tail)
			}
			off := len(head(0))
			code := cat(head(off), inner)
			bz := gen.OLVMTx(c, e, key, nonce, nil, big.NewInt(1000), code, 900000, "1000000000", chain, fmt.Sprint(nonce))
			out = append(out, c18input{"OLVM.Data", []string{"nested-frame-reverts", "nested-frame-invalid", "nested-frame-out-of-gas", "nested-frame-succeeds"}[k] + "-after-creating-and-touching-accounts", bz})
		}
	}
	// a deployed contract that calls itself, lets the inner frame fail after it touched the contract's storage,
	// and goes on using that storage (try / catch / retry); also with the inner frame succeeding
	{
		e2 := w.w.EthUsers[2%len(w.w.EthUsers)]
		key2 := w.w.EthKeys[e2.Addr.String()]
		n2, _ := gen.KeeperNonce(w.state, e2.Addr)
		for k, innerEnd := range [][]byte{{0x60, 0x00, 0x60, 0x00, 0xfd}, {0xfe}, {0x00}} {
			// CALLDATASIZE PUSH1 0x17 JUMPI | outer: CALL(self, 1 byte of calldata) POP SLOAD(0) POP SSTORE(1,1)... STOP | inner: JUMPDEST SLOAD(0) POP SSTORE(0,7) <end>
			outer := []byte{0x36, 0x60, 0x1d, 0x57, 0x60, 0x00, 0x60, 0x00, 0x60, 0x01, 0x60, 0x00, 0x60, 0x00, 0x30, 0x5a, 0xf1, 0x50, 0x60, 0x00, 0x54, 0x50, 0x60, 0x01, 0x60, 0x01, 0x55, 0x60, 0x00, 0x54, 0x50, 0x00}
			outer[2] = byte(len(outer))
			inner := append([]byte{0x5b, 0x60, 0x00, 0x54, 0x50, 0x60, 0x07, 0x60, 0x00, 0x55}, innerEnd...)
			runtime := append(append([]byte{}, outer...), inner...)
			nn := byte(len(runtime))
			init := append([]byte{0x60, nn, 0x60, 12, 0x60, 0, 0x39, 0x60, nn, 0x60, 0, 0xf3}, runtime...)
			deploy := gen.OLVMTx(c, e2, key2, n2, nil, big.NewInt(0), init, 300000, "1000000000", chain, fmt.Sprint(n2))
			addr := ethcrypto.CreateAddress(ethcmn.BytesToAddress(e2.Addr), n2)
			call := gen.OLVMTx(c, e2, key2, n2+1, &addr, big.NewInt(0), nil, 200000+int64(k), "1000000000", chain, fmt.Sprint(n2+1))
			out = append(out, c18input{"OLVM.<call of a deployed contract>", []string{"inner-frame-reverts", "inner-frame-invalid", "inner-frame-succeeds"}[k] + "-after-touching-the-contract's-own-storage", call})
			c18Prelude.Store(string(call), [][][]byte{{deploy}})
		}
	}
	// hostile fields around a plain transfer
	to := ethcmn.BytesToAddress(w.w.EthUsers[1].Addr)
	// the price currency is the one fee field the EVM-style signature does not cover: a valid transfer with
	// the currency replaced keeps its valid signature
	for _, cur := range []string{"", "VT", "ETH", "XYZ", "olt"} {
		st := &action.SignedTx{}
		if json.Unmarshal(gen.OLVMTx(c, e, key, nonce, &to, big.NewInt(1), nil, 21000, "1000000000", chain, fmt.Sprint(nonce)), st) == nil {
			st.Fee.Price.Currency = cur
			out = append(out, c18input{"OLVM.Fee", fmt.Sprintf("price-currency=%q", cur), st.SignedBytes()})
		}
	}
	out = append(out, c18input{"OLVM.Nonce", "nonce-ahead", gen.OLVMTx(c, e, key, nonce+5, &to, big.NewInt(1), nil, 21000, "1000000000", chain, fmt.Sprint(nonce+5))})
	out = append(out, c18input{"OLVM.Nonce", "nonce-max", gen.OLVMTx(c, e, key, ^uint64(0), &to, big.NewInt(1), nil, 21000, "1000000000", chain, fmt.Sprint(^uint64(0)))})
	out = append(out, c18input{"OLVM.ChainID", "wrong-chain", gen.OLVMTx(c, e, key, nonce, &to, big.NewInt(1), nil, 21000, "1000000000", big.NewInt(1), fmt.Sprint(nonce))})
	out = append(out, c18input{"OLVM.Amount", "huge-value", gen.OLVMTx(c, e, key, nonce, &to, new(big.Int).Lsh(big.NewInt(1), 255), nil, 21000, "1000000000", chain, fmt.Sprint(nonce))})
	out = append(out, c18input{"OLVM.Fee", "gas-zero", gen.OLVMTx(c, e, key, nonce, &to, big.NewInt(1), nil, 0, "1000000000", chain, fmt.Sprint(nonce))})
	out = append(out, c18input{"OLVM.Fee", "gas-huge", gen.OLVMTx(c, e, key, nonce, &to, big.NewInt(1), nil, 9000000000000000000, "1000000000", chain, fmt.Sprint(nonce))})
	// structural: chainID null / to empty / amount null (unsigned fields do not matter for crashes)
	good := gen.OLVMTx(c, e, key, nonce, &to, big.NewInt(1), nil, 21000, "1000000000", chain, fmt.Sprint(nonce))
	st := &action.SignedTx{}
	if json.Unmarshal(good, st) == nil {
		var p map[string]interface{}
		if json.Unmarshal(st.Data, &p) == nil {
			for _, f := range []string{"chainID", "to", "amount", "from", "data", "accessList", "nonce"} {
				for _, v := range []struct {
					t string
					v interface{}
				}{{"null", nil}, {"string", "x"}, {"negative", -1}, {"array", []int{}}} {
					q := map[string]interface{}{}
					for k, x := range p {
						q[k] = x
					}
					q[f] = v.v
					bz, _ := json.Marshal(q)
					st2 := *st
					st2.Data = bz
					out = append(out, c18input{"OLVM." + f, v.t, st2.SignedBytes()})
				}
			}
		}
	}
	return out
}

// runBatch executes inputs on one fork: CheckTx each, then all in one
// byzantine block, then a liveness probe. It reports whether the node survived.
type batchOut struct {
	dead   bool
	phase  string
	idx    int
	panick bool
	tail   string
	live   bool
	err    error
	exit   int
	sig    string
}

func (wm *warm) runBatch(inputs []c18input, doCheck, doDeliver bool) *batchOut {
	o := &batchOut{idx: -1}
	b, dir, err := wm.fork()
	defer os.RemoveAll(dir)
	if err != nil {
		o.err = err
		return o
	}
	defer b.Kill()
	fail := func(phase string, idx int) *batchOut {
		o.dead, o.phase, o.idx = true, phase, idx
		o.tail = b.LogTail(3000)
		o.exit, o.sig = b.ExitCode, b.Signal
		return o
	}
	if len(inputs) > 0 {
		var pre [][][]byte
		if v, ok := c18Prelude.Load(string(inputs[0].bytes)); ok {
			pre = v.([][][]byte)
		}
		for _, blockTxs := range pre {
			resp, err := b.Block(&proto.Recipe{DtMs: 5000, Txs: blockTxs})
			if err != nil || resp.Err != "" || resp.ApplyErr != "" {
				o.err = fmt.Errorf("prelude block failed: %v", err)
				return o
			}
		}
	}
	if doCheck {
		for i, in := range inputs {
			resp, err := b.Check(in.bytes)
			if err != nil {
				if err == boxcli.ErrTimeout {
					o.err = err
					return o
				}
				return fail("CheckTx", i)
			}
			if resp.Panicked {
				o.panick = true
				return fail("CheckTx", i)
			}
			if d := os.Getenv("DEBUG_C18"); d != "" && strings.Contains(in.where, d) {
				for _, c := range resp.Calls {
					if c.M == "CheckTx" {
						fmt.Printf("DEBUG %s %s check=%d %s\n", in.where, in.trait, c.Code, cut(c.Log, 140))
					}
				}
			}
		}
	}
	if doDeliver {
		var txs [][]byte
		for _, in := range inputs {
			txs = append(txs, in.bytes)
		}
		resp, err := b.Block(&proto.Recipe{DtMs: 5000, Txs: txs})
		if err != nil {
			if err == boxcli.ErrTimeout {
				o.err = err
				return o
			}
			return fail("DeliverTx", -1)
		}
		if resp.Panicked {
			o.panick = true
			return fail("DeliverTx", -1)
		}
		if resp.Err != "" {
			o.err = fmt.Errorf("harness could not build the block: %s", resp.Err)
			return o
		}
		if resp.ApplyErr != "" {
			return fail("DeliverTx(apply:"+cut(resp.ApplyErr, 60)+")", -1)
		}
		// one more empty block: hooks must still run
		resp, err = b.Block(&proto.Recipe{DtMs: 5000})
		if err != nil || resp.Panicked || resp.ApplyErr != "" {
			return fail("next-block", -1)
		}
	}
	// liveness: a plain transfer behaves as before
	u := wm.w.Users[1]
	ltx := txb.Tx(txb.Send(u.Addr, wm.w.Users[2].Addr, "VT", "1"), txb.DefaultFee(), fmt.Sprintf("c18-live-%d", wm.n), u)
	resp, err := b.Check(ltx)
	if err != nil || resp.Panicked {
		return fail("liveness-check", -1)
	}
	code := uint32(99)
	for _, c := range resp.Calls {
		if c.M == "CheckTx" {
			code = c.Code
		}
	}
	if code != 0 {
		return fail("liveness-check(code)", -1)
	}
	resp, err = b.Block(&proto.Recipe{DtMs: 5000, Txs: [][]byte{ltx}})
	if err != nil || resp.Panicked {
		return fail("liveness-block", -1)
	}
	for _, c := range resp.Calls {
		if c.M == "DeliverTx" && c.Code == 0 {
			o.live = true
		}
	}
	if !o.live {
		return fail("liveness-block(code)", -1)
	}
	return o
}

func checkC18(tier string) int {
	r := verdict.New("C18", tier, "exploration")
	r.Rule = "inputs from four generators — (i) correctly signed transactions of every kind with one semantically hostile field (amount, currency, address, index, null), (ii) JSON-structure mutations of valid signed transactions, (iii) raw byte strings and unsigned skeletons for every handler, (iv) correctly signed lock/redeem/report transactions with hostile embedded Ethereum transactions and OLVM transactions with hostile programs and fields — are sent to forks of warmed-up chains in batches: CheckTx each, then all together in one byzantine block, one more block, then a plain transfer that must still be admitted and executed; a batch whose node exits, prints the panic marker or stops behaving is re-run one input at a time (CheckTx only, then delivery only) to attribute it; the verdict is taken from outside the process (exit status, marker, liveness); non-trivial = every input; distinct by input bytes"
	r.Assumptions = []string{"process death, the 'panic in controller' marker and the liveness probe are observed from outside the node process"}
	seed := verdict.Seed()
	heights := []int{11, 19}
	per := 3
	if tier == "thorough" {
		heights = []int{6, 10, 15, 21, 28, 36}
		per = 8
	}
	var warms []*warm
	var wmu sync.Mutex
	// a node that dies while executing the ordinary traffic of a warm-up chain died of an input all the same
	var fmu sync.Mutex
	decided := map[int64]bool{}
	onWarmFail = func(ws int64, res *drive.Result) {
		if _, isBox := res.Err.(*hist.BoxError); isBox {
			fmu.Lock()
			decided[ws] = true
			fmu.Unlock()
			reportRunErr(r, "C18", ws, res)
		}
	}
	defer func() { onWarmFail = nil }()
	parallel(len(heights), 6, func(i int) {
		wm, err := makeWarm(seed*100+int64(i)+70, heights[i], 1, allScripts)
		if err != nil {
			fmu.Lock()
			d := decided[seed*100+int64(i)+70]
			fmu.Unlock()
			if !d {
				r.Inconclusive(fmt.Sprintf("warm-up chain %d failed: %v", i, err))
			}
			return
		}
		wmu.Lock()
		warms = append(warms, wm)
		wmu.Unlock()
	})
	type batch struct {
		wm *warm
		in []c18input
	}
	var batches []batch
	total := 0
	for wi, wm := range warms {
		rng := rand.New(rand.NewSource(wm.seed * 3))
		var inputs []c18input
		seenKind := map[string]int{}
		var sample []byte
		for _, base := range wm.planned {
			if seenKind[base.Kind] >= 1 {
				continue
			}
			seenKind[base.Kind]++
			if sample == nil && base.Kind == "SEND" {
				sample = base.Bytes
			}
			for _, hv := range wm.hostileVariants(base, rng, per) {
				inputs = append(inputs, c18input{hv.Kind + "." + hv.Field, hv.Trait, hv.Spec.Bytes})
			}
			if wi == 0 || tier == "thorough" {
				inputs = append(inputs, outerMutations(base.Kind, base.Bytes)...)
			}
		}
		inputs = append(inputs, ethInputs(wm, rng)...)
		inputs = append(inputs, olvmInputs(wm)...)
		inputs = append(inputs, signedFeeInputs(wm)...)
		inputs = append(inputs, bidConversationInputs(wm)...)
		inputs = append(inputs, configChangeInputs(wm)...)
		if wi == 0 || tier == "thorough" {
			inputs = append(inputs, truncationSweep(wm)...)
		}
		if wi == 0 || tier == "thorough" {
			inputs = append(inputs, rawInputs(rng, sample)...)
		}
		total += len(inputs)
		// group by generator family so that a batch's failure is cheap to bisect
		sort.SliceStable(inputs, func(i, j int) bool { return inputs[i].where < inputs[j].where })
		// (a batch shares the prelude blocks of its first input: inputs with different preludes are not mixed)
		preludeKey := func(in c18input) string {
			v, ok := c18Prelude.Load(string(in.bytes))
			if !ok {
				return ""
			}
			k := ""
			for _, blk := range v.([][][]byte) {
				for _, tx := range blk {
					k += fmt.Sprintf("%x/", ethcrypto.Keccak256(tx)[:6])
				}
			}
			return k
		}
		for i := 0; i < len(inputs); {
			j := i + 1
			for j < len(inputs) && j < i+8 && preludeKey(inputs[j]) == preludeKey(inputs[i]) {
				j++
			}
			batches = append(batches, batch{wm, inputs[i:j]})
			i = j
		}
	}
	r.Gate("inputs", 300)
	report := func(wm *warm, in c18input, o *batchOut) {
		how := "died"
		switch {
		case strings.Contains(o.tail, "panic in controller"):
			how = "panic-app-closed"
		case o.exit == 1 && strings.Contains(strings.ToUpper(o.tail), "FATAL"):
			how = "fatal-exit"
		case strings.HasPrefix(o.phase, "liveness"):
			how = "stopped-serving"
		case strings.HasPrefix(o.phase, "DeliverTx(apply"):
			how = "block-refused"
		}
		phase := o.phase
		if i := strings.Index(phase, "("); i > 0 && !strings.HasPrefix(phase, "DeliverTx(apply") {
			phase = phase[:i]
		}
		r.Violate(verdict.Violation{Signature: "C18/" + how + "/" + in.where + "/" + in.trait + "@" + phaseClass(phase), What: fmt.Sprintf("input %s (%s) at %s on a fork of a warmed-up chain (height %d): node %s (exit=%d signal=%s): %s", in.where, in.trait, o.phase, wm.h, how, o.exit, o.sig, crashLine(o.tail)), Witness: map[string]interface{}{"warm_seed": wm.seed, "warm_height": wm.h, "input": string(in.bytes), "phase": o.phase, "log": cut(o.tail, 1500)}})
	}
	parallel(len(batches), 14, func(i int) {
		bt := batches[i]
		o := bt.wm.runBatch(bt.in, true, true)
		for _, in := range bt.in {
			r.Case(string(in.bytes), true)
			r.Count("inputs", 1)
			r.Count("gen:"+strings.SplitN(in.where, ".", 2)[0], 1)
		}
		if o.err != nil {
			r.Diag(fmt.Sprintf("batch %d: %v", i, o.err))
			return
		}
		if !o.dead {
			return
		}
		r.Count("batches_bisected", 1)
		// attribute: each input alone, CheckTx only, then delivery only
		found := false
		for _, in := range bt.in {
			oc := bt.wm.runBatch([]c18input{in}, true, false)
			if oc.err == nil && oc.dead {
				report(bt.wm, in, oc)
				found = true
				continue
			}
			od := bt.wm.runBatch([]c18input{in}, false, true)
			if od.err == nil && od.dead {
				report(bt.wm, in, od)
				found = true
			}
		}
		if !found {
			// only the combination fails: report the batch as a whole
			var names []string
			for _, in := range bt.in {
				names = append(names, in.where+"/"+in.trait)
			}
			r.Violate(verdict.Violation{Signature: "C18/batch/" + bt.in[0].where, What: fmt.Sprintf("a batch of %d inputs (%v) makes the node fail at %s although each input alone does not: %s", len(bt.in), names, o.phase, crashLine(o.tail)), Witness: map[string]interface{}{"warm_seed": bt.wm.seed, "warm_height": bt.wm.h, "phase": o.phase, "log": cut(o.tail, 1500)}})
		}
	})
	if len(batches) > 0 {
		r.Sample(map[string]interface{}{"where": batches[0].in[0].where, "trait": batches[0].in[0].trait, "input": cut(string(batches[0].in[0].bytes), 300)})
		last := batches[len(batches)-1].in[0]
		r.Sample(map[string]interface{}{"where": last.where, "trait": last.trait, "input": cut(string(last.bytes), 300)})
	}
	return r.Finish()
}

func phaseClass(p string) string {
	switch {
	case strings.HasPrefix(p, "CheckTx"):
		return "CheckTx"
	case strings.HasPrefix(p, "DeliverTx"), strings.HasPrefix(p, "next-block"):
		return "DeliverTx"
	}
	return "after"
}

// crashLine extracts the most telling line of a log tail.
func crashLine(tail string) string {
	for _, l := range strings.Split(tail, "\n") {
		if strings.Contains(l, "panic in controller") || strings.Contains(l, "panic:") || strings.Contains(l, "FATAL") || strings.Contains(l, "fatal error") {
			return cut(strings.TrimSpace(l), 200)
		}
	}
	ls := strings.Split(strings.TrimSpace(tail), "\n")
	if len(ls) > 0 {
		return cut(ls[len(ls)-1], 200)
	}
	return ""
}

var _ = hist.Hex
