package main

import (
	"encoding/json"
	"fmt"
	"os"

	"olverif/internal/boxcli"
	"olverif/internal/drive"
	"olverif/internal/proto"
	"olverif/internal/txb"
	"olverif/internal/world"
)

func main() {
	if len(os.Args) > 1 && os.Args[1] == "smoke" {
		smoke()
		return
	}
	if len(os.Args) > 1 && os.Args[1] == "try" {
		try(os.Args[2:])
		return
	}
	if len(os.Args) > 3 && os.Args[1] == "check" {
		if len(os.Args) > 5 && os.Args[4] == "--replay" {
			// a replay file names the seeded run that produced the violation; every workload is a
			// function of (VERIF_SEED, tier), so re-running that run re-creates the same histories
			bz, err := os.ReadFile(os.Args[5])
			var v struct {
				Property  string `json:"property"`
				Signature string `json:"signature"`
				What      string `json:"what"`
				RunSeed   int64  `json:"run_seed"`
				RunTier   string `json:"run_tier"`
			}
			if err != nil || json.Unmarshal(bz, &v) != nil || v.RunTier == "" {
				fmt.Println("cannot read replay file", os.Args[5])
				os.Exit(2)
			}
			fmt.Printf("replaying %s: seed %d tier %s, recorded signature %s\n  %s\n", v.Property, v.RunSeed, v.RunTier, v.Signature, v.What)
			os.Setenv("VERIF_SEED", fmt.Sprint(v.RunSeed))
			os.Args[3] = v.RunTier
		}
		code := runCheck(os.Args[2], os.Args[3])
		drive.Cleanup()
		os.Exit(code)
	}
	fmt.Println("usage: olmon smoke|try|check <Cxx> <quick|thorough>")
	os.Exit(2)
}

func smoke() {
	w, err := world.New(world.Params{Frankenstein: 1})
	if err != nil {
		panic(err)
	}
	dir := fmt.Sprintf("/var/tmp/olverif.%d", os.Getpid())
	os.MkdirAll(dir, 0755)
	defer os.RemoveAll(dir)
	root := dir + "/n0"
	if err := w.WriteNode(root, world.NodeSpec{Name: "n0", Validator: w.Vals[0], LogLevel: 3}); err != nil {
		panic(err)
	}
	kr := dir + "/keyring.json"
	w.WriteKeyring(kr)
	b, err := boxcli.Start("n0", root, kr, nil, nil)
	if err != nil {
		fmt.Println(err)
		fmt.Println(boxcli.BinPath())
		bz, _ := os.ReadFile(root + "/box.log")
		fmt.Println(string(bz))
		bz, _ = os.ReadFile(root + "/box.stderr")
		fmt.Println(string(bz))
		return
	}
	pr := func(r *proto.Resp) {
		r2 := *r
		nd := len(r2.Dump)
		if os.Getenv("KEYS") != "" {
			for _, kv := range r2.Dump {
				fmt.Printf("   %q = %q\n", kv.K, kv.V)
			}
		}
		r2.Dump = nil
		bz, _ := json.Marshal(r2)
		fmt.Println(string(bz), "dump:", nd)
	}
	pr(b.Boot)
	m := &txb.Memo{Tag: "smoke"}
	tx := txb.Tx(txb.Send(w.Users[0].Addr, w.Users[1].Addr, "OLT", "777"), txb.DefaultFee(), m.Next(), w.Users[0])
	r, err := b.Check(tx)
	fmt.Println(err)
	pr(r)
	for i := 0; i < 3; i++ {
		rc := &proto.Recipe{DtMs: 5000, Dump: true}
		if i == 1 {
			rc.Txs = [][]byte{tx}
		}
		r, err := b.Block(rc)
		if err != nil {
			fmt.Println("ERR", err, b.LogTail(3000))
			return
		}
		pr(r)
	}
	r, _ = b.Check(tx)
	pr(r)
	b.Quit()
	if err := b.Restart(); err != nil {
		fmt.Println("restart", err)
		return
	}
	pr(b.Boot)
	r, _ = b.Block(&proto.Recipe{DtMs: 5000, Dump: true})
	pr(r)
	b.Quit()
}

func runCheck(id, tier string) int {
	switch id {
	case "C01":
		return checkC01(tier)
	case "C08":
		return checkC08(tier)
	case "C04":
		return checkC04(tier)
	case "C05":
		return checkC05(tier)
	case "C18":
		return checkC18(tier)
	case "C10":
		return checkC10(tier)
	case "C11":
		return checkC11(tier)
	case "C12":
		return checkC12(tier)
	case "C13":
		return checkC13(tier)
	case "C14":
		return checkC14(tier)
	case "C15":
		return checkC15(tier)
	case "C17":
		return checkC17(tier)
	case "C19":
		return checkC19(tier)
	case "C20":
		return checkC20(tier)
	case "C06":
		return checkC06(tier)
	case "C07":
		return checkC07(tier)
	case "C02", "C03":
		return checkLedger(id, tier)
	}
	fmt.Println("unknown check", id)
	return 2
}
