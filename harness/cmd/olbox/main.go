// olbox: one real OneLedger node (real app.App, real Tendermint handshake,
// block executor, mempool connection and tx indexer) in one OS process,
// driven by block recipes over a line protocol. It contains no oracle, no
// model and makes no random choice: it executes what it is told and reports
// what it observed at the ABCI boundary.
package main

import (
	"bufio"
	"bytes"
	"encoding/base64"
	"encoding/hex"
	"encoding/json"
	"flag"
	"fmt"
	"io"
	"io/ioutil"
	"os"
	"path/filepath"
	"reflect"
	"runtime"
	"sort"
	"strconv"
	"strings"
	"sync"
	"sync/atomic"
	"syscall"
	"time"
	"unicode/utf8"
	"unsafe"

	ethcmn "github.com/ethereum/go-ethereum/common"
	abci "github.com/tendermint/tendermint/abci/types"
	"github.com/tendermint/tendermint/crypto/ed25519"
	tmlog "github.com/tendermint/tendermint/libs/log"
	rpccore "github.com/tendermint/tendermint/rpc/core"
	sm "github.com/tendermint/tendermint/state"
	"github.com/tendermint/tendermint/store"
	"github.com/tendermint/tendermint/types"
	dbm "github.com/tendermint/tm-db"

	"github.com/Oneledger/protocol/app"
	olnode "github.com/Oneledger/protocol/app/node"
	"github.com/Oneledger/protocol/config"
	"github.com/Oneledger/protocol/consensus"

	"olverif/internal/proto"
)

type box struct {
	app       *app.App
	node      *consensus.Node
	stateDB   dbm.DB
	blockExec *sm.BlockExecutor
	bs        *store.BlockStore
	state     sm.State
	keys      map[string]ed25519.PrivKeyEd25519 // hex(address) -> consensus key

	mu        sync.Mutex
	calls     []proto.Call
	recipe    *proto.Recipe
	deliverIx int
	injecting bool
	curHeight int64

	concurrent  bool
	twinPull    bool // record VerifTwinPull at every BeginBlock (OLBOX_TWINPULL=1; only after boot)
	pendingTwin string
	pendingRun  string
	prevDump    map[string][]byte
	stuck       string

	out     *json.Encoder
	panicFl int32
	syncN   int64
	syncCh  chan int64
}

func fatal(out *json.Encoder, format string, a ...interface{}) {
	_ = out.Encode(proto.Resp{Op: "fatal", Err: fmt.Sprintf(format, a...)})
	os.Exit(3)
}

func main() {
	root := flag.String("root", "", "node root directory (contains config.toml)")
	keyring := flag.String("keys", "", "JSON file: list of base64 ed25519 consensus private keys the box may sign commits with")
	flag.Parse()

	// Protocol channel = the original stdout. The application logs to
	// os.Stdout, so fd 1 is re-pointed at a pipe that is copied to the log
	// file while being scanned for the panic marker; fd 2 goes to the log file
	// directly so that a fatal runtime trace is never lost.
	protoFd, err := syscall.Dup(1)
	if err != nil {
		panic(err)
	}
	protoFile := os.NewFile(uintptr(protoFd), "proto")
	out := json.NewEncoder(protoFile)

	logPath := filepath.Join(*root, "box.log")
	logFile, err := os.OpenFile(logPath, os.O_CREATE|os.O_WRONLY|os.O_APPEND, 0644)
	if err != nil {
		fatal(out, "open log: %v", err)
	}
	pr, pw, err := os.Pipe()
	if err != nil {
		fatal(out, "pipe: %v", err)
	}
	if err := syscall.Dup2(int(pw.Fd()), 1); err != nil {
		fatal(out, "dup2: %v", err)
	}
	if err := syscall.Dup2(int(logFile.Fd()), 2); err != nil {
		fatal(out, "dup2: %v", err)
	}

	b := &box{out: out, syncCh: make(chan int64, 16), keys: map[string]ed25519.PrivKeyEd25519{}}
	go b.scanStdout(pr, logFile)

	if *keyring != "" {
		bz, err := ioutil.ReadFile(*keyring)
		if err != nil {
			fatal(out, "keyring: %v", err)
		}
		var ks []string
		if err := json.Unmarshal(bz, &ks); err != nil {
			fatal(out, "keyring: %v", err)
		}
		for _, k := range ks {
			raw, err := base64.StdEncoding.DecodeString(k)
			if err != nil || len(raw) != 64 {
				fatal(out, "keyring: bad key")
			}
			var pk ed25519.PrivKeyEd25519
			copy(pk[:], raw)
			b.keys[strings.ToUpper(hex.EncodeToString(pk.PubKey().Address()))] = pk
		}
	}

	if err := b.boot(*root); err != nil {
		fatal(out, "boot: %v", err)
	}
	resp := b.baseResp("boot")
	resp.Calls = b.takeCalls()
	b.flushMarker(&resp)
	_ = out.Encode(resp)

	in := bufio.NewReaderSize(os.Stdin, 1<<20)
	for {
		line, err := in.ReadBytes('\n')
		if len(line) > 0 {
			var cmd proto.Cmd
			if jerr := json.Unmarshal(line, &cmd); jerr != nil {
				fatal(out, "bad command: %v", jerr)
			}
			if cmd.Op == "quit" {
				_ = out.Encode(proto.Resp{Op: "quit"})
				os.Exit(0)
			}
			r := b.handle(&cmd)
			b.flushMarker(&r)
			_ = out.Encode(r)
		}
		if err != nil {
			os.Exit(0)
		}
	}
}

// scanStdout copies the application's stdout to the log file and notices the
// marker handlePanic prints, plus the box's own synchronisation markers.
func (b *box) scanStdout(r io.Reader, w io.Writer) {
	br := bufio.NewReaderSize(r, 1<<16)
	for {
		line, err := br.ReadBytes('\n')
		if len(line) > 0 {
			if bytes.HasPrefix(line, []byte("\x00sync ")) {
				var n int64
				fmt.Sscanf(string(line[6:]), "%d", &n)
				b.syncCh <- n
			} else {
				if bytes.Contains(line, []byte("panic in controller")) {
					atomic.StoreInt32(&b.panicFl, 1)
				}
				_, _ = w.Write(line)
			}
		}
		if err != nil {
			return
		}
	}
}

// flushMarker waits until everything the application printed so far has been
// scanned, then reports whether the panic marker was seen.
func (b *box) flushMarker(r *proto.Resp) {
	b.syncN++
	fmt.Fprintf(os.Stdout, "\x00sync %d\n", b.syncN)
	deadline := time.After(10 * time.Second)
	for {
		select {
		case n := <-b.syncCh:
			if n == b.syncN {
				r.Panicked = atomic.LoadInt32(&b.panicFl) == 1
				return
			}
		case <-deadline:
			r.Panicked = atomic.LoadInt32(&b.panicFl) == 1
			return
		}
	}
}

func (b *box) boot(root string) error {
	cfg := &config.Server{}
	if err := cfg.ReadFile(filepath.Join(root, config.FileName)); err != nil {
		return err
	}
	nodeCtx, err := olnode.NewNodeContext(cfg)
	if err != nil {
		return err
	}
	application, err := app.NewApp(cfg, nodeCtx)
	if err != nil {
		return err
	}
	b.app = application
	application.VerifInterpose(b.before, b.after)
	if err := application.Prepare(); err != nil {
		return err
	}
	b.node = application.Node()
	// What OnStart does before serving: installs the tx indexer the
	// application's replay protection reads through rpc/core.
	b.node.ConfigureRPC()

	f := reflect.ValueOf(b.node).Elem().FieldByName("stateDB")
	if !f.IsValid() {
		return fmt.Errorf("tendermint Node has no stateDB field")
	}
	b.stateDB = *(*dbm.DB)(unsafe.Pointer(f.UnsafeAddr()))
	b.bs = b.node.BlockStore()
	b.blockExec = sm.NewBlockExecutor(b.stateDB, tmlog.NewNopLogger(), b.node.ProxyApp().Consensus(), b.node.Mempool(), b.node.EvidencePool())
	b.twinPull = os.Getenv("OLBOX_TWINPULL") != ""
	b.blockExec.SetEventBus(b.node.EventBus())
	b.state = sm.LoadState(b.stateDB)
	return nil
}

func (b *box) takeCalls() []proto.Call {
	b.mu.Lock()
	defer b.mu.Unlock()
	c := b.calls
	b.calls = nil
	return c
}

func (b *box) baseResp(op string) proto.Resp {
	r := proto.Resp{Op: op}
	r.Height = b.state.LastBlockHeight
	r.AppHash = hex.EncodeToString(b.state.AppHash)
	r.BlockTime = b.state.LastBlockTime.UnixNano() / 1e6
	func() {
		defer func() { _ = recover() }()
		st := b.app.Context.Storage()
		r.AppHeight = st.Version
		r.AppAppHash = hex.EncodeToString(st.Hash)
	}()
	return r
}

func (b *box) handle(cmd *proto.Cmd) (r proto.Resp) {
	defer func() {
		if rec := recover(); rec != nil {
			// a panic that escaped the application (e.g. out of handlePanic
			// itself) — report it; the driver treats it like a crash.
			r = b.baseRespSafe(cmd.Op)
			r.Err = fmt.Sprintf("escaped panic: %v", rec)
			r.Calls = b.takeCalls()
			r.Panicked = true
		}
	}()
	switch cmd.Op {
	case "info":
		r = b.baseResp("info")
	case "valset":
		r = b.baseResp("valset")
		r.Vals = vals(b.state.Validators)
		r.NextVals = vals(b.state.NextValidators)
		r.LastVals = vals(b.state.LastValidators)
	case "check":
		rr := b.node.ProxyApp().Mempool().CheckTxAsync(abci.RequestCheckTx{Tx: cmd.Tx})
		_ = b.node.ProxyApp().Mempool().FlushSync()
		_ = rr
		r = b.baseResp("check")
		r.Calls = b.takeCalls()
	case "evm":
		// read balances and nonces the way the EVM does (state objects of a
		// private copy of the adapter, so the live object cache is not touched)
		r = b.baseResp("evm")
		r.Evm = map[string][2]string{}
		sdb := b.app.VerifStateDB().Copy()
		for _, a := range cmd.Addrs {
			raw, err := hex.DecodeString(a)
			if err != nil || len(raw) != 20 {
				continue
			}
			addr := ethcmn.BytesToAddress(raw)
			r.Evm[a] = [2]string{sdb.GetBalance(addr).String(), fmt.Sprint(sdb.GetNonce(addr))}
		}
	case "dump":
		r = b.baseResp("dump")
		r.Dump, r.DumpFull = b.dump(cmd.Full)
	case "block":
		r = b.doBlock(cmd.Block)
	default:
		r = proto.Resp{Op: cmd.Op, Err: "unknown op"}
	}
	return r
}

func (b *box) baseRespSafe(op string) (r proto.Resp) {
	defer func() {
		if rec := recover(); rec != nil {
			r = proto.Resp{Op: op}
		}
	}()
	return b.baseResp(op)
}

func vals(vs *types.ValidatorSet) []proto.Val {
	if vs == nil {
		return nil
	}
	out := make([]proto.Val, 0, len(vs.Validators))
	for _, v := range vs.Validators {
		out = append(out, proto.Val{
			Address: strings.ToUpper(hex.EncodeToString(v.Address)),
			PubKey:  hex.EncodeToString(v.PubKey.Bytes()),
			Power:   v.VotingPower,
		})
	}
	return out
}

func (b *box) dump(full bool) ([]proto.KV, bool) {
	cur := map[string][]byte{}
	b.app.Context.Storage().Chainstate.Iterate(func(k, v []byte) bool {
		cur[string(k)] = append([]byte(nil), v...)
		return false
	})
	var out []proto.KV
	if b.prevDump == nil || full {
		full = true
		for k, v := range cur {
			out = append(out, proto.KV{K: []byte(k), V: v})
		}
	} else {
		for k, v := range cur {
			if pv, ok := b.prevDump[k]; !ok || !bytes.Equal(pv, v) {
				out = append(out, proto.KV{K: []byte(k), V: v})
			}
		}
		for k := range b.prevDump {
			if _, ok := cur[k]; !ok {
				out = append(out, proto.KV{K: []byte(k), D: true})
			}
		}
	}
	sort.Slice(out, func(i, j int) bool { return bytes.Compare(out[i].K, out[j].K) < 0 })
	b.prevDump = cur
	return out, full
}

func (b *box) makeCommit(height int64, blockID types.BlockID, vs *types.ValidatorSet, ts time.Time, absent map[string]bool) (*types.Commit, error) {
	sigs := make([]types.CommitSig, len(vs.Validators))
	for i, v := range vs.Validators {
		addr := strings.ToUpper(hex.EncodeToString(v.Address))
		if absent[addr] {
			sigs[i] = types.NewCommitSigAbsent()
			continue
		}
		pk, ok := b.keys[addr]
		if !ok {
			return nil, fmt.Errorf("no consensus key for validator %s", addr)
		}
		vote := &types.Vote{
			Type:             types.PrecommitType,
			Height:           height,
			Round:            0,
			BlockID:          blockID,
			Timestamp:        ts,
			ValidatorAddress: v.Address,
			ValidatorIndex:   i,
		}
		sig, err := pk.Sign(vote.SignBytes(b.state.ChainID))
		if err != nil {
			return nil, err
		}
		vote.Signature = sig
		sigs[i] = vote.CommitSig()
	}
	return types.NewCommit(height, 0, blockID, sigs), nil
}

func (b *box) makeEvidence(spec proto.EvidenceSpec) (types.Evidence, error) {
	addr := strings.ToUpper(spec.Validator)
	pk, ok := b.keys[addr]
	if !ok {
		return nil, fmt.Errorf("no key for evidence validator %s", addr)
	}
	vs, err := sm.LoadValidators(b.stateDB, spec.Height)
	if err != nil {
		return nil, err
	}
	rawAddr, _ := hex.DecodeString(addr)
	idx, val := vs.GetByAddress(rawAddr)
	if val == nil {
		return nil, fmt.Errorf("validator %s not in set at height %d", addr, spec.Height)
	}
	evTime := time.Unix(1600000000+spec.Height, 0).UTC()
	if meta := b.bs.LoadBlockMeta(spec.Height); meta != nil {
		evTime = meta.Header.Time
	}
	mk := func(tag byte) (*types.Vote, error) {
		h := make([]byte, 32)
		h[0] = tag
		h[1] = byte(spec.Height)
		ph := make([]byte, 32)
		ph[0] = tag + 100
		v := &types.Vote{
			Type:             types.PrecommitType,
			Height:           spec.Height,
			Round:            0,
			BlockID:          types.BlockID{Hash: h, PartsHeader: types.PartSetHeader{Total: 1, Hash: ph}},
			Timestamp:        evTime,
			ValidatorAddress: rawAddr,
			ValidatorIndex:   idx,
		}
		sig, err := pk.Sign(v.SignBytes(b.state.ChainID))
		if err != nil {
			return nil, err
		}
		v.Signature = sig
		return v, nil
	}
	v1, err := mk(1)
	if err != nil {
		return nil, err
	}
	v2, err := mk(2)
	if err != nil {
		return nil, err
	}
	return types.NewDuplicateVoteEvidence(pk.PubKey(), v1, v2), nil
}

func (b *box) doBlock(rc *proto.Recipe) proto.Resp {
	if b.stuck != "" {
		r := b.baseRespSafe("block")
		r.Err = "box is stuck after: " + b.stuck
		return r
	}
	if rc == nil {
		return proto.Resp{Op: "block", Err: "no recipe"}
	}
	state := b.state
	h := state.LastBlockHeight + 1
	var commit *types.Commit
	var err error
	if h == 1 {
		commit = types.NewCommit(0, 0, types.BlockID{}, nil)
	} else {
		absent := map[string]bool{}
		for _, a := range rc.Absent {
			absent[strings.ToUpper(a)] = true
		}
		dt := rc.DtMs
		if dt <= 0 {
			dt = 1000
		}
		ts := state.LastBlockTime.Add(time.Duration(dt) * time.Millisecond)
		commit, err = b.makeCommit(state.LastBlockHeight, state.LastBlockID, state.LastValidators, ts, absent)
		if err != nil {
			return proto.Resp{Op: "block", Err: err.Error(), Height: state.LastBlockHeight}
		}
	}
	var evs []types.Evidence
	for _, es := range rc.Evidence {
		ev, err := b.makeEvidence(es)
		if err != nil {
			// the named validator was not in the set at that height: nothing to accuse
			continue
		}
		evs = append(evs, ev)
	}
	txs := make([]types.Tx, len(rc.Txs))
	for i, t := range rc.Txs {
		txs[i] = types.Tx(t)
	}
	proposer := state.Validators.GetProposer().Address
	block, parts := state.MakeBlock(h, txs, commit, evs, proposer)
	blockID := types.BlockID{Hash: block.Hash(), PartsHeader: parts.Header()}
	if err := b.blockExec.ValidateBlock(state, block); err != nil && len(evs) > 0 && strings.Contains(strings.ToLower(err.Error()), "evidence") {
		// the evidence is too old (or otherwise unacceptable to Tendermint): an
		// honest proposer would not include it
		evs = nil
		block, parts = state.MakeBlock(h, txs, commit, evs, proposer)
		blockID = types.BlockID{Hash: block.Hash(), PartsHeader: parts.Header()}
	}
	if err := b.blockExec.ValidateBlock(state, block); err != nil && h > 1 && len(rc.Absent) > 0 && strings.Contains(err.Error(), "insufficient voting power") {
		// starving these signers would leave the commit below 2/3: a block that
		// cannot exist; every validator signs instead
		dt := rc.DtMs
		if dt <= 0 {
			dt = 1000
		}
		commit, _ = b.makeCommit(state.LastBlockHeight, state.LastBlockID, state.LastValidators, state.LastBlockTime.Add(time.Duration(dt)*time.Millisecond), nil)
		block, parts = state.MakeBlock(h, txs, commit, evs, proposer)
		blockID = types.BlockID{Hash: block.Hash(), PartsHeader: parts.Header()}
	}
	if err := b.blockExec.ValidateBlock(state, block); err != nil {
		r := b.baseResp("block")
		r.Err = "recipe produced an invalid block: " + err.Error()
		return r
	}
	seen, err := b.makeCommit(h, blockID, state.Validators, block.Time.Add(time.Second), nil)
	if err != nil {
		return proto.Resp{Op: "block", Err: err.Error(), Height: state.LastBlockHeight}
	}
	b.mu.Lock()
	b.recipe = rc
	b.deliverIx = 0
	b.curHeight = h
	b.mu.Unlock()
	b.crashIf("before:SaveBlock")
	b.bs.SaveBlock(block, parts, seen)
	b.crashIf("after:SaveBlock")

	var cwg sync.WaitGroup
	stopC := make(chan struct{})
	if len(rc.Concurrent) > 0 {
		b.mu.Lock()
		b.concurrent = true
		b.mu.Unlock()
		cwg.Add(1)
		go func() {
			defer cwg.Done()
			mp := b.node.ProxyApp().Mempool()
			for i, tx := range rc.Concurrent {
				select {
				case <-stopC:
					// the block is done: the rest still goes through, after Commit
				default:
				}
				mp.CheckTxAsync(abci.RequestCheckTx{Tx: tx})
				if i%2 == 0 {
					runtime.Gosched()
				} else {
					time.Sleep(time.Duration(20+i%7*15) * time.Microsecond)
				}
			}
			_ = mp.FlushSync()
		}()
	}
	newState, aerr := b.blockExec.ApplyBlock(state, blockID, block)
	close(stopC)
	cwg.Wait()
	b.mu.Lock()
	b.concurrent = false
	b.mu.Unlock()
	b.mu.Lock()
	b.recipe = nil
	b.mu.Unlock()
	if aerr != nil {
		b.stuck = aerr.Error()
		r := b.baseRespSafe("block")
		r.ApplyErr = aerr.Error()
		r.Calls = b.takeCalls()
		return r
	}
	b.state = newState
	if rc.Crash == "after:ApplyBlock" || strings.Contains(rc.Crash, "+") {
		// (an armed delayed kill that has not fired yet fires here at the latest)
		_ = syscall.Kill(os.Getpid(), syscall.SIGKILL)
		select {}
	}
	r := b.baseResp("block")
	r.Proposer = strings.ToUpper(hex.EncodeToString(proposer))
	if !rc.NoIndex {
		if !b.waitIndexed(h, txs) {
			r.IndexWait = true
		}
	}
	r.Calls = b.takeCalls()
	if rc.Dump {
		r.Dump, r.DumpFull = b.dump(false)
	}
	return r
}

// waitIndexed blocks until Tendermint's asynchronous indexer has stored every
// transaction of block h (a quiescent point before the next command).
func (b *box) waitIndexed(h int64, txs []types.Tx) bool {
	deadline := time.Now().Add(30 * time.Second)
	for _, tx := range txs {
		for {
			res, err := rpccore.Tx(nil, tx.Hash(), false)
			if err == nil && res != nil && res.Height == h {
				break
			}
			if time.Now().After(deadline) {
				return false
			}
			time.Sleep(200 * time.Microsecond)
		}
	}
	return true
}

func (b *box) crashIf(point string) {
	b.mu.Lock()
	rc := b.recipe
	b.mu.Unlock()
	if rc != nil && rc.Crash == point {
		_ = syscall.Kill(os.Getpid(), syscall.SIGKILL)
		select {}
	}
	if rc != nil {
		armDelayed(rc.Crash, point)
	}
}

// armDelayed handles crash points of the form "<boundary>+<microseconds>": the
// kill comes that long after the boundary, i.e. somewhere inside the call (or
// the Tendermint bookkeeping) that follows it.
func armDelayed(crash, point string) {
	if !strings.HasPrefix(crash, point+"+") {
		return
	}
	us, err := strconv.Atoi(strings.TrimPrefix(crash, point+"+"))
	if err != nil {
		return
	}
	go func() {
		if us > 0 {
			time.Sleep(time.Duration(us) * time.Microsecond)
		}
		_ = syscall.Kill(os.Getpid(), syscall.SIGKILL)
	}()
}

func (b *box) boundary(when, method string) string {
	if method == "DeliverTx" {
		return fmt.Sprintf("%s:%s:%d", when, method, b.deliverIx)
	}
	return when + ":" + method
}

func (b *box) atBoundary(point string) {
	b.mu.Lock()
	rc := b.recipe
	inj := b.injecting
	b.mu.Unlock()
	if rc == nil || inj {
		return
	}
	if txs, ok := rc.Inject[point]; ok {
		b.mu.Lock()
		b.injecting = true
		b.mu.Unlock()
		for _, tx := range txs {
			// A CheckTx can only ever run between two consensus calls (one
			// mutex serialises all ABCI connections), which is exactly where
			// this callback executes.
			b.app.ABCI().CheckTx(abci.RequestCheckTx{Tx: tx})
		}
		b.mu.Lock()
		b.injecting = false
		b.mu.Unlock()
	}
	if rc.Crash == point {
		_ = syscall.Kill(os.Getpid(), syscall.SIGKILL)
		select {}
	}
	armDelayed(rc.Crash, point)
}

func (b *box) before(method string, req interface{}) {
	if rq, ok := req.(abci.RequestBeginBlock); ok && method == "BeginBlock" && b.twinPull {
		// what a node started right now would pull as this block's reward (fresh calculator, no cache)
		amt, err := b.app.VerifTwinPull(rq.Header.Height)
		run, rerr := b.app.VerifRunningPull(rq.Header.Height)
		b.mu.Lock()
		if err != nil {
			b.pendingTwin = "error: " + err.Error()
		} else {
			b.pendingTwin = amt
		}
		if rerr != nil {
			b.pendingRun = "error: " + rerr.Error()
		} else {
			b.pendingRun = run
		}
		b.mu.Unlock()
	}
	switch method {
	case "BeginBlock", "DeliverTx", "EndBlock", "Commit":
		b.atBoundary(b.boundary("before", method))
	}
}

// safeStr keeps text attributes readable and binary ones lossless.
func safeStr(b []byte) string {
	if utf8.Valid(b) {
		return string(b)
	}
	return "hex:" + hex.EncodeToString(b)
}

func events(evs []abci.Event) []proto.Event {
	var out []proto.Event
	for _, e := range evs {
		pe := proto.Event{Type: e.Type}
		for _, a := range e.Attributes {
			pe.Attrs = append(pe.Attrs, proto.Attr{K: safeStr(a.Key), V: safeStr(a.Value)})
		}
		out = append(out, pe)
	}
	return out
}

func (b *box) after(method string, req, resp interface{}) {
	c := proto.Call{M: method}
	b.mu.Lock()
	c.Injected = b.injecting || (b.concurrent && method == "CheckTx")
	c.Height = b.curHeight
	b.mu.Unlock()
	switch r := resp.(type) {
	case abci.ResponseInfo:
		c.InfoHeight = r.LastBlockHeight
		c.AppHash = hex.EncodeToString(r.LastBlockAppHash)
	case abci.ResponseInitChain:
		c.ValUpdates = valUpdates(r.Validators)
	case abci.ResponseBeginBlock:
		c.Events = events(r.Events)
		b.mu.Lock()
		c.TwinPull, b.pendingTwin = b.pendingTwin, ""
		c.RunPull, b.pendingRun = b.pendingRun, ""
		b.mu.Unlock()
		if rq, ok := req.(abci.RequestBeginBlock); ok {
			c.Height = rq.Header.Height
			b.mu.Lock()
			b.curHeight = rq.Header.Height
			b.mu.Unlock()
		}
	case abci.ResponseCheckTx:
		c.TxHash = hex.EncodeToString(types.Tx(req.(abci.RequestCheckTx).Tx).Hash())
		c.Code, c.Data, c.GasWanted, c.GasUsed, c.Log, c.Info = r.Code, hex.EncodeToString(r.Data), r.GasWanted, r.GasUsed, r.Log, r.Info
		c.Events = events(r.Events)
	case abci.ResponseDeliverTx:
		c.TxHash = hex.EncodeToString(types.Tx(req.(abci.RequestDeliverTx).Tx).Hash())
		c.Code, c.Data, c.GasWanted, c.GasUsed, c.Log, c.Info = r.Code, hex.EncodeToString(r.Data), r.GasWanted, r.GasUsed, r.Log, r.Info
		c.Events = events(r.Events)
	case abci.ResponseEndBlock:
		c.ValUpdates = valUpdates(r.ValidatorUpdates)
		c.Events = events(r.Events)
	case abci.ResponseCommit:
		c.AppHash = hex.EncodeToString(r.Data)
	}
	b.mu.Lock()
	b.calls = append(b.calls, c)
	b.mu.Unlock()
	switch method {
	case "BeginBlock", "DeliverTx", "EndBlock", "Commit":
		b.atBoundary(b.boundary("after", method))
		if method == "DeliverTx" {
			b.mu.Lock()
			if !b.injecting {
				b.deliverIx++
			}
			b.mu.Unlock()
		}
	}
}

func valUpdates(vus []abci.ValidatorUpdate) []proto.ValUpdate {
	var out []proto.ValUpdate
	for _, vu := range vus {
		out = append(out, proto.ValUpdate{PubKeyType: vu.PubKey.Type, PubKey: hex.EncodeToString(vu.PubKey.Data), Power: vu.Power})
	}
	return out
}
