#!/bin/bash
# cleantry.sh <tier> <Cxx> [Cxx...] — runs checks against a scratch worktree of /repo's HEAD (for use while /repo's
# working tree is occupied by seedall.sh); results go to a scratch directory, nothing under /verif is written.
set -u
TIER="$1"; shift
export VERIF_HARNESS=/var/tmp/harness_snapc.$$; rm -rf $VERIF_HARNESS; cp -r /verif/harness $VERIF_HARNESS
W=/var/tmp/cleanrepo.$$; OUT=/var/tmp/cleantry.$$; B=/var/tmp/cleanbuild.$$
git -C /repo worktree add --detach -q $W HEAD || exit 2
cleanup() { rm -rf $VERIF_HARNESS; git -C /repo worktree remove --force $W 2>/dev/null; rm -rf "$B"; [ -z "${KEEP_OUT:-}" ] && rm -rf "$OUT"; }
trap cleanup EXIT
mkdir -p "$OUT/evidence" "$OUT/replays" "$B"; cp /verif/known_findings.json "$OUT/"
for id in "$@"; do
  VERIF_DIR="$OUT" VERIF_REPO=$W VERIF_BUILD=$B /verif/run.sh "$id" "$TIER" > "$OUT/$id.out" 2>&1
  rc=$?
  echo "== $id $TIER exit=$rc"
  grep -E "^(VIOLATION|KNOWN-FINDING|INCONCLUSIVE)|signature=|^  what" "$OUT/$id.out" | cut -c1-400 | head -${LINES_MAX:-12}
  grep -E "^C[0-9]+ (quick|thorough)" "$OUT/$id.out" | tail -1 | cut -c1-200
done
[ -n "${KEEP_OUT:-}" ] && echo "out=$OUT"
