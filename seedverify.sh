#!/bin/bash
# seedverify.sh <Cxx> <A|B> <package dir of the demo> — confirms a seeded change in its scratch worktree:
# demo fails with the change, passes without, repository suite keeps its set of failing tests.
set -u
export GOFLAGS=-mod=mod GOPROXY=off GOSUMDB=off GOTOOLCHAIN=local
ID=$1; V=$2; PKG=$3
WT=${WT_PREFIX:-/tmp/wt_}$ID; S=$WT/_seed
cd $WT || exit 2
git checkout -q -- . ; git clean -fdq -e _seed
cp $S/demo_${V}_test.go $PKG/zz_seed_${V}_test.go
echo "--- demo WITHOUT change"; go test -vet=off -count=1 -ldflags=-checklinkname=0 -run 'Seed' ./$PKG/ 2>&1 | tail -3
git apply $S/$V.diff || { echo "DOES NOT APPLY"; exit 2; }
echo "--- demo WITH change"; go test -vet=off -count=1 -ldflags=-checklinkname=0 -run 'Seed' ./$PKG/ 2>&1 | tail -6 | cut -c1-300
rm -f $PKG/zz_seed_${V}_test.go
echo "--- suite WITH change (failing tests/packages)"
go test -vet=off -count=1 ./... 2>&1 | grep -E "^(--- FAIL|FAIL|panic)" | sed 's/[0-9.]*s)*$//' | sed 's/0x[0-9a-f]*//g' | sort | uniq -c > /tmp/seed_suite.$$
sed 's/0x[0-9a-f]*//g' /tmp/seed_baseline.txt > /tmp/seed_base.$$
if diff /tmp/seed_base.$$ /tmp/seed_suite.$$ >/dev/null; then echo "suite: same failing set as the unchanged worktree"; else echo "suite DIFFERS:"; diff /tmp/seed_base.$$ /tmp/seed_suite.$$; fi
rm -f /tmp/seed_suite.$$ /tmp/seed_base.$$
git checkout -q -- . ; git clean -fdq -e _seed
git status --porcelain | head -3
