#!/bin/bash
# seedtry.sh <patch> <tier> <Cxx> [Cxx...] — like seedtest.sh but on a scratch worktree of /repo's HEAD
# (/var/tmp/seedrepo.<pid>), so that it can run while /repo itself is in use by other runs. The results that
# are recorded in seeded/RESULTS.md come from seedall.sh (patch applied to /repo itself).
set -u
PATCH="$1"; TIER="$2"; shift; shift
W=/var/tmp/seedrepo.$$; OUT=/var/tmp/seedtry.$$; B=/var/tmp/seedbuild.$$
git -C /repo worktree add --detach -q $W HEAD || exit 2
cleanup() { git -C /repo worktree remove --force $W 2>/dev/null; rm -rf "$OUT" "$B"; }
trap cleanup EXIT
mkdir -p "$OUT/evidence" "$OUT/replays" "$B"; cp /verif/known_findings.json "$OUT/"
if ! git -C $W apply "$PATCH"; then echo "patch does not apply"; exit 2; fi
for id in "$@"; do
  VERIF_DIR="$OUT" VERIF_REPO=$W VERIF_BUILD=$B /verif/run.sh "$id" "$TIER" > "$OUT/$id.out" 2>&1
  rc=$?
  echo "== $id $TIER exit=$rc"
  grep -E "^(VIOLATION|KNOWN-FINDING|INCONCLUSIVE)" "$OUT/$id.out" | cut -c1-260 | head -${SEEDTEST_LINES:-3}
  grep -E "^C[0-9]+ (quick|thorough)" "$OUT/$id.out" | tail -1 | cut -c1-200
  echo "firstsig=$(grep -m1 -E "^  signature=" "$OUT/$id.out" | sed 's/^  signature=//')"
  if [ "$rc" = 2 ]; then tail -5 "$OUT/$id.out" | cut -c1-300; fi
done
