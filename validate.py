#!/usr/bin/env python3
"""Validate MANIFEST.json and evidence files against the given schemas."""
import json, sys, glob, os
import jsonschema
root = sys.argv[1] if len(sys.argv) > 1 else '/verif'
ok = True
ms = json.load(open('/root/.vp/MANIFEST.schema.json'))
es = json.load(open('/root/.vp/EVIDENCE.schema.json'))
mp = os.path.join(root, 'MANIFEST.json')
if os.path.exists(mp):
    try:
        jsonschema.validate(json.load(open(mp)), ms); print('MANIFEST ok')
    except Exception as e:
        ok = False; print('MANIFEST INVALID', str(e)[:500])
for f in sorted(glob.glob(os.path.join(root, 'evidence', '*.json'))):
    try:
        jsonschema.validate(json.load(open(f)), es); print(os.path.basename(f), 'ok')
    except Exception as e:
        ok = False; print(f, 'INVALID', str(e)[:500])
sys.exit(0 if ok else 1)
