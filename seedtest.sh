#!/bin/bash
# seedtest.sh <patch> <tier> <Cxx> [Cxx...]
# Applies a seeded breaking change to /repo's working tree, runs the named checks
# against it, and restores the tree. Output per check: exit code and the
# VIOLATION / KNOWN-FINDING lines. Never commits anything in /repo.
# VERIF_DIR is pointed at a scratch directory so evidence/replays of the mutated
# tree never overwrite the evidence of the real tree.
set -u
PATCH="$1"; TIER="$2"; shift; shift
if [ -n "$(git -C /repo status --porcelain --untracked-files=no)" ]; then echo "refusing: /repo working tree is not clean"; exit 2; fi
OUT=/var/tmp/seedtest.$$
mkdir -p "$OUT"
cp /verif/known_findings.json "$OUT/" 2>/dev/null
restore() { git -C /repo apply -R "$PATCH" 2>/dev/null; git -C /repo checkout -- . ; }
trap restore EXIT
if ! git -C /repo apply "$PATCH"; then echo "patch does not apply"; exit 2; fi
for id in "$@"; do
  mkdir -p "$OUT/evidence" "$OUT/replays"
  # (binaries built from the changed tree go to a scratch directory, never to /verif/.build)
  VERIF_DIR="$OUT" VERIF_BUILD="$OUT/build" /verif/run.sh "$id" "$TIER" > "$OUT/$id.out" 2>&1
  rc=$?
  echo "== $id $TIER exit=$rc"
  grep -E "^(VIOLATION|KNOWN-FINDING|INCONCLUSIVE)" "$OUT/$id.out" | cut -c1-260 | head -${SEEDTEST_LINES:-8}
  grep -E "^C[0-9]+ (quick|thorough)" "$OUT/$id.out" | tail -1 | cut -c1-200
  echo "firstsig=$(grep -m1 -E "^  signature=" "$OUT/$id.out" | sed 's/^  signature=//')"
  if [ "$rc" = 2 ]; then tail -5 "$OUT/$id.out" | cut -c1-300; fi
done
restore
trap - EXIT
if [ -n "$(git -C /repo status --porcelain --untracked-files=no)" ]; then echo "WARNING: /repo not clean after restore"; git -C /repo status --porcelain | head; fi
rm -rf "$OUT"
