#!/usr/bin/env python3
"""Generates MANIFEST.json from the table below (keeps it valid and in sync)."""
import json, subprocess

HOOK_COMMITS = subprocess.run(['git','-C','/repo','log','--format=%H','--grep=^verif hooks'],capture_output=True,text=True).stdout.split()

# id -> (category, technique, level text, level note, design ref)
CHECKS = {
 'C01': ('exploration', 'runtime monitoring: lock-step differential transcript over 4 real nodes with different identities/roles/config',
         'Held on the seeded mixed histories executed (counts in the evidence): every compared block returned identical Commit.Data, EndBlock.ValidatorUpdates, DeliverTx code/data/gas and InitChain validators on a stranger node, a witness validator (restarted once), a validator with OLTEST=1 and other rotation settings, and a second stranger run. Order-dependence on map iteration is detected probabilistically by repetition.',
         'Trusts Tendermint v0.33.3 executor/handshake/indexer and the harness-built blocks (validated by Tendermint on every replica). Covers only kinds/hooks the scripts drive (listed in the evidence counters).', 'DESIGN.md 7 C01'),
}

NOT_YET = {}

def main():
    props = [json.loads(l) for l in open('/verif/properties.jsonl')]
    checks = []
    na = []
    for p in props:
        pid = p['id']
        if pid in CHECKS:
            cat, tech, text, note, ref = CHECKS[pid]
            checks.append({
                'property_id': pid,
                'quick_cmd': f'./run.sh {pid} quick',
                'thorough_cmd': f'./run.sh {pid} thorough',
                'evidence_file': f'/verif/evidence/{pid}.json',
                'replay_cmd_template': f'./run.sh {pid} quick --replay {{path}}',
                'engine': 'olmon' if pid not in ('C09','C16') else ('olc09' if pid=='C09' else 'olc16'),
                'level_claimed': {'category': cat, 'text': text, 'design_ref': ref},
                'level_note': note,
                'technique': tech,
            })
        else:
            na.append({'property_id': pid, 'reason': NOT_YET.get(pid, 'check not built yet in this session (work in progress; see DESIGN.md section 13.4)')})
    m = {
        'version': 1,
        'setup_cmd': './setup.sh',
        'hooks': {
            'guard': 'verif',
            'enable': 'go build -tags verif -ldflags=-checklinkname=0 (harness module /verif/harness with replace => /repo)',
            'baseline_off_cmd': 'cd /repo && go test -mod=mod -json -vet=off -count=1 -timeout 25m ./...',
            'source_commits': HOOK_COMMITS,
            'add_only': True,
        },
        'engines': [
            {'name': 'olbox', 'path': '/verif/harness/cmd/olbox', 'serves_properties': [c['property_id'] for c in checks if c['engine']=='olmon'], 'kind_free_text': 'node-in-a-box: real app.App + Tendermint block executor/handshake/mempool connection/indexer in one OS process, driven by block recipes'},
            {'name': 'olmon', 'path': '/verif/harness/cmd/olmon', 'serves_properties': [c['property_id'] for c in checks if c['engine']=='olmon'], 'kind_free_text': 'driver: workload generators, lock-step replica runner, monitors, evidence'},
            {'name': 'olc09', 'path': '/verif/harness/cmd/olc09', 'serves_properties': ['C09'], 'kind_free_text': 'in-process differential of the real storage.State/ChainState against a reference map model and a write-projection twin'},
            {'name': 'olc16', 'path': '/verif/harness/cmd/olc16', 'serves_properties': ['C16'], 'kind_free_text': 'in-process differential of vm.CommitStateDB against go-ethereum core/state.StateDB under the same interpreter'},
        ],
        'checks': checks,
        'not_applicable': na,
        'notes': 'Technique family: runtime monitoring. Every check rebuilds the harness from /repo\'s working tree with -tags verif. Exit 0 held / 1 VIOLATION / 2 inconclusive. Known findings: /verif/known_findings.json.',
    }
    json.dump(m, open('/verif/MANIFEST.json','w'), indent=1)
    print('checks:', [c['property_id'] for c in checks], 'not claimed:', len(na))

main()
