#!/usr/bin/env python3
"""Generates MANIFEST.json from the table below (keeps it valid and in sync)."""
import json, subprocess

HOOK_COMMITS = subprocess.run(['git','-C','/repo','log','--format=%H','--grep=^verif hooks'],capture_output=True,text=True).stdout.split()

# id -> (category, technique, level text, level note, design ref)
CHECKS = {
 'C01': ('exploration', 'runtime monitoring: lock-step differential transcript over 4 real nodes with different identities/roles/config',
         'Held on the seeded mixed histories executed (counts in the evidence): every compared block returned identical Commit.Data, EndBlock.ValidatorUpdates, DeliverTx code/data/gas and InitChain validators on a stranger node, a witness validator (restarted once), a validator with OLTEST=1 and other rotation settings, and a second stranger run. Order-dependence on map iteration is detected probabilistically by repetition.',
         'Trusts Tendermint v0.33.3 executor/handshake/indexer and the harness-built blocks (validated by Tendermint on every replica). Covers only kinds/hooks the scripts drive (listed in the evidence counters).', 'DESIGN.md 7 C01'),
 'C02': ('exploration', 'runtime monitoring: ledger invariant over the decoded committed state after every Commit (mixed histories + isolated hostile-amount probes on forks)',
         'Held on every block transition observed: per currency the decoded system total never grew beyond the block-reward delegation share / confirmed locks, and no decoded amount was negative; hostile amount and currency traits on every amount-bearing field of every kind the workload produces were sent through honest admission on forks and watched past the maturities.',
         'Ledger prefix table (unknown prefix => inconclusive); wrapped allowance computed from tracker records parsed by the harness.', 'DESIGN.md 7 C02'),
 'C03': ('exploration', 'runtime monitoring: per-owner ledger deltas vs. the set of signers of code-0 transactions (mixed histories + address-trait probes on forks)',
         'Held on every block transition observed: no watched externally owned account lost holdings in a block in which it neither signed a successful transaction nor was the stake account of a signing or guilty validator; payloads naming third-party addresses in every address-typed field were probed.',
         'The generator knows who signed; guilty verdicts are read from the freeze records.', 'DESIGN.md 7 C03'),
 'C04': ('exploration', 'runtime monitoring: metamorphic single-field mutants of valid signed transactions at the ABCI boundary (CheckTx + byzantine block on forks, state compared with an empty-block twin)',
         'Held on every mutant executed: each mutant that an independent re-verification found no longer authentic got a non-zero CheckTx code, a non-zero DeliverTx code when delivered alone in a byzantine block, and left the committed state identical to an empty block\'s.',
         'Independent authenticity decision uses the linked crypto libraries; bases come from the workload (kinds listed in the evidence).', 'DESIGN.md 7 C04'),
 'C05': ('exploration', 'runtime monitoring: resubmission of executed transactions in equivalent encodings (CheckTx + byzantine block on forks, state compared with an empty-block twin, also after restart)',
         'Held on every resubmission executed: identical bytes and every other encoding that the repository\'s own deserialiser maps to the same signed content was refused by CheckTx and changed nothing when delivered later.',
         'The box waits for Tendermint\'s asynchronous indexer before resubmitting.', 'DESIGN.md 7 C05'),
 'C06': ('exploration', 'runtime monitoring: lock-step twin that receives every block without the transactions that failed on the leader',
         'Held on every block compared: the twin committed the same app hash and returned the same results for the surviving transactions; failures were produced inside handlers and fee steps (gas limits below consumption, conflicting spends, byzantine delivery of rejected transactions).',
         'MaxGas = -1; events and block hashes not compared.', 'DESIGN.md 7 C06'),
 'C07': ('exploration', 'runtime monitoring: lock-step twin with CheckTx calls injected at every class of ABCI call boundary',
         'Held on every block compared: a twin that additionally received CheckTx calls (the block\'s own, rejected, later, and check-only expire/finalize transactions) before/after BeginBlock, each DeliverTx, EndBlock and Commit produced the same consensus projection as the leader that received none.',
         'Injection happens where Tendermint\'s single ABCI mutex allows a CheckTx: between two consensus calls.', 'DESIGN.md 7 C07'),
 'C08': ('fault_enumeration', 'runtime monitoring with fault injection: SIGKILL at enumerated ABCI call boundaries, restart through the production start-up path, differential against the uninterrupted leader',
         'Held on every crash point executed: after a kill at each boundary class (after SaveBlock, BeginBlock, k-th DeliverTx, EndBlock, Commit, state save) the node restarted from disk, Info reported the last completed commit, the handshake replay reproduced the leader\'s results and every later block agreed.',
         'kill -9 at ABCI boundaries; torn writes below the syscall boundary out of reach.', 'DESIGN.md 7 C08'),
 'C09': ('exploration', 'runtime monitoring: op-by-op differential of the real storage.State/ChainState against a reference map model and write-projection twin stores (exhaustive short sequences + long random ones)',
         'Held on all sequences executed: every Get/Exists/GetVersioned/Commit/reopen result equalled the reference model, and the root hash equalled that of twin stores that only received the writes; all sequences of length 4 (quick) / 6 (thorough) over a 17-op alphabet in five gas modes plus long random sequences on goleveldb with several rotation settings.',
         'Rotation: only versions the documented policy keeps are asserted.', 'DESIGN.md 7 C09'),
 'C16': ('exploration', 'runtime monitoring: differential of vm.CommitStateDB against go-ethereum core/state.StateDB under the same interpreter (interface op sequences + generated bytecode transaction sequences with gas sweeps)',
         'Held (up to the listed known findings) on all cases executed: every interface call return value, every transaction result (gas, return data, error class, logs) and every touched account/slot after each Finalise and block commit agreed with go-ethereum\'s state.',
         'Reference message rules are a line-for-line port of vm/state_transition.go so that only the state implementation differs; BASEFEE/BLOCKHASH not generated.', 'DESIGN.md 7 C16'),
 'C18': ('exploration', 'runtime monitoring from outside the process: exit status, panic marker and liveness probe of nodes fed hostile inputs (CheckTx and byzantine delivery on forks)',
         'Held on every input executed: structure-aware hostile transactions of every kind, JSON-structure mutations, raw byte strings, hostile embedded Ethereum transactions and OLVM programs/fields neither killed the node nor triggered the handlePanic shutdown, and a plain transfer still worked afterwards.',
         'Batches of 8 inputs per fork, bisected to single inputs on failure.', 'DESIGN.md 7 C18'),
}

NOT_YET = {}

def main():
    props = [json.loads(l) for l in open('/verif/properties.jsonl')]
    checks = []
    na = []
    for p in props:
        pid = p['id']
        if pid in CHECKS:
            cat, tech, text, note, ref = CHECKS[pid]
            checks.append({
                'property_id': pid,
                'quick_cmd': f'./run.sh {pid} quick',
                'thorough_cmd': f'./run.sh {pid} thorough',
                'evidence_file': f'/verif/evidence/{pid}.json',
                'replay_cmd_template': f'./run.sh {pid} quick --replay {{path}}',
                'engine': 'olmon' if pid not in ('C09','C16') else ('olc09' if pid=='C09' else 'olc16'),
                'level_claimed': {'category': cat, 'text': text, 'design_ref': ref},
                'level_note': note,
                'technique': tech,
            })
        else:
            na.append({'property_id': pid, 'reason': NOT_YET.get(pid, 'check not built yet in this session (work in progress; see DESIGN.md section 13.4)')})
    m = {
        'version': 1,
        'setup_cmd': './setup.sh',
        'hooks': {
            'guard': 'verif',
            'enable': 'go build -tags verif -ldflags=-checklinkname=0 (harness module /verif/harness with replace => /repo)',
            'baseline_off_cmd': 'cd /repo && go test -mod=mod -json -vet=off -count=1 -timeout 25m ./...',
            'source_commits': HOOK_COMMITS,
            'add_only': True,
        },
        'engines': [
            {'name': 'olbox', 'path': '/verif/harness/cmd/olbox', 'serves_properties': [c['property_id'] for c in checks if c['engine']=='olmon'], 'kind_free_text': 'node-in-a-box: real app.App + Tendermint block executor/handshake/mempool connection/indexer in one OS process, driven by block recipes'},
            {'name': 'olmon', 'path': '/verif/harness/cmd/olmon', 'serves_properties': [c['property_id'] for c in checks if c['engine']=='olmon'], 'kind_free_text': 'driver: workload generators, lock-step replica runner, monitors, evidence'},
            {'name': 'olc09', 'path': '/verif/harness/cmd/olc09', 'serves_properties': ['C09'], 'kind_free_text': 'in-process differential of the real storage.State/ChainState against a reference map model and a write-projection twin'},
            {'name': 'olc16', 'path': '/verif/harness/cmd/olc16', 'serves_properties': ['C16'], 'kind_free_text': 'in-process differential of vm.CommitStateDB against go-ethereum core/state.StateDB under the same interpreter'},
        ],
        'checks': checks,
        'not_applicable': na,
        'notes': 'Technique family: runtime monitoring. Every check rebuilds the harness from /repo\'s working tree with -tags verif. Exit 0 held / 1 VIOLATION / 2 inconclusive. Known findings: /verif/known_findings.json.',
    }
    json.dump(m, open('/verif/MANIFEST.json','w'), indent=1)
    print('checks:', [c['property_id'] for c in checks], 'not claimed:', len(na))

main()
