#!/usr/bin/env python3
"""Generates MANIFEST.json from the table below (keeps it valid and in sync)."""
import json, subprocess

HOOK_COMMITS = subprocess.run(['git','-C','/repo','log','--format=%H','--grep=^verif hooks'],capture_output=True,text=True).stdout.split()

# id -> (category, technique, level text, level note, design ref)
CHECKS = {
 'C01': ('exploration', 'runtime monitoring: lock-step differential transcript over 4 real nodes with different identities/roles/config',
         'Held on the seeded mixed histories executed (counts in the evidence): every compared block returned identical Commit.Data, EndBlock.ValidatorUpdates, DeliverTx code/data/gas and InitChain validators on a stranger node, a witness validator (restarted once), a validator with OLTEST=1 and other rotation settings, and a second stranger run. Order-dependence on map iteration is detected probabilistically by repetition.',
         'Trusts Tendermint v0.33.3 executor/handshake/indexer and the harness-built blocks (validated by Tendermint on every replica). Covers only kinds/hooks the scripts drive (listed in the evidence counters).', 'DESIGN.md 7 C01'),
 'C02': ('exploration', 'runtime monitoring: ledger invariant over the decoded committed state after every Commit (mixed histories + isolated hostile-amount probes on forks)',
         'Held on every block transition observed: per currency the decoded system total never grew beyond the block-reward delegation share / confirmed locks, and no decoded amount was negative; hostile amount and currency traits on every amount-bearing field of every kind the workload produces were sent through honest admission on forks and watched past the maturities.',
         'Ledger prefix table (unknown prefix => inconclusive); wrapped allowance computed from tracker records parsed by the harness.', 'DESIGN.md 7 C02'),
 'C03': ('exploration', 'runtime monitoring: per-owner ledger deltas vs. the set of signers of code-0 transactions (mixed histories + address-trait probes on forks)',
         'Held on every block transition observed: no watched externally owned account lost holdings in a block in which it neither signed a successful transaction nor was the stake account of a signing or guilty validator; payloads naming third-party addresses in every address-typed field were probed.',
         'The generator knows who signed; guilty verdicts are read from the freeze records.', 'DESIGN.md 7 C03'),
 'C04': ('exploration', 'runtime monitoring: metamorphic single-field mutants of valid signed transactions at the ABCI boundary (CheckTx + byzantine block on forks, state compared with an empty-block twin)',
         'Held on every mutant executed: each mutant that an independent re-verification found no longer authentic got a non-zero CheckTx code, a non-zero DeliverTx code when delivered alone in a byzantine block, and left the committed state identical to an empty block\'s.',
         'Independent authenticity decision uses the linked crypto libraries; bases come from the workload (kinds listed in the evidence).', 'DESIGN.md 7 C04'),
 'C05': ('exploration', 'runtime monitoring: resubmission of executed transactions in equivalent encodings (CheckTx + byzantine block on forks, state compared with an empty-block twin, also after restart)',
         'Held on every resubmission executed: identical bytes and every other encoding that the repository\'s own deserialiser maps to the same signed content was refused by CheckTx and changed nothing when delivered later.',
         'The box waits for Tendermint\'s asynchronous indexer before resubmitting.', 'DESIGN.md 7 C05'),
 'C06': ('exploration', 'runtime monitoring: lock-step twins — one receives every block without the transactions that failed on the leader, one without the first failed transaction only',
         'Held on every block compared: the twin committed the same app hash and returned the same results for the surviving transactions; failures were produced inside handlers and fee steps (gas limits below consumption, conflicting spends, byzantine delivery of rejected transactions).',
         'MaxGas = -1; the block hash inside EVM log attributes is blanked (the twin blocks differ by construction), everything else in the results is compared.', 'DESIGN.md 7 C06'),
 'C07': ('exploration', 'runtime monitoring: lock-step twin with CheckTx calls injected at every class of ABCI call boundary',
         'Held on every block compared: a twin that additionally received CheckTx calls (the block\'s own, rejected, later, and check-only expire/finalize transactions) before/after BeginBlock, each DeliverTx, EndBlock and Commit produced the same consensus projection as the leader that received none.',
         'Injection happens where Tendermint\'s single ABCI mutex allows a CheckTx: between two consensus calls.', 'DESIGN.md 7 C07'),
 'C08': ('fault_enumeration', 'runtime monitoring with fault injection: SIGKILL at enumerated ABCI call boundaries, restart through the production start-up path, differential against the uninterrupted leader',
         'Held on every crash point executed: after a kill at each boundary class (after SaveBlock, BeginBlock, k-th DeliverTx, EndBlock, Commit, state save) the node restarted from disk, Info reported the last completed commit, the handshake replay reproduced the leader\'s results and every later block agreed.',
         'kill -9 at ABCI boundaries and some microseconds after them; torn writes below the syscall boundary out of reach. Every second history runs the mempool check on both nodes; a block whose results Tendermint refuses on one of the two nodes only is a divergence.', 'DESIGN.md 7 C08'),
 'C09': ('exploration', 'runtime monitoring: op-by-op differential of the real storage.State/ChainState against a reference map model and write-projection twin stores (exhaustive short sequences + long random ones)',
         'Held on all sequences executed: every Get/Exists/GetVersioned/Commit/reopen result equalled the reference model, and the root hash equalled that of twin stores that only received the writes; all sequences of length 4 (quick) / 6 (thorough) over a 17-op alphabet in five gas modes plus long random sequences on goleveldb with several rotation settings.',
         'Rotation: only versions the documented policy keeps are asserted.', 'DESIGN.md 7 C09'),
 'C16': ('exploration', 'runtime monitoring: differential of vm.CommitStateDB against go-ethereum core/state.StateDB under the same interpreter (interface op sequences + generated bytecode transaction sequences with gas sweeps)',
         'Held (up to the listed known findings) on all cases executed: every interface call return value, every transaction result (gas, return data, error class, logs) and every touched account/slot after each Finalise and block commit agreed with go-ethereum\'s state.',
         'Reference message rules are a line-for-line port of vm/state_transition.go so that only the state implementation differs; BASEFEE/BLOCKHASH not generated.', 'DESIGN.md 7 C16'),
 'C18': ('exploration', 'runtime monitoring from outside the process: exit status, panic marker and liveness probe of nodes fed hostile inputs (CheckTx and byzantine delivery on forks)',
         'Held on every input executed: structure-aware hostile transactions of every kind, JSON-structure mutations, raw byte strings, hostile embedded Ethereum transactions and OLVM programs/fields neither killed the node nor triggered the handlePanic shutdown, and a plain transfer still worked afterwards.',
         'Batches of 8 inputs per fork, bisected to single inputs on failure.', 'DESIGN.md 7 C18'),
 'C10': ('exploration', 'runtime monitoring: Tendermint\'s own acceptance of the updates (ApplyBlock) + statement-level election monitor over the previous block\'s decoded records + convergence comparison after quiet tails',
         'Held on every block observed: Tendermint accepted every update set; every positive-power update named a validator that in the previous block\'s records had at least the minimum stake, was not frozen and carried that stake as power; never more than the top count; no eligible higher-stake validator left out; after five quiet blocks Tendermint\'s set equalled the election computed from the dump.',
         'Either reading (previous/current block) of an option changed in the block is accepted; ties at the boundary accepted either way.', 'DESIGN.md 7 C10'),
 'C11': ('exploration', 'runtime monitoring: statement-level stake-lifecycle accumulator driven by the successful transactions, compared with the decoded stake records every block',
         'Held on every block observed: cumulative withdrawals never exceeded the unstakes that had reached unstake height + maturity, nor staked minus penalties; no stake/unstake/withdraw succeeded on a validator frozen before and after the block; every validator total equalled the sum of its delegators\' locked amounts.',
         'Loosest reading of the maturity boundary; penalties derived from stake decreases not explained by the block\'s transactions.', 'DESIGN.md 7 C11'),
 'C12': ('exploration', 'runtime monitoring: pool/active-set invariants over the dump + one-to-one matching of obligations (from successful transactions and genesis-seeded pending entries) against the payments BeginBlock reports',
         'Held on every block observed: pool balance >= (== without direct donors) the sum of active delegations; the active set changed exactly by the block\'s delegate/reinvest/undelegate transactions; every payment BeginBlock reported discharged obligations due at exactly that height, every due obligation was paid, pending entries were cleared.',
         'Payments are read from the deleg_undelegate / deleg_rewards_mature_* event attributes; event-less payments are caught by the C02/C03 ledger rules.', 'DESIGN.md 7 C12'),
 'C13': ('exploration', 'runtime monitoring: dump deltas against the bounds the property states + a twin node restarted inside calculation cycles (reward event and app hash compared)',
         'Held on every block observed: credited rewards (validator chunks + delegator balances) never exceeded the amount accounted as consumed, which never exceeded what was left of the reward year at the start of the cycle (or the burnout rate capped by the pool); cumulative validator withdrawals never exceeded the matured chunks; a node restarted at random points inside cycles reported the same per-block rewards and app hash.',
         'No re-derivation of the per-block formula; the matured-chunk clause assumes a constant reward interval.', 'DESIGN.md 7 C13'),
 'C14': ('exploration', 'runtime monitoring: per-proposal lifecycle automaton over store/status/outcome across dumps, outcome recomputed from the recorded votes with exact rationals, exact escrow accounting, option records compared block to block',
         'Held on every block observed: proposals only moved forward along the allowed transitions, entered voting only with the goal met before the funding deadline, passed/failed as the recorded votes say, expired only after the voting deadline; option records changed only when a passed configuration proposal was finalised; escrow changed exactly by contributions/withdrawals and was emptied once at finalisation; no funder withdrew more than it contributed; honest refund requests on cancelled/missed proposals were not refused.',
         'Outsiders sending expire/finalize transactions and late-staked validators voting are part of the workload.', 'DESIGN.md 7 C14'),
 'C15': ('exploration', 'runtime monitoring: statement-level tracker model (vote-slot replay, thresholds, wrapped-balance matching, store exclusivity, supply counter) over the decoded tracker records and balances',
         'Held on every block observed: vote slots changed only by the recorded witness for its own slot, first vote; releases/failures only with more than two thirds of the recorded witnesses; every wrapped-balance change equalled confirmed locks/refunds credited to the submitter minus that owner\'s redeems; no external transaction in two stores; supply counter == circulation.',
         'The harness plays users and witnesses with locally signed Ethereum transactions; ERC-20 redeem completion is unreachable in the tree (token lookup by the wrong address) and only its debit is covered.', 'DESIGN.md 7 C15'),
 'C17': ('exploration', 'runtime monitoring: per-transaction ledger deltas from the dump + balances/nonces read through the EVM adapter (private copy) after every block compared with the native records',
         'Held on every block observed: for executed OLVM transactions the sender lost gasUsed x price (+ value), its nonce rose by one, plain-transfer recipients got the value moved, the fee records grew by gas used x price of all executed transactions; OLVM transactions failing the consensus pre-checks (delivered by a byzantine proposer) changed nothing; the EVM view of every account equalled its native record.',
         'Half of the histories carry at most one OLVM transaction per block for attribution.', 'DESIGN.md 7 C17'),
 'C19': ('exploration', 'runtime monitoring: statement-level tally with exact rationals over the decoded allegation/freeze/stake records and the block\'s successful votes',
         'Held on every block observed: every guilty/innocent verdict was backed by yes/no votes of distinct active validators above the configured share (required = ceil(active x vote share)); no validator counted twice; guilty validators lost exactly the configured (rounded) percentage, the bounty program received at most its share, they got no positive-power update and could not stake/unstake/withdraw until released, releases respected the release time; non-active accounts could not open or vote.',
         'active = validators elected in the block of the tally (mechanism text).', 'DESIGN.md 7 C19'),
 'C20': ('exploration', 'runtime monitoring: statement-level registry over the decoded domain records and ledger deltas, block to block',
         'Held on every block observed: every change of owner/beneficiary/sale status/price/address/sub-names was backed by a successful transaction signed by the previous owner (or the parent\'s owner for sub-names) or by a purchase meeting the asking/base price with the seller paid; every new or moved expiry equalled the blocks the payment buys; one record per name.',
         'The height an expiry is counted from may be the previous or the current block; option record in force before or after the block accepted.', 'DESIGN.md 7 C20'),
}

NOT_YET = {}

def main():
    props = [json.loads(l) for l in open('/verif/properties.jsonl')]
    checks = []
    na = []
    for p in props:
        pid = p['id']
        if pid in CHECKS:
            cat, tech, text, note, ref = CHECKS[pid]
            checks.append({
                'property_id': pid,
                'quick_cmd': f'./run.sh {pid} quick',
                'thorough_cmd': f'./run.sh {pid} thorough',
                'evidence_file': f'/verif/evidence/{pid}.json',
                'replay_cmd_template': f'./run.sh {pid} quick --replay {{path}}',
                'engine': 'olmon' if pid not in ('C09','C16') else ('olc09' if pid=='C09' else 'olc16'),
                'level_claimed': {'category': cat, 'text': text, 'design_ref': ref},
                'level_note': note,
                'technique': tech,
            })
        else:
            na.append({'property_id': pid, 'reason': NOT_YET.get(pid, 'check not built yet in this session (work in progress; see DESIGN.md section 13.4)')})
    m = {
        'version': 1,
        'setup_cmd': './setup.sh',
        'hooks': {
            'guard': 'verif',
            'enable': 'go build -tags verif -ldflags=-checklinkname=0 (harness module /verif/harness with replace => /repo)',
            'baseline_off_cmd': 'cd /repo && go test -mod=mod -json -vet=off -count=1 -timeout 25m ./...',
            'source_commits': HOOK_COMMITS,
            'add_only': True,
        },
        'engines': [
            {'name': 'olbox', 'path': '/verif/harness/cmd/olbox', 'serves_properties': [c['property_id'] for c in checks if c['engine']=='olmon'], 'kind_free_text': 'node-in-a-box: real app.App + Tendermint block executor/handshake/mempool connection/indexer in one OS process, driven by block recipes'},
            {'name': 'olmon', 'path': '/verif/harness/cmd/olmon', 'serves_properties': [c['property_id'] for c in checks if c['engine']=='olmon'], 'kind_free_text': 'driver: workload generators, lock-step replica runner, monitors, evidence'},
            {'name': 'olc09', 'path': '/verif/harness/cmd/olc09', 'serves_properties': ['C09'], 'kind_free_text': 'in-process differential of the real storage.State/ChainState against a reference map model and a write-projection twin'},
            {'name': 'olc16', 'path': '/verif/harness/cmd/olc16', 'serves_properties': ['C16'], 'kind_free_text': 'in-process differential of vm.CommitStateDB against go-ethereum core/state.StateDB under the same interpreter'},
        ],
        'checks': checks,
        'not_applicable': na,
        'notes': 'Technique family: runtime monitoring. Every check rebuilds the harness from /repo\'s working tree with -tags verif. Exit 0 held / 1 VIOLATION / 2 inconclusive. Known findings: /verif/known_findings.json.',
    }
    json.dump(m, open('/verif/MANIFEST.json','w'), indent=1)
    print('checks:', [c['property_id'] for c in checks], 'not claimed:', len(na))

main()
