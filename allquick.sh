#!/bin/bash
# allquick.sh [tier] — runs every registered check once (sequentially) and prints one line per check.
TIER=${1:-quick}
cd /verif
for i in 01 02 03 04 05 06 07 08 09 10 11 12 13 14 15 16 17 18 19 20; do
  out=$(./run.sh C$i $TIER 2>&1); rc=$?
  echo "C$i rc=$rc $(echo "$out" | grep -E "^C$i (quick|thorough)" | tail -1 | cut -c1-150)"
  if [ $rc -ne 0 ]; then echo "$out" | grep -E "^(VIOLATION|INCONCLUSIVE|  signature|  )" | head -12 | cut -c1-400; fi
done
