#!/usr/bin/env python3
# seedkeep.py <Cxx> <A|B> <demo package dir> <needs> <ran> <result>
# stores a confirmed seeded change under /verif/seeded/<Cxx>-<A|B>/
import sys, os, shutil, json
pid, v, pkg, needs, ran, result = sys.argv[1:7]
src = f'/tmp/wt_{pid}/_seed'
dst = f'/verif/seeded/{pid}-{v}'
os.makedirs(dst, exist_ok=True)
shutil.copy(f'{src}/{v}.diff', f'{dst}/patch.diff')
shutil.copy(f'{src}/demo_{v}_test.go', f'{dst}/demo_test.go.txt')
notes = open(f'{src}/NOTES.txt').read() if os.path.exists(f'{src}/NOTES.txt') else ''
open(f'{dst}/NOTES.txt', 'w').write(notes)
meta = {
 'property': pid, 'variant': v,
 'demo': {'file': 'demo_test.go.txt', 'copy_to': f'{pkg}/zz_seed_{v}_test.go', 'run': f'go test -vet=off -count=1 -ldflags=-checklinkname=0 -run Seed ./{pkg}/'},
 'needs_to_manifest': needs,
 'confirmed': 'in a scratch worktree of /repo HEAD: the demonstration passes without the change and fails with it; the repository suite (go test -vet=off -count=1 ./...) has the same failing set as on the unchanged worktree (seedverify.sh)',
 'checks_run': ran,
 'result': result,
}
json.dump(meta, open(f'{dst}/meta.json', 'w'), indent=1)
print('kept', dst)
